"""Triage (dynamic, NOT part of any check): hdfdir_archive._store swallows the TypeError of a value that cannot be
encoded, then removes the live entry and renames the incomplete staging directory into place.
h5py is not installed here; the real klepto code is run against a 25-line stand-in for h5py.File (see DESIGN.md).
run: cd /verif && PYTHONPATH=/verif/findings/stub_h5py:/repo /venv/bin/python findings/demo_hdfdir_stub.py"""
import os, shutil, tempfile
import klepto._archives as A
assert A.hdf, 'needs an importable h5py (stub)'
d = tempfile.mkdtemp()
try:
    a = A.hdfdir_archive(os.path.join(d, 'm'))
    a['k'] = 'old value'
    print('before:', a.get('k'))
    try:
        a['k'] = (i for i in range(3))      # a generator cannot be pickled -> TypeError inside the store
        print('store of an unencodable value raised nothing')
    except Exception as e:
        print('store raised', type(e).__name__)
    print('after :', repr(a.get('k')), '| keys:', list(a.keys()) if True else None)
finally:
    shutil.rmtree(d)
