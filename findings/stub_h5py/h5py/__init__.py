"""minimal stand-in for h5py (triage only): File(path, mode) = dict persisted with pickle; names are str"""
import os, pickle
class _Void(bytes):
    def tobytes(self): return bytes(self)
class _numpy:
    void = _Void
class _V:
    numpy = _numpy
version = _V()
def _n(k): return k.decode('latin-1') if isinstance(k, bytes) else k
class File(dict):
    def __init__(self, path, mode='r'):
        self._p, self._m = path, mode
        if mode == 'r' and not os.path.exists(path): raise OSError('no file')
        if mode in ('r', 'a') and os.path.exists(path):
            with open(path, 'rb') as f: dict.update(self, pickle.load(f))
        self.attrs = self
    def __setitem__(self, k, v): dict.__setitem__(self, _n(k), v)
    def __getitem__(self, k): return dict.__getitem__(self, _n(k))
    def __delitem__(self, k): dict.__delitem__(self, _n(k))
    def __contains__(self, k): return dict.__contains__(self, _n(k))
    def pop(self, k, *d): return dict.pop(self, _n(k), *d)
    def close(self):
        if self._m != 'r':
            with open(self._p, 'wb') as f: pickle.dump(dict(self), f)
