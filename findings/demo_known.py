"""Triage demonstrations (dynamic, NOT part of any check): the known findings listed in
known_findings.json reproduce against the real code.  Run: /venv/bin/python findings/demo_known.py"""
import os, shutil, tempfile
from klepto.archives import dir_archive, file_archive
import klepto._archives as A

def overwrite_window():
    d = tempfile.mkdtemp()
    try:
        a = dir_archive(os.path.join(d, 'm'), cached=False)
        a['k'] = 'old'
        orig = os.renames
        def killed(src, dst):
            raise KeyboardInterrupt('killed between rmtree(final) and rename(staging, final)')
        A.os.renames = killed
        try:
            try: a['k'] = 'new'
            except KeyboardInterrupt: pass
        finally:
            A.os.renames = orig
        b = dir_archive(os.path.join(d, 'm'), cached=False)
        return 'k' in b, b.get('k')
    finally:
        shutil.rmtree(d)

def list_then_read():
    d = tempfile.mkdtemp()
    try:
        a = dir_archive(os.path.join(d, 'm'), cached=False)
        a['x'] = 1; a['y'] = 2
        orig = a._keydict
        def racing():
            keys = orig()
            shutil.rmtree(a._getdir('y'))      # another process deletes 'y' after the listing
            return keys
        a._keydict = racing
        try:
            return a.__asdict__()
        except KeyError as e:
            return 'KeyError(%s) out of the bulk read' % e
    finally:
        shutil.rmtree(d)

def open_rewrites():
    d = tempfile.mkdtemp()
    try:
        p = os.path.join(d, 'a.pkl')
        a = file_archive(p, cached=False); a['k'] = 1
        before = os.stat(p).st_ino
        file_archive(p, cached=False)
        return before != os.stat(p).st_ino
    finally:
        shutil.rmtree(d)

print('A-PUB  dir_archive overwrite killed before rename -> key present, value:', overwrite_window())
print('A-LISTREAD dir_archive.__asdict__ with a key removed after listing ->', list_then_read())
print('A-OPEN file_archive(name, cached=False) on an existing file replaces the file (inode changed):', open_rewrites())
