"""Triage demonstrations (dynamic, NOT part of any check): the known findings listed in
known_findings.json reproduce against the real code.  Run: /venv/bin/python findings/demo_known.py"""
import os, shutil, tempfile
from klepto.archives import dir_archive, file_archive
import klepto._archives as A

def overwrite_window():
    d = tempfile.mkdtemp()
    try:
        a = dir_archive(os.path.join(d, 'm'), cached=False)
        a['k'] = 'old'
        orig = os.renames
        def killed(src, dst):
            raise KeyboardInterrupt('killed between rmtree(final) and rename(staging, final)')
        A.os.renames = killed
        try:
            try: a['k'] = 'new'
            except KeyboardInterrupt: pass
        finally:
            A.os.renames = orig
        b = dir_archive(os.path.join(d, 'm'), cached=False)
        return 'k' in b, b.get('k')
    finally:
        shutil.rmtree(d)

def list_then_read():
    d = tempfile.mkdtemp()
    try:
        a = dir_archive(os.path.join(d, 'm'), cached=False)
        a['x'] = 1; a['y'] = 2
        orig = a._keydict
        def racing():
            keys = orig()
            shutil.rmtree(a._getdir('y'))      # another process deletes 'y' after the listing
            return keys
        a._keydict = racing
        try:
            return a.__asdict__()
        except KeyError as e:
            return 'KeyError(%s) out of the bulk read' % e
    finally:
        shutil.rmtree(d)

def open_rewrites():
    d = tempfile.mkdtemp()
    try:
        p = os.path.join(d, 'a.pkl')
        a = file_archive(p, cached=False); a['k'] = 1
        before = os.stat(p).st_ino
        file_archive(p, cached=False)
        return before != os.stat(p).st_ino
    finally:
        shutil.rmtree(d)

def key_aliasing():
    d = tempfile.mkdtemp()
    try:
        a = dir_archive(os.path.join(d, 'm'), cached=False)
        a['a-b'] = 1; a['a_b'] = 2
        b = dir_archive(os.path.join(d, 'n'), cached=False)
        b[1] = 'int'; b['1'] = 'str'
        return dict(a.items()), a.get('a-b'), dict(b.items()), b[1]
    finally:
        shutil.rmtree(d)

def kwonly_validate():
    from klepto import isvalid
    def f(x, *, k): return 0
    def g(x, *, k=1): return 0
    out = []
    try:
        f(1); real = 'valid'
    except TypeError:
        real = 'TypeError'
    out.append('isvalid(f, 1)=%s but f(1) -> %s' % (isvalid(f, 1), real))
    out.append('isvalid(g, 1, k=2)=%s but g(1, k=2) -> %r' % (isvalid(g, 1, k=2), g(1, k=2)))
    return out

def kwonly_ignored():
    from klepto import keygen, inf_cache
    from klepto.keymaps import keymap
    @keygen('**')
    def h(x, *, y=1, **kw): return x
    @inf_cache(keymap=keymap(), ignore='**')
    def q(x, *, y=1, **kw): return (x, y)
    return 'keys %r / %r ; cached q(1, y=2)=%r then q(1, y=3)=%r' % (h(1, y=2), h(1, y=3), q(1, y=2), q(1, y=3))

print('A-PUB  dir_archive overwrite killed before rename -> key present, value:', overwrite_window())
print('A-LISTREAD dir_archive.__asdict__ with a key removed after listing ->', list_then_read())
print('A-OPEN file_archive(name, cached=False) on an existing file replaces the file (inode changed):', open_rewrites())
print('V-FIELDS validate never consults keyword-only parameters ->', kwonly_validate())
print('G-FIELDS ignore=\'**\' drops a non-ignored keyword-only parameter from the key ->', kwonly_ignored())
print('A-FNAME dir_archive key aliasing (\'a-b\' / \'a_b\', 1 / \'1\') ->', key_aliasing())
