"""Findings, known-findings matching, evidence files, exit codes."""
import json
import os
import re
import sys
import time

VERIF = os.path.dirname(os.path.dirname(os.path.abspath(__file__)))
KNOWN_FILE = os.path.join(VERIF, 'known_findings.json')


def outroot():
    """where evidence/ and out/ are written (the self-test redirects this to a scratch directory)"""
    return os.environ.get('KV_OUTROOT') or VERIF


def norm_detail(s):
    """normalise a detail string: no line numbers, no event serials, single spaces"""
    s = re.sub(r'#\d+(\.\d+)?', '#', s)
    s = re.sub(r'@\d+', '', s)
    s = re.sub(r'\bline \d+\b', 'line', s)
    s = re.sub(r':\d+\b', '', s)
    return ' '.join(s.split())


class Finding(object):
    def __init__(self, rule, construct, detail, message, where='', path=None, note=False):
        self.rule = rule
        self.construct = construct
        self.detail = norm_detail(detail)
        self.message = message
        self.where = where
        self.path = path or []
        self.note = note

    def key(self, prop):
        return (prop, self.rule, self.construct, self.detail)

    def asdict(self, prop):
        return {'property': prop, 'rule': self.rule, 'construct': self.construct, 'detail': self.detail,
                'message': self.message, 'where': self.where, 'path': self.path}


class Ctx(object):
    """collects obligations, findings and evidence for one property run"""

    def __init__(self, prop, tier, repo):
        self.prop = prop
        self.tier = tier
        self.repo = repo
        self.t0 = time.time()
        self.findings = []
        self.notes = []
        self.obligations = {}     # rule -> count
        self.discharged = {}
        self.instances = {}       # rule -> list of instance labels (short)
        self.functions = set()
        self.paths = 0
        self.nontrivial = set()
        self.samples = []
        self.assumptions = []
        self.tables = {}
        self._seen = set()

    def analysed(self, qual):
        self.functions.add(qual)

    def add_paths(self, outs, construct, trivial_kinds=('KEYGEN', 'CAUGHT', 'ASSUME', 'BRANCH', 'RAISE')):
        self.paths += len(outs)
        for o in outs:
            sig = (construct, o.kind, o.exc, tuple((e.kind, e.args) for e in o.st.events))
            if any(e.kind not in trivial_kinds for e in o.st.events):
                self.nontrivial.add(hash(sig))

    def ob(self, rule, instance=None, ok=True, n=1):
        self.obligations[rule] = self.obligations.get(rule, 0) + n
        if ok:
            self.discharged[rule] = self.discharged.get(rule, 0) + n
        if instance is not None:
            lst = self.instances.setdefault(rule, [])
            if len(lst) < 400:
                lst.append(instance)

    def fail(self, rule, construct, detail, message, where='', path=None):
        f = Finding(rule, construct, detail, message, where, path)
        k = f.key(self.prop)
        if k in self._seen:
            return f
        self._seen.add(k)
        self.findings.append(f)
        return f

    def note(self, text):
        if text not in self.notes:
            self.notes.append(text)

    def sample(self, obj):
        if len(self.samples) < 12:
            self.samples.append(obj)

    def assume(self, text):
        if text not in self.assumptions:
            self.assumptions.append(text)

    def require_instances(self, rule, n, what):
        from .src import AnalysisError
        have = self.obligations.get(rule, 0)
        if have < n:
            raise AnalysisError('instance count below confirmed minimum for %s: %d %s (< %d)' % (rule, have, what, n))


def load_known():
    if not os.path.exists(KNOWN_FILE):
        return {'findings': [], 'fixed': []}
    with open(KNOWN_FILE) as f:
        return json.load(f)


def finish(ctx, rule_text, explanation, technique, extra_cov=None):
    """print report lines, write evidence + replay files, return exit code"""
    known = load_known()
    kmap = {}
    for k in known.get('findings', []):
        kmap[(k['property'], k['rule'], k['construct'], norm_detail(k['detail']))] = k
    prop = ctx.prop
    outdir = os.path.join(outroot(), 'out', prop)
    violations = []
    matched = []
    for f in ctx.findings:
        k = f.key(prop)
        if k in kmap:
            matched.append((f, kmap[k]))
        else:
            violations.append(f)
    for f, k in matched:
        print('KNOWN-FINDING: property=%s rule=%s %s: %s' % (prop, f.rule, f.construct, k.get('what', f.message)))
    if violations:
        os.makedirs(outdir, exist_ok=True)
        for old in os.listdir(outdir):
            try:
                os.remove(os.path.join(outdir, old))
            except OSError:
                pass
    for i, f in enumerate(violations):
        rp = os.path.join(outdir, '%d.json' % i)
        with open(rp, 'w') as fh:
            json.dump(f.asdict(prop), fh, indent=1)
        print('RULE %s FAILED at %s (%s)' % (f.rule, f.where, f.construct))
        print('  ' + f.message)
        for ln in f.path[:40]:
            print('    ' + ln)
        print('VIOLATION property=%s replay=%s' % (prop, rp))
    for n in ctx.notes:
        print('NOTE: ' + n)
    dg, mods = ctx.repo.digest()
    nob = sum(ctx.obligations.values())
    ndis = sum(ctx.discharged.values())
    cov = {
        'explanation': explanation,
        'rule': rule_text,
        'technique': technique,
        'obligations': nob,
        'discharged': ndis,
        'obligations_by_rule': ctx.obligations,
        'discharged_by_rule': ctx.discharged,
        'evaluations': max(1, ctx.paths + nob),
        'distinct_nontrivial': len(ctx.nontrivial) + len(set((r, i) for r, l in ctx.instances.items() for i in l)),
        'paths_enumerated': ctx.paths,
        'functions_analysed': sorted(ctx.functions),
        'rule_instances': dict((r, l[:40]) for r, l in ctx.instances.items()),
        'samples': ctx.samples or ['(no samples)'],
        'exhaustive': True,
        'source_digest': dg,
        'modules': mods,
        'known_findings_matched': [f.asdict(prop) for f, _ in matched],
        'notes': ctx.notes,
        'tables': ctx.tables,
        'trusted_base': ['python ast module', 'kv path enumerator (handler matching, evaluation order)',
                         'frozen library-effect tables printed under tables'],
        'checker_cmd': './check %s --tier %s' % (prop, ctx.tier),
    }
    if extra_cov:
        cov.update(extra_cov)
    ev = {
        'property_id': prop,
        'tier': ctx.tier,
        'seed': int(os.environ.get('VERIF_SEED', '0') or 0),
        'level': 'other',
        'coverage': cov,
        'assumptions': ctx.assumptions,
        'wall_s': round(time.time() - ctx.t0, 3),
        'violations': len(violations),
    }
    os.makedirs(os.path.join(outroot(), 'evidence'), exist_ok=True)
    with open(os.path.join(outroot(), 'evidence', '%s.json' % prop), 'w') as fh:
        json.dump(ev, fh, indent=1, sort_keys=True, default=str)
    print('%s: %d obligations, %d discharged, %d paths, %d functions, %d known findings, %d violations (%.2fs)' % (
        prop, nob, ndis, ctx.paths, len(ctx.functions), len(matched), len(violations), time.time() - ctx.t0))
    return 1 if violations else 0
