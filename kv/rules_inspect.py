"""Rules over klepto/_inspect.py (the binding side of the key): G-VAL, G-PREC, G-FORMS and the V-* rules.

All of them are decided on the dependence / provenance interpretation of kv.deps (no paths are enumerated: _keygen has > 80 000).

G-VAL   every argument value reaches the key material: on every return of _keygen the positional part carries values of *args and
        the keyword part carries values of **kwds; on the main return the keyword part also carries the function's defaults,
        its keyword-only defaults, a partial's keywords and the (named) positionals.  Necessary for C09 (a default spelled out or
        omitted, positional or keyword spelling) and C10 (every argument discriminates).
G-PREC  binding precedence of the layers written into the keyword part: function defaults and keyword-only defaults are written
        before a partial's keywords, and all three before the caller's keywords (later writes override earlier ones; setdefault-style
        writes count as earlier).  A flipped pair lets a default overwrite a value the caller (or the partial) supplied.
"""
import ast

from .src import AnalysisError, unparse
from .deps import DepEngine, AV, NOCONST, join

FIELD_ROOTS = ('SPEC',)
SOURCE_CALLS = {'getfullargspec': 'SPEC', 'getargspec': 'SPEC'}


def _roles(fi):
    a = fi.node.args
    pos = [x.arg for x in a.posonlyargs + a.args]
    if len(pos) < 2 or a.vararg is None or a.kwarg is None:
        raise AnalysisError('anchor changed: %s is expected to take (func, ignored, *args, **kwds)' % fi.qual)
    return {'func': 'P:' + pos[0], 'ignored': 'P:' + pos[1], 'args': 'P:' + a.vararg.arg, 'kwds': 'P:' + a.kwarg.arg}


def run_keygen(repo):
    m = repo.mod('_inspect')
    fi = m.functions.get('_keygen')
    if fi is None:
        raise AnalysisError('anchor vanished: klepto/_inspect.py::_keygen')
    if 'signature' not in m.functions:
        raise AnalysisError('anchor vanished: klepto/_inspect.py::signature')
    r = _roles(fi)
    roots = set(FIELD_ROOTS) | set([r['func'], r['func'] + '.func'])
    eng = DepEngine(m, field_roots=roots, source_calls=SOURCE_CALLS)
    out = eng.run(fi.node, fi.qual, {})
    return m, fi, r, eng, out


def layer_classes(layer, r):
    """which binding sources does this layer carry values of"""
    c = set()
    for L in layer.v:
        if L == 'SPEC.defaults':
            c.add('FDEF')
        elif L == 'SPEC.kwonlydefaults':
            c.add('KWDEF')
        elif L in (r['func'] + '.keywords', r['func'] + '.func.keywords'):
            c.add('PKW')
        elif L == r['kwds']:
            c.add('CALLKW')
        elif L == r['args']:
            c.add('POS')
    return c


PREC = (('FDEF', 'PKW', "a function default is written after (overrides) the keywords a functools.partial was built with"),
        ('KWDEF', 'PKW', "a keyword-only default is written after (overrides) the keywords a functools.partial was built with"),
        ('FDEF', 'CALLKW', "a function default is written after (overrides) a keyword the caller passed"),
        ('KWDEF', 'CALLKW', "a keyword-only default is written after (overrides) a keyword the caller passed"),
        ('PKW', 'CALLKW', "a partial's keyword is written after (overrides) a keyword the caller passed"))


def rule_G(ctx, repo, want=('G-VAL', 'G-PREC')):
    m, fi, r, eng, out = run_keygen(repo)
    ctx.analysed(fi.qual)
    ctx.analysed(m.functions['signature'].qual)
    rets = [s for s in eng.sites if s.kind == 'return' and s.depth == 0]
    if not rets:
        raise AnalysisError('%s has no return' % fi.qual)
    where = '%s:%d' % (m.rel, fi.node.lineno)
    main = []
    for s in rets:
        v = s.val
        if v.elts is None or len(v.elts) != 2:
            raise AnalysisError('%s: return at line %d is not a recognisable (args, kwds) pair' % (fi.qual, s.lineno))
        pa, kw = v.elts
        if 'G-VAL' in want:
            ok1 = r['args'] in pa.v or r['args'] in kw.v
            ok2 = r['kwds'] in kw.v
            ctx.ob('G-VAL', 'return@%s positional values reach the key' % unparse(s.node)[:50], ok1)
            ctx.ob('G-VAL', 'return@%s keyword values reach the key' % unparse(s.node)[:50], ok2)
            if not ok1:
                ctx.fail('G-VAL', fi.qual, 'positional values dropped: ' + ' '.join(unparse(s.node).split())[:80],
                         'a return of _keygen yields key material that carries no value of *%s: calls differing in positional arguments share a key' % r['args'][2:],
                         '%s:%d' % (m.rel, s.lineno))
            if not ok2:
                ctx.fail('G-VAL', fi.qual, 'keyword values dropped: ' + ' '.join(unparse(s.node).split())[:80],
                         'a return of _keygen yields key material whose keyword part carries no value of **%s: calls differing in keyword arguments share a key' % r['kwds'][2:],
                         '%s:%d' % (m.rel, s.lineno))
        if 'SPEC' in v.d or 'SPEC.args' in v.d:
            main.append(s)
    if not main:
        raise AnalysisError('%s: no return depends on the inspected signature (anchor changed)' % fi.qual)
    if 'G-VAL' in want:
        need = (('SPEC.defaults', "the function's default values"), ('SPEC.kwonlydefaults', "the function's keyword-only defaults"),
                (r['func'] + '.keywords', "a partial's keywords"), (r['args'], 'named positional arguments'))
        for L, what in need:
            ok = any(L in s.val.elts[1].v for s in main)
            ctx.ob('G-VAL', 'keyword part of the key carries %s' % what, ok)
            if not ok:
                ctx.fail('G-VAL', fi.qual, 'keyword part never carries ' + L.replace(r['func'], 'FN').replace(r['args'], 'ARGS'),
                         'no return of _keygen puts %s into the keyword part of the key: a call that spells the value out and one that relies on it '
                         'get different keys (C09), or positional and keyword spellings differ' % what, where)
        # the positional part keeps the variadic positionals on the main return
        ok = all(r['args'] in s.val.elts[0].v for s in main)
        ctx.ob('G-VAL', 'positional part keeps *args values', ok)
        if not ok:
            ctx.fail('G-VAL', fi.qual, 'variadic positionals dropped from the positional part',
                     'the positional part of the key returned by _keygen carries no value of *%s: extra positional arguments no longer discriminate' % r['args'][2:], where)
    if 'G-VAL' in want:
        # ---- independence of the binding sources: whether one kind of default reaches the key is not conditional on another kind being present
        fieldof = {'FDEF': ('SPEC.defaults',), 'KWDEF': ('SPEC.kwonlydefaults',)}
        names = {'FDEF': "the function's positional defaults", 'KWDEF': "the function's keyword-only defaults", 'PKW': "a partial's keywords"}
        for s in main:
            kw = s.val.elts[1]
            if kw.alts is None:
                continue
            alts = [[(layer_classes(l, r), l) for l in alt] for alt in kw.alts]
            for A, B in (('KWDEF', 'FDEF'), ('FDEF', 'KWDEF'), ('PKW', 'FDEF'), ('PKW', 'KWDEF')):
                withA = [alt for alt in alts if any(A in c for c, _ in alt)]
                lackB = [alt for alt in alts if not any(B in c for c, _ in alt)]
                if not withA or not lackB:
                    continue
                alone = [alt for alt in withA if not any(B in c for c, _ in alt)]
                cond = all(any(f in l.d for f in fieldof[B]) for alt in withA for c, l in alt if A in c)
                ok = bool(alone) or not cond
                ctx.ob('G-VAL', '%s reach the key whether or not there are %s' % (names[A], names[B]), ok)
                if not ok:
                    la = [l for c, l in withA[0] if A in c][0]
                    ctx.fail('G-VAL', fi.qual, '%s merged only together with %s' % (A, B),
                             '%s are written into the keyword part of the key only under a condition on %s (layer written at line %d), and no path merges them alone: '
                             'for a function that has the former but not the latter the defaults never reach the key, so a call that spells the default out and one that '
                             'omits it get different keys' % (names[A], names[B], la.where), '%s:%d' % (m.rel, la.where or s.lineno),
                             ['layerings: ' + ' | '.join(' < '.join('+'.join(sorted(c)) or '-' for c, _ in alt) for alt in alts)])
    if 'G-PREC' in want:
        n = 0
        for s in main:
            kw = s.val.elts[1]
            if kw.alts is None and (r['kwds'] in kw.v and ('SPEC.defaults' in kw.v or 'SPEC.kwonlydefaults' in kw.v)):
                raise AnalysisError('%s: the order of writes into the keyword part of the key cannot be determined (more than %d alternatives or an unmodelled mapping idiom)' % (fi.qual, 24))
            for alt in kw.layers_or_self():
                cls = [layer_classes(l, r) for l in alt]
                for a, b, msg in PREC:
                    ia = [i for i, c in enumerate(cls) if a in c and b not in c]
                    ib = [i for i, c in enumerate(cls) if b in c and a not in c]
                    if not ia or not ib:
                        continue
                    n += 1
                    ok = max(ia) < min(ib)
                    ctx.ob('G-PREC', None, ok)
                    if not ok:
                        la = alt[max(ia)]
                        ctx.fail('G-PREC', fi.qual, '%s written after %s' % (a, b),
                                 'binding precedence: %s (layer written at line %d follows the layer written at line %d); two spellings of the same call get different keys, '
                                 'or a value the caller supplied is replaced by a default' % (msg, la.where, alt[min(ib)].where),
                                 '%s:%d' % (m.rel, la.where or fi.node.lineno), ['layering: ' + ' < '.join(repr(l) for l in alt)])
        if n == 0:
            raise AnalysisError('%s: no pair of binding layers found to compare (defaults / partial keywords / caller keywords)' % fi.qual)
        ctx.instances.setdefault('G-PREC', []).append('%d ordered layer pairs over %d layerings' % (n, sum(len(s.val.elts[1].layers_or_self()) for s in main)))
        ctx.sample({'construct': fi.qual, 'layerings of the keyword part (later overrides earlier)': [' < '.join(repr(l) for l in alt) for s in main for alt in sorted(s.val.elts[1].layers_or_self(), key=len)[-2:]]})


# ---------------------------------------------------------------------------------------------------------------- C11: ignore forms
def rule_G_FORMS(ctx, repo):
    """G-FORMS (exhaustiveness of the ignore specification): each advertised form has a handler that reaches the key -
    positional indices (isinstance Integral/int) and names (isinstance str) drive a NULL substitution in both the positional and the
    keyword part, '*' drives the positional part, '**' drives the keyword part; the substitute is the constant marker NULL."""
    m, fi, r, eng, out = run_keygen(repo)
    ctx.analysed(fi.qual)
    rets = [s for s in eng.sites if s.kind == 'return' and s.depth == 0 and s.val.elts is not None and len(s.val.elts) == 2
            and ('SPEC' in s.val.d or 'SPEC.args' in s.val.d)]
    if not rets:
        raise AnalysisError('%s: no (args, kwds) return depends on the inspected signature' % fi.qual)
    where = '%s:%d' % (m.rel, fi.node.lineno)
    pa_d = frozenset().union(*[s.val.elts[0].d for s in rets])
    kw_d = frozenset().union(*[s.val.elts[1].d for s in rets])
    pa_v = frozenset().union(*[s.val.elts[0].v for s in rets])
    kw_v = frozenset().union(*[s.val.elts[1].v for s in rets])
    ints = ('TEST:isinstance:Integral', 'TEST:isinstance:int')
    checks = [
        ('ignore specification reaches the positional part', r['ignored'] in pa_d, 'the positional part of the key does not depend on the ignore specification at all'),
        ('ignore specification reaches the keyword part', r['ignored'] in kw_d, 'the keyword part of the key does not depend on the ignore specification at all'),
        ('index form -> positional part', any(t in pa_d for t in ints), 'integer entries of the ignore specification (positional indices) never influence the positional part of the key'),
        ('index form -> keyword part', any(t in kw_d for t in ints), 'integer entries of the ignore specification never influence the keyword part (a named parameter selected by index stays in the key)'),
        ('name form -> keyword part', 'TEST:isinstance:str' in kw_d, 'string entries of the ignore specification (parameter names) never influence the keyword part of the key'),
        ("'*' form -> positional part", 'TEST:*' in pa_d, "the marker '*' (ignore all extra positionals) never influences the positional part of the key"),
        ("'**' form -> keyword part", 'TEST:**' in kw_d, "the marker '**' (ignore all extra keywords) never influences the keyword part of the key"),
        ('NULL marker substituted in the positional part', any(L.startswith('G:') for L in pa_v), 'ignored positionals are not replaced by a module-level marker object'),
        ('NULL marker substituted in the keyword part', any(L.startswith('G:') for L in kw_v), 'ignored keywords are not replaced by a module-level marker object'),
    ]
    ctx.sample({'construct': fi.qual, 'test features reaching the positional part': sorted(L for L in pa_d if L.startswith('TEST:')),
                'test features reaching the keyword part': sorted(L for L in kw_d if L.startswith('TEST:')),
                'value sources of the positional part': sorted(pa_v), 'value sources of the keyword part': sorted(kw_v)})
    for what, ok, msg in checks:
        ctx.ob('G-FORMS', what, ok)
        if not ok:
            ctx.fail('G-FORMS', fi.qual, what, '_keygen: %s - calls differing only in an ignored argument get different keys' % msg, where)
    # ---- a callable whose signature cannot be inspected (builtins, C types) has no known parameter names: every argument could be a real parameter, so the
    # ignore specification is not applied at all - some return hands (*args, **kwds) back independent of it
    allrets = [s for s in eng.sites if s.kind == 'return' and s.depth == 0 and s.val.elts is not None and len(s.val.elts) == 2]
    plain = [s for s in allrets if r['ignored'] not in s.val.d and r['args'] in s.val.elts[0].v and r['kwds'] in s.val.elts[1].v]
    ctx.ob('G-FORMS', 'uninspectable callables: arguments returned unmolested', bool(plain))
    if not plain:
        ctx.fail('G-FORMS', fi.qual, 'no return independent of the ignore specification',
                 '_keygen applies the ignore specification on every path, also when signature() could not inspect the callable (safe mode returns no names): with no '
                 'known parameter names every positional counts as an "extra" one and every keyword as an "extra" keyword, so \'*\' / \'**\' drop a builtin\'s real '
                 'arguments from the key - int(\'11\', base=2) and int(\'11\', base=8) share an entry', where)
    # ---- '**': which keywords are "extra" is decided by the function's own parameter names, not by what a partial or the caller supplied
    pk = (r['func'] + '.keywords', r['func'] + '.func.keywords')
    n = 0
    for s in eng.sites:
        if s.kind != 'remove' or s.depth != 0 or 'TEST:**' not in s.ctx:
            continue
        # membership tests inside the statement that removes
        stmt_nodes = set(id(x) for x in ast.walk(_enclosing_stmt(fi.node, s.node)))
        for t in eng.sites:
            if t.kind != 'member' or t.depth != 0 or id(t.node) not in stmt_nodes or t.val is None:
                continue
            n += 1
            bad = sorted(L for L in t.val.v if L in pk)
            ctx.ob('G-FORMS', "'**' exclusion set at line %d derives from the signature" % t.lineno, not bad)
            if bad:
                ctx.fail('G-FORMS', fi.qual, "'**' exclusion set includes a partial's keywords",
                         "under ignore='**' _keygen keeps the keywords found in `%s`, a set that also holds the keywords a functools.partial was built with: a keyword the "
                         "function only accepts through **kwds stops being ignorable once a partial presets it, so calls differing only in that keyword get different keys"
                         % ' '.join(unparse(t.node.comparators[0]).split())[:40], '%s:%d' % (m.rel, t.lineno))
    ctx.ob('G-FORMS', "'**' removal sites examined", True, n=max(1, n))


def _enclosing_stmt(fnode, node):
    for st in ast.walk(fnode):
        if isinstance(st, ast.stmt) and not isinstance(st, (ast.If, ast.For, ast.While, ast.Try, ast.With, ast.FunctionDef)):
            for x in ast.walk(st):
                if x is node:
                    return st
    return node


def truth_tests_of(fnode, name):
    """places where the local `name` is tested for truthiness (if name / not name / name or X / X if name else Y) outside the else-chain of an
    isinstance(name, ...) test"""
    parents = {}
    for n in ast.walk(fnode):
        for ch in ast.iter_child_nodes(n):
            parents[ch] = n

    def is_name(x):
        return isinstance(x, ast.Name) and x.id == name

    hits = []
    for n in ast.walk(fnode):
        cands = []
        if isinstance(n, (ast.If, ast.While, ast.IfExp)):
            t = n.test
            if is_name(t):
                cands.append(t)
            elif isinstance(t, ast.UnaryOp) and isinstance(t.op, ast.Not) and is_name(t.operand):
                cands.append(t.operand)
            elif isinstance(t, ast.BoolOp):
                for v in t.values:
                    if is_name(v) or (isinstance(v, ast.UnaryOp) and isinstance(v.op, ast.Not) and is_name(v.operand)):
                        cands.append(v)
        elif isinstance(n, ast.BoolOp) and not isinstance(parents.get(n), (ast.If, ast.While, ast.IfExp)):
            for v in n.values[:-1]:
                if is_name(v):
                    cands.append(v)
        for c in cands:
            # excused when reached only after an isinstance(name, ...) test failed
            cur, excused = n, False
            while cur in parents:
                par = parents[cur]
                if isinstance(par, ast.If) and cur in par.orelse and any(
                        isinstance(x, ast.Call) and isinstance(x.func, ast.Name) and x.func.id == 'isinstance' and x.args and is_name(x.args[0]) for x in ast.walk(par.test)):
                    excused = True
                cur = par
            if not excused:
                hits.append(c)
    return hits


def rule_G_PROBE(ctx, repo):
    """G-PROBE: two guards of _keygen that run on every call.
    (a) the test "could the signature be inspected" is an identity test against None: a successfully inspected function without named parameters and
        defaults yields ((), {}), which is falsy - tested by truthiness it is taken for an uninspectable callable and the ignore specification is skipped;
    (b) the probe "is the first positional the bound instance" runs the argument's own __getattr__ / __eq__, which may raise anything: its handler is
        generic (bare / Exception / BaseException) - narrowed to named exceptions, a record-like argument whose __getattr__ raises KeyError makes key
        generation fail for the positional spelling of a call only."""
    m = repo.mod('_inspect')
    fi = m.functions.get('_keygen')
    if fi is None:
        raise AnalysisError('anchor vanished: klepto/_inspect.py::_keygen')
    fn = fi.node
    sigvars = set()
    for n_ in ast.walk(fn):
        if isinstance(n_, ast.Assign) and isinstance(n_.value, ast.Call) and unparse(n_.value.func).split('.')[-1] in ('signature', '_signature') \
                and len(n_.targets) == 1 and isinstance(n_.targets[0], ast.Tuple):
            sigvars |= set(x.id for x in n_.targets[0].elts if isinstance(x, ast.Name))
    na = 0
    for n_ in ast.walk(fn):
        if isinstance(n_, ast.If) and any(isinstance(x, ast.Return) for x in n_.body) and sigvars & set(x.id for x in ast.walk(n_.test) if isinstance(x, ast.Name)):
            na += 1
            atoms = []

            def flat(t):
                if isinstance(t, ast.BoolOp):
                    for v in t.values:
                        flat(v)
                else:
                    atoms.append(t)
            flat(n_.test)
            bad = [t for t in atoms if not (isinstance(t, ast.Compare) and len(t.ops) == 1 and isinstance(t.ops[0], (ast.Is, ast.IsNot))
                                            and isinstance(t.comparators[0], ast.Constant) and t.comparators[0].value is None)]
            ctx.ob('G-FORMS', 'failed inspection is recognised by `is None`', not bad)
            if bad:
                ctx.fail('G-FORMS', fi.qual, 'inspection failure tested by truthiness',
                         '_keygen takes `%s` for "the signature could not be inspected": a function without named parameters and defaults (def f(*args, **kwds), a '
                         'variadic lambda) inspects fine as ((), {}), which is falsy too - it takes the early exit and the ignore specification is never applied to it'
                         % ' '.join(unparse(n_.test).split())[:60], '%s:%d' % (m.rel, n_.lineno))
    nb = 0
    params = set([fn.args.vararg.arg]) if fn.args.vararg else set()
    for n_ in ast.walk(fn):
        if isinstance(n_, ast.Assign) and any(isinstance(x, ast.Name) and x.id in params for x in ast.walk(n_.value)):
            params |= set(x.id for t in n_.targets for x in ast.walk(t) if isinstance(x, ast.Name))
    for n_ in list(ast.walk(fn)):
        probes = []
        handlers = None
        if isinstance(n_, ast.Try):
            probes = [x for st in n_.body for x in ast.walk(st) if isinstance(x, ast.Call) and isinstance(x.func, ast.Name) and x.func.id == 'getattr' and x.args
                      and any(isinstance(y, ast.Name) and y.id in params for y in ast.walk(x.args[0]))]
            handlers = n_.handlers
            generic = any(h.type is None or unparse(h.type) in ('Exception', 'BaseException') for h in handlers)
        elif isinstance(n_, ast.With):
            probes = [x for st in n_.body for x in ast.walk(st) if isinstance(x, ast.Call) and isinstance(x.func, ast.Name) and x.func.id == 'getattr' and x.args
                      and any(isinstance(y, ast.Name) and y.id in params for y in ast.walk(x.args[0]))]
            sup = [it.context_expr for it in n_.items if isinstance(it.context_expr, ast.Call) and unparse(it.context_expr.func).split('.')[-1] == 'suppress']
            if not sup:
                continue
            generic = any(unparse(a_) in ('Exception', 'BaseException') for c_ in sup for a_ in c_.args)
        if not probes:
            continue
        nb += 1
        ctx.ob('G-FORMS', 'the bound-instance probe tolerates whatever the argument raises', generic)
        if not generic:
            ctx.fail('G-FORMS', fi.qual, 'probe of the first argument catches named exceptions only',
                     '_keygen looks up an attribute of the caller\'s first positional argument (%s) and compares it - this runs the argument\'s own __getattr__ and __eq__ '
                     '- inside a handler that names its exceptions: an argument whose __getattr__ raises something else (a record object raising KeyError) makes key '
                     'generation fail when it is passed positionally, while the keyword spelling of the same call is keyed: the two spellings no longer share an entry'
                     % ' '.join(unparse(probes[0]).split())[:50], '%s:%d' % (m.rel, n_.lineno))
    ctx.ob('G-FORMS', '_keygen guards examined (%d inspection tests, %d probes)' % (na, nb), True)


def rule_G_ZERO(ctx, repo):
    """G-FORMS (bare index 0): the ignore specification may be a single bare index, and 0 - the first parameter - is falsy.  Neither _keygen nor
    the decorators that store the specification decide anything by its truthiness before it is wrapped into a sequence."""
    m = repo.mod('_inspect')
    fi = m.functions.get('_keygen')
    if fi is None:
        raise AnalysisError('anchor vanished: klepto/_inspect.py::_keygen')
    r = _roles(fi)
    targets = [(m, fi.qual, fi.node, r['ignored'][2:])]
    for modname in ('_cache', 'safe'):
        mm = repo.mod(modname)
        for ci in mm.classes.values():
            init = ci.methods.get('__init__')
            if init is None:
                continue
            names = [a.arg for a in init.node.args.args + init.node.args.kwonlyargs]
            if 'ignore' in names:
                targets.append((mm, init.qual, init.node, 'ignore'))
    if len(targets) < 5:
        raise AnalysisError('instance count below confirmed minimum: %d holders of the ignore specification (< 5)' % len(targets))
    for mm, qual, node, name in targets:
        hits = truth_tests_of(node, name)
        ctx.ob('G-FORMS', '%s: `%s` is never tested for truthiness while it may be a bare index' % (qual, name), not hits)
        for h in hits:
            ctx.fail('G-FORMS', qual, 'truthiness of the ignore specification',
                     '%s tests `%s` for truthiness: the specification may be a single bare index, and index 0 (the first parameter) is falsy - ignore=0 is then '
                     'treated as "ignore nothing", so calls that differ only in the first argument are evaluated separately' % (qual, name), '%s:%d' % (mm.rel, h.lineno))


def rule_G_WRAPBARE(ctx, repo):
    """G-FORMS (which specifications are a single entry): a bare name (str) or a bare index (an integer) is wrapped into a one-element list; everything else -
    tuple, list, set, frozenset, dict keys - is a collection of entries and is walked.  The test that decides is positive on the scalar types.  A negative
    test on a container class (`not isinstance(ignored, Sequence)`) misfiles the collections that are not instances of it: a set of names becomes one entry
    that is neither a name nor an index, and nothing is ignored any more."""
    m = repo.mod('_inspect')
    n = 0
    for fname, fi in sorted(m.functions.items()):
        fn = fi.node
        for x in ast.walk(fn):
            # if <test>: spec = [spec]   /   spec = [spec] if <test> else spec
            tests = []
            if isinstance(x, ast.If):
                for st in x.body:
                    if isinstance(st, ast.Assign) and len(st.targets) == 1 and isinstance(st.targets[0], ast.Name) and isinstance(st.value, (ast.List, ast.Tuple)) \
                            and len(st.value.elts) == 1 and isinstance(st.value.elts[0], ast.Name) and st.value.elts[0].id == st.targets[0].id:
                        tests.append((x.test, st.targets[0].id, x.lineno))
            elif isinstance(x, ast.IfExp) and isinstance(x.body, (ast.List, ast.Tuple)) and len(x.body.elts) == 1 and isinstance(x.body.elts[0], ast.Name):
                tests.append((x.test, x.body.elts[0].id, x.lineno))
            for t, name, ln in tests:
                n += 1
                neg = [y for y in ast.walk(t) if isinstance(y, ast.UnaryOp) and isinstance(y.op, ast.Not) and isinstance(y.operand, ast.Call)
                       and isinstance(y.operand.func, ast.Name) and y.operand.func.id in ('isinstance', 'isiterable', 'hasattr') and y.operand.args
                       and isinstance(y.operand.args[0], ast.Name) and y.operand.args[0].id == name]
                ctx.ob('G-FORMS', '%s: a specification is wrapped as a single entry by a positive test on the scalar types' % fname, not neg)
                for y in neg:
                    ctx.fail('G-FORMS', fi.qual, 'single entry decided by `%s`' % unparse(y)[:50],
                             '%s wraps `%s` into a one-element list whenever `%s`: collections that do not satisfy the negated test (a set or frozenset of names, dict keys, '
                             'a generator) are taken for ONE entry, which is neither a name nor an index - nothing they list is ignored, so the ignored arguments enter the '
                             'key and the function is evaluated again for every value of them' % (fname, name, unparse(y)[:60]), '%s:%d' % (m.rel, ln))
    # the same decision written as a fall-through: `if isinstance(spec, (list, tuple, set, frozenset)): return tuple(spec)` ... `return (spec,)` wraps every
    # collection the enumeration forgot (range, dict keys, deque) into one entry that matches nothing
    for modname in ('_inspect', 'tools', '_cache', 'safe'):
        mm = repo.mod(modname)
        for fname, fi in sorted(mm.functions.items()):
            fn = fi.node
            params = [a_.arg for a_ in fn.args.args]
            if not params:
                continue
            parent = {}
            for x in ast.walk(fn):
                for c in ast.iter_child_nodes(x):
                    parent[c] = x
            for r in ast.walk(fn):
                if not (isinstance(r, ast.Return) and isinstance(r.value, (ast.Tuple, ast.List)) and len(r.value.elts) == 1 and isinstance(r.value.elts[0], ast.Name)
                        and r.value.elts[0].id in params):
                    continue
                name = r.value.elts[0].id
                if 'ignor' not in name and 'mask' not in fname and 'ignor' not in fname:
                    continue
                n += 1
                scalar_guard = False
                cur = r
                container_before = None
                while cur in parent and cur is not fn:
                    p_ = parent[cur]
                    if isinstance(p_, ast.If) and cur in p_.body and any(isinstance(y, ast.Call) and isinstance(y.func, ast.Name) and y.func.id == 'isinstance' and y.args
                                                                        and isinstance(y.args[0], ast.Name) and y.args[0].id == name
                                                                        and any(isinstance(z, ast.Name) and z.id in ('str', 'int', 'Integral', 'bytes', 'unicode', 'basestring')
                                                                                for z in ast.walk(y.args[1])) for y in ast.walk(p_.test)) \
                            and not any(isinstance(y, ast.UnaryOp) and isinstance(y.op, ast.Not) for y in ast.walk(p_.test)):
                        scalar_guard = True
                    for fld in ('body', 'orelse'):
                        blk = getattr(p_, fld, None)
                        if isinstance(blk, list) and cur in blk:
                            for st_ in blk[:blk.index(cur)]:
                                if isinstance(st_, ast.If) and st_.body and isinstance(st_.body[-1], ast.Return) and any(
                                        isinstance(y, ast.Call) and isinstance(y.func, ast.Name) and y.func.id == 'isinstance' and y.args and isinstance(y.args[0], ast.Name)
                                        and y.args[0].id == name and any(isinstance(z, ast.Name) and z.id in ('list', 'tuple', 'set', 'frozenset', 'dict', 'Sequence', 'Set', 'Iterable')
                                                                          for z in ast.walk(y.args[1])) for y in ast.walk(st_.test)):
                                    container_before = st_
                    cur = p_
                ok = scalar_guard or container_before is None
                ctx.ob('G-FORMS', '%s::%s: `return (%s,)` is reached for scalars, not for "everything that is not one of the listed containers"' % (mm.rel, fname, name), ok)
                if not ok:
                    ctx.fail('G-FORMS', fi.qual, 'single entry is the fall-through of a container test',
                             '%s returns `(%s,)` for every value that did not pass `%s`: a specification given as another kind of collection (range(1, 3), dict keys, a deque) '
                             'becomes one entry that is neither a name nor an index - nothing it lists is ignored, so the ignored arguments change the key'
                             % (fname, name, ' '.join(unparse(container_before.test).split())[:60]), '%s:%d' % (mm.rel, r.lineno))
    # ... and a membership test against the specification itself comes after the wrapping: `name in 'memo'` is a substring test on a bare string
    fi = m.functions.get('_keygen')
    if fi is not None and len(fi.node.args.args) >= 2:
        spec = fi.node.args.args[1].arg
        rebinds = [x.lineno for x in ast.walk(fi.node) if isinstance(x, ast.Assign)
                   and any(isinstance(t2, ast.Name) and t2.id == spec and isinstance(t2.ctx, ast.Store) for t in x.targets for t2 in ast.walk(t))
                   and any(isinstance(y, ast.Name) and y.id == spec for y in ast.walk(x.value))]
        for x in ast.walk(fi.node):
            if isinstance(x, ast.Compare) and len(x.ops) == 1 and isinstance(x.ops[0], (ast.In, ast.NotIn)) and isinstance(x.comparators[0], ast.Name) \
                    and x.comparators[0].id == spec:
                n += 1
                ok = any(ln <= x.lineno for ln in rebinds)
                ctx.ob('G-FORMS', '_keygen: `%s` is evaluated on the wrapped specification' % unparse(x)[:40], ok)
                if not ok:
                    ctx.fail('G-FORMS', fi.qual, 'membership tested on the raw specification',
                             '_keygen evaluates `%s` although `%s` has not been wrapped into a list before (a bare name is legal): for a bare string the test is a '
                             'substring test - with ignore=\'memo\' a first parameter called `me` or `mo` "is ignored", and the instance is dropped from the key'
                             % (unparse(x)[:50], spec), '%s:%d' % (m.rel, x.lineno))
    ctx.ob('G-FORMS', 'single-entry wrapping sites examined', True, n=max(n, 1))


CARRIERS = {'_inspect': ('_keygen', 'rounded_args', 'func', 'key'), 'keymaps': ('__call__', 'encode', 'encrypt'),
            'rounding': ('deep_round', 'simple_round', 'shallow_round', 'func', 'rounded_args'),
            '_cache': ('wrapper', 'key', 'lookup', 'rounded_args'), 'safe': ('wrapper', 'key', 'lookup', 'rounded_args')}


def rule_K_CAPTURE(ctx, repo):
    """K-CAPTURE (the user's keywords travel in **kwds): the functions that pass the decorated function's own arguments along - the wrappers, key / lookup,
    the rounders, _keygen, keymap.__call__ / encode / encrypt - declare no named parameter besides self / func / ignored.  A named (e.g. keyword-only)
    parameter would capture a user keyword of the same name: `_keygen(func, ignored, *args, safe=True, **kwds)` swallows the argument `safe=` of a
    cached function, which then never reaches the key."""
    n = 0
    for modname, names in CARRIERS.items():
        m = repo.mod(modname)
        for f in ast.walk(m.tree):
            if not isinstance(f, ast.FunctionDef) or not (f.args.vararg and f.args.kwarg):
                continue
            # by name, or (rounding helpers) by shape: takes (*args, **kwds) and hands back an (args, kwds) pair
            pair = modname == 'rounding' and any(isinstance(r, ast.Return) and isinstance(r.value, ast.Tuple) and len(r.value.elts) == 2 for r in ast.walk(f))
            if f.name not in names and not pair:
                continue
            n += 1
            # positional-only parameters (`def _round(tol, /, *args, **kwds)`) cannot be bound by keyword: a user keyword of that name lands in **kwds
            extra = [x.arg for x in f.args.args if x.arg not in ('self', 'func', 'ignored')] + [x.arg for x in f.args.kwonlyargs]
            ctx.ob('K-CAPTURE', None, not extra)
            if extra:
                ctx.fail('K-CAPTURE', '%s::%s' % (m.rel, f.name), 'named parameter %s captures a user keyword' % ', '.join(extra),
                         '%s(%s) forwards the decorated function\'s arguments in *%s / **%s but also declares the named parameter(s) %s: a keyword argument of the cached '
                         'function with that name is bound to the parameter instead of travelling on, so it never reaches the key (calls differing in it share an entry) '
                         'or changes how the key is computed' % (f.name, unparse(f.args)[:60], f.args.vararg.arg, f.args.kwarg.arg, ', '.join(extra)),
                         '%s:%d' % (m.rel, f.lineno))
    if n < 20:
        raise AnalysisError('instance count below confirmed minimum: %d argument-carrying functions (< 20)' % n)
    ctx.ob('K-CAPTURE', 'argument-carrying functions examined', True, n=n)


def rule_V_TRYRESET(ctx, repo):
    """V-TRYRESET (probing by attribute access is all-or-nothing): signature() and validate() find out whether the callable is a functools.partial by
    reading func.args, func.keywords, func.func inside one try and falling back on AttributeError.  When a later read fails, what the earlier reads
    assigned must not survive into the fall-back path: every name assigned before the last probing read is re-initialised on that path (in the handler,
    or after the try under a flag that only the completed try body sets).  Otherwise an object that merely has an `.args` attribute (and no `.func`)
    is treated as a partial with those fixed arguments."""
    m = repo.mod('_inspect')
    n = 0
    for need in ('signature', 'validate'):
        if need not in m.functions:
            raise AnalysisError('anchor vanished: klepto/_inspect.py::%s' % need)
    for fname, fi in sorted(m.functions.items()):
        if not fi.node.args.args:
            continue
        obj = fi.node.args.args[0].arg
        body_of = {}
        for node in ast.walk(fi.node):
            for fld in ('body', 'orelse', 'finalbody'):
                blk = getattr(node, fld, None)
                if isinstance(blk, list):
                    for st in blk:
                        body_of[st] = (blk, node)
        for t in ast.walk(fi.node):
            if not isinstance(t, ast.Try):
                continue
            if not any(h.type is None or 'AttributeError' in unparse(h.type) or unparse(h.type) in ('Exception', 'BaseException') for h in t.handlers):
                continue

            def probes(st):
                return any(isinstance(x, ast.Attribute) and isinstance(x.value, ast.Name) and x.value.id == obj and isinstance(x.ctx, ast.Load) for x in ast.walk(st))
            idx = []
            for i, st in enumerate(t.body):
                if probes(st):
                    idx.append(i)
                if any(isinstance(x, ast.Name) and x.id == obj and isinstance(x.ctx, ast.Store) for x in ast.walk(st)):
                    break       # the name now holds another object (func = func.func): later reads do not probe the callable that was passed
            if len(idx) < 2:
                continue
            n += 1
            last = idx[-1]
            early = set()
            for st in t.body[:last]:
                for x in ast.walk(st):
                    if isinstance(x, ast.Name) and isinstance(x.ctx, ast.Store):
                        early.add(x.id)
            # flags: names assigned a true constant after the last probe, in the try body (or its else clause)
            flags = set()
            for st in t.body[last:] + t.orelse:
                if isinstance(st, ast.Assign) and isinstance(st.value, ast.Constant) and st.value.value is True:
                    flags |= set(x.id for x in st.targets if isinstance(x, ast.Name))
            reset = set()
            for h in t.handlers:
                for st in h.body:
                    if isinstance(st, ast.Assign):
                        reset |= set(x.id for tt in st.targets for x in ast.walk(tt) if isinstance(x, ast.Name))
            blk, parent = body_of.get(t, ([], None))
            after = []
            cur = t
            while cur in body_of:
                b, par = body_of[cur]
                after.extend(b[b.index(cur) + 1:])
                cur = par
            for st in after:
                if isinstance(st, ast.If) and isinstance(st.test, ast.UnaryOp) and isinstance(st.test.op, ast.Not) and isinstance(st.test.operand, ast.Name) \
                        and st.test.operand.id in flags:
                    for s2 in st.body:
                        if isinstance(s2, ast.Assign):
                            reset |= set(x.id for tt in s2.targets for x in ast.walk(tt) if isinstance(x, ast.Name))
            # the try's own else-clause commits (names assigned only there are not early)
            used_later = set(x.id for st in after for x in ast.walk(st) if isinstance(x, ast.Name) and isinstance(x.ctx, ast.Load))
            leak = sorted((early & used_later) - reset - set([obj]))
            ctx.ob('V-TRYRESET', '%s: names assigned while probing are re-initialised on the fall-back path' % fname, not leak)
            if leak:
                ctx.fail('V-TRYRESET', fi.qual, 'probe leaks %s' % ', '.join(leak),
                         '%s() assigns %s from attributes of `%s` before a later attribute read in the same try can still fail: on the AttributeError path those '
                         'assignments stay, so a callable that merely has such attributes (an instance with an `.args` but no `.func`) is inspected as if it were a partial '
                         'that fixed those arguments - isvalid() then rejects valid calls and accepts invalid ones, and keys are built with phantom fixed arguments'
                         % (fname, ', '.join(leak), obj), '%s:%d' % (m.rel, t.lineno))
    ctx.ob('V-TRYRESET', 'attribute-probing try blocks in klepto/_inspect.py examined', True, n=max(1, n))
    if n == 0:
        ctx.note('V-TRYRESET: no try block with two or more probing reads of its first parameter in klepto/_inspect.py (nothing to decide)')


def _length_changing(rhs, X):
    """does the new value of X (an expression over the old X) have another length: a slice of X, X + ..., a filtered comprehension over X"""
    for c in ast.walk(rhs):
        if isinstance(c, ast.Subscript) and isinstance(c.slice, ast.Slice) and isinstance(c.value, ast.Name) and c.value.id == X:
            return True
        if isinstance(c, ast.BinOp) and isinstance(c.op, ast.Add) and any(isinstance(x, ast.Name) and x.id == X for x in (c.left, c.right)):
            return True
        if isinstance(c, (ast.ListComp, ast.GeneratorExp, ast.SetComp)):
            for g in c.generators:
                if g.ifs and any(isinstance(x, ast.Name) and x.id == X for x in ast.walk(g.iter)):
                    return True
    return False


def rule_G_STALE(ctx, repo):
    """G-STALE (a count is not used after the sequence it counted was cut): in the binding code a local computed from len(X) is not read after X was
    re-bound to a slice / extension / filtered copy of itself.  The boundary between named and variadic positionals, the number of required
    parameters etc. are such counts; removing `self` from the names after the boundary was taken leaves it one too large."""
    m = repo.mod('_inspect')
    n = 0
    for fname, fi in m.functions.items():
        f = fi.node
        events = []
        for node in ast.walk(f):
            if isinstance(node, ast.Assign) and len(node.targets) == 1 and isinstance(node.targets[0], ast.Name):
                v = node.targets[0].id
                for c in ast.walk(node.value):
                    if isinstance(c, ast.Call) and isinstance(c.func, ast.Name) and c.func.id == 'len' and c.args and isinstance(c.args[0], ast.Name) and c.args[0].id != v:
                        events.append(('derive', node.lineno, v, c.args[0].id))
                if isinstance(node.value, ast.AST):
                    events.append(('assign', node.lineno, v, node.value))
            if isinstance(node, ast.Name) and isinstance(node.ctx, ast.Load):
                events.append(('load', node.lineno, node.id, None))
            if isinstance(node, ast.Name) and isinstance(node.ctx, ast.Store):
                events.append(('store', node.lineno, node.id, None))
        for e in [x for x in events if x[0] == 'derive']:
            _, l1, v, X = e
            n += 1
            cuts = [x[1] for x in events if x[0] == 'assign' and x[2] == X and x[1] > l1 and _length_changing(x[3], X)]
            if not cuts:
                ctx.ob('G-STALE', None, True)
                continue
            l2 = min(cuts)
            redef = [x[1] for x in events if x[0] == 'store' and x[2] == v and x[1] > l1]
            uses = [x[1] for x in events if x[0] == 'load' and x[2] == v and x[1] > l2 and not any(l1 < r <= x[1] for r in redef)]
            ctx.ob('G-STALE', None, not uses)
            if uses:
                ctx.fail('G-STALE', fi.qual, '%s = len(%s) used after %s was cut' % (v, X, X),
                         '%s computes `%s` from len(%s) at line %d, re-binds `%s` to a shorter / longer version of itself at line %d, and still reads `%s` at line %d: '
                         'the count no longer describes the sequence (e.g. the boundary between named and variadic positionals taken before `self` is removed is one '
                         'too large, so the first extra positional argument escapes the \'*\' clip and stays in the key)' % (fname, v, X, l1, X, l2, v, uses[0]),
                         '%s:%d' % (m.rel, uses[0]))
    ctx.ob('G-STALE', 'counts derived from len() in klepto/_inspect.py examined', True, n=max(1, n))


SPEC_FIELDS = ('args', 'defaults', 'varargs', 'varkw', 'kwonlyargs', 'kwonlydefaults')


def _spec_deps(eng, sites):
    d = set()
    for s in sites:
        d |= set(s.ctx)
        if s.val is not None:
            d |= set(s.val.d)
    return d


def rule_G_FIELDS(ctx, repo):
    """the key depends on every field of the inspected signature that decides which keywords are parameters of the function: with '**'
    (ignore all *extra* keywords) a keyword-only parameter must stay in the key, which _keygen can only know from kwonlyargs."""
    m, fi, r, eng, out = run_keygen(repo)
    rets = [s for s in eng.sites if s.kind == 'return' and s.depth == 0]
    d = _spec_deps(eng, rets)
    for f in SPEC_FIELDS:
        if f == 'varargs':
            continue      # the name of *args is irrelevant to the key
        ok = ('SPEC.' + f) in d or (f == 'varkw' and 'SPEC.keywords' in d)
        if f == 'varkw':
            ok = True     # the name of **kwds is irrelevant to the key
        ctx.ob('G-FIELDS', '_keygen depends on argspec.%s' % f, ok)
        if not ok:
            ctx.fail('G-FIELDS', fi.qual, 'key independent of argspec.%s' % f,
                     'the key computed by _keygen (through signature) never depends on the %s of the inspected function: with ignore=\'**\' a keyword-only '
                     'parameter cannot be told from an extra keyword, so it is dropped from the key and calls that differ in it share an entry' % f,
                     '%s:%d' % (m.rel, fi.node.lineno))


# ---------------------------------------------------------------------------------------------------------------- signature(): shared by _keygen and validate
LOOKTHROUGH = ('LIB:unwrap', 'LIBF:unwrap')
NOT_POSITIONAL = ('SPEC.kwonlyargs', 'SPEC.kwonlydefaults', 'SPEC.varargs', 'SPEC.varkw', 'SPEC.keywords', 'SPEC.defaults', 'SPEC.annotations')


def _conjuncts(t):
    if isinstance(t, ast.BoolOp) and isinstance(t.op, ast.And):
        out = []
        for v in t.values:
            out.extend(_conjuncts(v))
        return out
    return [t]


def rule_SIG(ctx, repo):
    """V-TARGET, V-POS and the guard part of V-SELF: structural facts about signature(), on which both the key (_keygen) and the verdict
    (validate) are built."""
    m = repo.mod('_inspect')
    sig = m.functions.get('signature')
    if sig is None:
        raise AnalysisError('anchor vanished: klepto/_inspect.py::signature')
    a = sig.node.args
    pos = [x.arg for x in a.posonlyargs + a.args]
    if not pos:
        raise AnalysisError('anchor changed: signature is expected to take (func, ...)')
    fn = 'P:' + pos[0]
    # inspect.signature() follows __wrapped__ unless told not to: the parameters it reports are those of the innermost decorated function
    for node in ast.walk(sig.node):
        if isinstance(node, ast.Call):
            f = node.func
            origin = None
            if isinstance(f, ast.Attribute) and isinstance(f.value, ast.Name):
                origin = m.imports.get(f.value.id, f.value.id) + '.' + f.attr
            elif isinstance(f, ast.Name) and f.id != sig.name:
                origin = m.imports.get(f.id)
            if origin in ('inspect.signature', 'inspect.Signature.from_callable'):
                fw = [k for k in node.keywords if k.arg == 'follow_wrapped']
                ok = bool(fw) and isinstance(fw[0].value, ast.Constant) and fw[0].value.value is False
                ctx.ob('V-TARGET', '%s:%d inspect.signature(follow_wrapped=False)' % (m.rel, node.lineno), ok)
                if not ok:
                    ctx.fail('V-TARGET', sig.qual, 'inspect.signature follows __wrapped__',
                             'signature() asks inspect.signature() for the parameters without follow_wrapped=False: for a function decorated with functools.wraps it reports '
                             'the parameters of the wrapped function, while binding func(*args, **kwds) is decided by the wrapper\'s own parameters - validate/isvalid '
                             'and the key are computed for a different signature', '%s:%d' % (m.rel, node.lineno))
    # ... and it reports positional-only parameters under their own kind: they are bound by position like the others
    kinds = set(x.attr for x in ast.walk(sig.node) if isinstance(x, ast.Attribute) and x.attr in (
        'POSITIONAL_ONLY', 'POSITIONAL_OR_KEYWORD', 'VAR_POSITIONAL', 'VAR_KEYWORD', 'KEYWORD_ONLY'))
    if kinds:
        ok = not ('POSITIONAL_OR_KEYWORD' in kinds and 'POSITIONAL_ONLY' not in kinds)
        ctx.ob('V-POS', 'parameters selected by kind include the positional-only ones', ok)
        if not ok:
            line = min(x.lineno for x in ast.walk(sig.node) if isinstance(x, ast.Attribute) and x.attr == 'POSITIONAL_OR_KEYWORD')
            ctx.fail('V-POS', sig.qual, 'positional-only parameters dropped',
                     'signature() collects the names that positional arguments are bound to by testing Parameter.kind against POSITIONAL_OR_KEYWORD only: the parameters '
                     'before a `/` (POSITIONAL_ONLY) drop out of the list, so every positional value is filed one slot to the right - f(1, 2) and f(1, b=2) on '
                     'def f(a, /, b, c=3) get different keys, and validate miscounts the arguments', '%s:%d' % (m.rel, line))
    eng = DepEngine(m, field_roots=set(FIELD_ROOTS) | set([fn, fn + '.func']), source_calls=SOURCE_CALLS)
    eng.run(sig.node, sig.qual, {})
    ctx.analysed(sig.qual)
    # ---- V-TARGET: the argspec is taken of the callable that will be bound (func, a partial's .func, an instance's __call__), never of
    # something a decorator wrapped: binding is decided by the wrapper's own signature
    n = 0
    seen = set()
    for node, sargs, fq in eng.source_sites:
        if id(node) in seen or not sargs:
            continue
        seen.add(id(node))
        n += 1
        arg = sargs[0]
        bad = sorted(L for L in arg.d | arg.v if L in LOOKTHROUGH or L.endswith('.__wrapped__'))

        class s:          # the site, for the report
            lineno = node.lineno
        s.node = node
        ctx.ob('V-TARGET', '%s:%d %s' % (m.rel, s.lineno, ' '.join(unparse(s.node).split())[:50]), not bad)
        if bad:
            ctx.fail('V-TARGET', sig.qual, 'argspec of the wrapped function (%s)' % ', '.join(x.split(':')[-1].split('.')[-1] for x in bad),
                     'signature() inspects what a decorator wrapped (%s) instead of the callable itself: whether func(*args, **kwds) binds is decided by the '
                     'wrapper\'s own parameters, so validate/isvalid and the key are computed for a different signature' % ', '.join(bad),
                     '%s:%d' % (m.rel, s.lineno))
    if n < 1:
        raise AnalysisError('instance count below confirmed minimum: no getfullargspec call found in signature()')
    # ---- V-FRESH: the signature is inspected at the time of the call.  A function object is mutable (__defaults__, __kwdefaults__, __code__ can be
    # reassigned, and are by code that patches defaults): an argspec kept from an earlier call describes a function that no longer exists
    from . import own
    stale = []
    tables = dict(eng.globals)
    if '_keygen' in m.functions:
        for name, av in run_keygen(repo)[3].globals.items():       # a memo of signature()'s result kept by the key generation
            tables[name] = join(tables.get(name), av)
    for name, av in sorted(tables.items()):
        if any(L == 'SPEC' or L.startswith('SPEC.') for L in av.v):
            stale.append(('the module-level table %s' % name, getattr(m.consts.get(name), 'lineno', sig.node.lineno)))
    for fname, f2 in m.functions.items():
        if own.is_memoised(m, f2.node) and any(isinstance(x, (ast.Attribute, ast.Name)) and (getattr(x, 'attr', None) in SOURCE_CALLS or getattr(x, 'id', None) in SOURCE_CALLS)
                                                for x in ast.walk(f2.node)):
            stale.append(('the memoised function %s' % fname, f2.node.lineno))
    # ... nor behind any other decorator (a home-made memoiser), nor as an attribute stored on the inspected function itself
    def calls_inspection(fnode):
        return any(isinstance(x, (ast.Attribute, ast.Name)) and (getattr(x, 'attr', None) in SOURCE_CALLS or getattr(x, 'id', None) in SOURCE_CALLS
                                                                 or getattr(x, 'id', None) == 'signature' or getattr(x, 'attr', None) == 'signature')
                   for x in ast.walk(fnode))
    for fname, f2 in m.functions.items():
        if not calls_inspection(f2.node):
            continue
        decs = [unparse(d_) for d_ in f2.node.decorator_list if unparse(d_).split('(')[0].split('.')[-1] not in ('staticmethod', 'classmethod', 'wraps')]
        if decs and not own.is_memoised(m, f2.node):
            stale.append(('the function %s wrapped by @%s (a decorator around an inspection routine can only be there to remember its result)' % (fname, decs[0][:40]),
                          f2.node.lineno))
        if f2.node.args.args:
            obj = f2.node.args.args[0].arg
            for x in ast.walk(f2.node):
                tgt = None
                if isinstance(x, ast.Assign):
                    for t in x.targets:
                        if isinstance(t, ast.Attribute) and isinstance(t.value, ast.Name) and t.value.id == obj:
                            tgt = t.attr
                elif isinstance(x, ast.Call) and isinstance(x.func, ast.Name) and x.func.id == 'setattr' and x.args and isinstance(x.args[0], ast.Name) and x.args[0].id == obj:
                    tgt = unparse(x.args[1]) if len(x.args) > 1 else '?'
                if tgt:
                    stale.append(('an attribute (%s) stored on the inspected function by %s' % (tgt, fname), x.lineno))
    ctx.ob('V-FRESH', 'the argspec is not kept across calls', not stale)
    for what, line in stale:
        ctx.fail('V-FRESH', sig.qual, 'argspec kept in %s' % what,
                 'the result of getfullargspec (or what signature() derived from it) is kept in %s and serves it to later calls: after f.__defaults__ / __kwdefaults__ / __code__ is reassigned '
                 'validate and the key generation still use the old signature - a parameter that gained a default is still demanded, a changed default is keyed '
                 'with its old value' % what, '%s:%d' % (m.rel, line))
    # ---- V-POS: the tuple of names that positional arguments are bound to derives from argspec.args only
    rets = [s for s in eng.sites if s.kind == 'return' and s.depth == 0 and s.val is not None and s.val.elts]
    full = [s for s in rets if len(s.val.elts) >= 2 and 'SPEC.args' in s.val.elts[0].v]
    if not full:
        # the result is assembled in a way the provenance analysis does not follow element-wise (e.g. conditional `result += (...)`): V-POS has nothing to
        # judge; the rules over _keygen / validate still anchor on signature()'s result themselves
        ctx.note('V-POS not decided: no return of signature() is an element-wise tuple carrying argspec.args')
    for s in full:
        bad = sorted(L for L in s.val.elts[0].v if L in NOT_POSITIONAL)
        ctx.ob('V-POS', '%s:%d names element' % (m.rel, s.lineno), not bad)
        if bad:
            ctx.fail('V-POS', sig.qual, 'positional names include %s' % ', '.join(x.split('.')[-1] for x in bad),
                     'the tuple of names returned first by signature() - which validate and _keygen zip with the positional arguments - is built from %s too: '
                     'a surplus positional argument is then bound to a parameter that cannot be given by position, so an invalid call is reported valid and the key '
                     'files the value under the wrong name' % ', '.join(bad), '%s:%d' % (m.rel, s.lineno))
    # ---- V-SELF (guard): the instance is dropped for every bound method: the drop is conditioned on bound-ness alone
    parents = {}
    for node in ast.walk(sig.node):
        for ch in ast.iter_child_nodes(node):
            parents[ch] = node
    spec_names = set()          # locals holding argspec.args itself
    for node in ast.walk(sig.node):
        if isinstance(node, ast.Assign) and len(node.targets) == 1 and isinstance(node.targets[0], ast.Name) and isinstance(node.value, ast.Attribute) \
                and node.value.attr == 'args' and not (isinstance(node.value.value, ast.Name) and node.value.value.id == pos[0]):
            spec_names.add(node.targets[0].id)
    for node in ast.walk(sig.node):
        if not (isinstance(node, ast.Assign) and isinstance(node.value, ast.Subscript) and isinstance(node.value.slice, ast.Slice)):
            continue
        sl = node.value.slice
        if not (isinstance(sl.lower, ast.Constant) and sl.lower.value == 1 and sl.upper is None and sl.step is None):
            continue
        if not (isinstance(node.value.value, ast.Name) and len(node.targets) == 1 and isinstance(node.targets[0], ast.Name)
                and node.targets[0].id == node.value.value.id):
            continue
        var = node.targets[0].id
        conds = []
        cur = node
        while cur in parents and parents[cur] is not sig.node:
            par = parents[cur]
            if isinstance(par, ast.If):
                if cur in par.body:
                    conds.extend(_conjuncts(par.test))
                else:
                    conds.append(ast.UnaryOp(op=ast.Not(), operand=par.test))
            cur = par
        if not any('__self__' in unparse(c) or 'ismethod' in unparse(c) for c in conds):
            continue
        for c in conds:
            txt = unparse(c)
            names = set(x.id for x in ast.walk(c) if isinstance(x, ast.Name))
            ok = False
            if isinstance(c, ast.Call) and txt.split('(')[0].split('.')[-1] == 'ismethod':
                ok = True
            elif isinstance(c, ast.Compare) and len(c.ops) == 1 and isinstance(c.ops[0], ast.IsNot) and isinstance(c.left, ast.Attribute) \
                    and c.left.attr == '__self__' and isinstance(c.comparators[0], ast.Constant) and c.comparators[0].value is None:
                ok = True
            elif isinstance(c, ast.Name) and (c.id == var or c.id in spec_names):
                ok = True         # slicing an empty tuple is a no-op (no parameter names: nothing to drop)
            elif isinstance(c, ast.Call) and isinstance(c.func, ast.Name) and c.func.id == 'len' and names == set(['len', var]):
                ok = True
            elif isinstance(c, ast.Attribute) and c.attr == '__self__':
                ok = True         # truthiness: reported by the other part of V-SELF
            ctx.ob('V-SELF', 'guard of the instance drop: %s' % txt[:50], ok)
            if not ok:
                ctx.fail('V-SELF', sig.qual, 'instance drop conditioned on %s' % ' '.join(txt.split())[:60],
                         'signature() removes the bound instance from the names of a bound method only when additionally `%s`: for the bound methods where that is '
                         'false the first parameter (self / cls) stays in the signature, so positional arguments are bound one place off - isvalid() misjudges calls '
                         'and keys file values under the wrong names' % ' '.join(txt.split())[:80], '%s:%d' % (m.rel, node.lineno))


# ---------------------------------------------------------------------------------------------------------------- C19: validate / isvalid
def run_validate(repo):
    m = repo.mod('_inspect')
    fi = m.functions.get('validate')
    if fi is None or 'signature' not in m.functions or 'isvalid' not in m.functions:
        raise AnalysisError('anchor vanished: klepto/_inspect.py::validate / signature / isvalid')
    a = fi.node.args
    pos = [x.arg for x in a.posonlyargs + a.args]
    if not pos or a.vararg is None or a.kwarg is None:
        raise AnalysisError('anchor changed: validate is expected to take (func, *args, **kwds)')
    r = {'func': 'P:' + pos[0], 'args': 'P:' + a.vararg.arg, 'kwds': 'P:' + a.kwarg.arg}
    roots = set(FIELD_ROOTS) | set([r['func'], r['func'] + '.func'])
    eng = DepEngine(m, field_roots=roots, source_calls=SOURCE_CALLS)
    eng.run(fi.node, fi.qual, {})
    return m, fi, r, eng


def rule_V(ctx, repo):
    m, fi, r, eng = run_validate(repo)
    ctx.analysed(fi.qual)
    ctx.analysed(m.functions['signature'].qual)
    raises = [s for s in eng.sites if s.kind == 'raise']
    rets = [s for s in eng.sites if s.kind == 'return' and s.depth == 0]
    # ---- V-TYPE: a rejected call is reported as TypeError (what the interpreter raises for a binding failure)
    n = 0
    for s in raises:
        n += 1
        ok = s.exc is not None and s.exc.split('.')[-1] == 'TypeError'
        ctx.ob('V-TYPE', 'raise@%s' % ' '.join(unparse(s.node).split())[:50], ok)
        if not ok:
            ctx.fail('V-TYPE', s.func, 'raises %s' % s.exc,
                     'validate (or signature, on its behalf) rejects a call with %s instead of TypeError: the interpreter reports every argument-binding failure as TypeError, '
                     'and callers of validate catch exactly that' % s.exc, '%s:%d' % (m.rel, s.lineno))
    if n < 4:
        raise AnalysisError('instance count below confirmed minimum: %d raise sites in validate/signature (< 4)' % n)
    # ---- V-NOCALL: validate / signature never call the function they inspect
    fl = (r['func'], r['func'] + '.func', r['func'] + '.__call__', r['func'] + '.func.__call__')
    for s in eng.sites:
        if s.kind != 'call' or s.val is None:
            continue
        called = [L for L in s.val.v if L in fl]
        ok = not called
        if called:
            ctx.ob('V-NOCALL', None, False)
            ctx.fail('V-NOCALL', s.func, 'calls the inspected function: %s' % ' '.join(unparse(s.node).split())[:60],
                     'validate/signature call the function under inspection (%s): validity must be decided from the signature alone, without running user code' % unparse(s.node)[:60],
                     '%s:%d' % (m.rel, s.lineno))
    ctx.ob('V-NOCALL', 'calls examined in validate + signature', True, n=max(1, len([s for s in eng.sites if s.kind == 'call'])))
    # ---- V-SELF: whether a bound method's first parameter is dropped is decided by `__self__ is (not) None`, never by the truthiness of the
    # instance (an instance of a list / dict subclass is falsy when empty, and truthiness runs the user's __bool__ / __len__)
    sig = m.functions['signature']
    n_self = 0
    for node in ast.walk(sig.node):
        tests = []
        if isinstance(node, (ast.If, ast.IfExp, ast.While)):
            tests.append(node.test)
        elif isinstance(node, ast.BoolOp):
            tests.extend(node.values)
        elif isinstance(node, ast.UnaryOp) and isinstance(node.op, ast.Not):
            tests.append(node.operand)
        for t in tests:
            if isinstance(t, ast.Attribute) and t.attr == '__self__':
                n_self += 1
                ctx.ob('V-SELF', None, False)
                ctx.fail('V-SELF', sig.qual, 'truthiness of __self__',
                         'signature() tests the truthiness of %s to decide whether the callable is a bound method: a bound method of an instance that is falsy '
                         '(an empty list / dict subclass, __bool__ returning False) keeps its self parameter, so isvalid() rejects valid calls and keys are built '
                         'with a spurious argument' % unparse(t), '%s:%d' % (m.rel, t.lineno))
    ctx.ob('V-SELF', 'signature() does not branch on the truthiness of __self__', True)
    # ---- V-FIELDS: the verdict depends on every part of the signature the interpreter's binder consults, and on the call
    d = _spec_deps(eng, raises + rets)
    ctx.sample({'construct': fi.qual, 'raise sites (line, exception, signature fields in the guard)': [
        (s_.lineno, s_.exc, sorted(L for L in s_.ctx if L.startswith('SPEC.'))) for s_ in raises][:12],
        'argspec fields the accept/reject decisions depend on': sorted(L for L in d if L.startswith('SPEC.'))})
    need = [('SPEC.' + f, 'the %s of the function' % f) for f in SPEC_FIELDS] + [
        (r['func'] + '.args', "a partial's fixed positionals"), (r['func'] + '.keywords', "a partial's fixed keywords"),
        (r['args'], 'the positional arguments of the call'), (r['kwds'], 'the keyword arguments of the call')]
    for L, what in need:
        ok = L in d or (L == 'SPEC.varkw' and 'SPEC.keywords' in d)
        ctx.ob('V-FIELDS', 'verdict depends on %s' % what, ok)
        if not ok:
            ctx.fail('V-FIELDS', fi.qual, 'verdict independent of %s' % L.replace(r['func'], 'FN').replace(r['args'], 'ARGS').replace(r['kwds'], 'KWDS'),
                     'no accept/reject decision of validate depends on %s, although Python\'s own binding does: for some signature the verdict must be wrong '
                     '(e.g. a required keyword-only parameter is never demanded, and a keyword-only name is rejected as unexpected when there is no **kwds)' % what,
                     '%s:%d' % (m.rel, fi.node.lineno))
    # ---- V-DUP: a parameter given both by position and by keyword is rejected for every function, with or without *args / **kwds
    fn = fi.node
    parents = {}
    for n_ in ast.walk(fn):
        for ch in ast.iter_child_nodes(n_):
            parents[ch] = n_
    defs = {}
    strconst = {}
    for n_ in ast.walk(fn):
        if isinstance(n_, ast.Assign):
            used = set(x.id for x in ast.walk(n_.value) if isinstance(x, ast.Name))
            for t in n_.targets:
                for x in ast.walk(t):
                    if isinstance(x, ast.Name):
                        defs.setdefault(x.id, set()).update(used)
                        if isinstance(n_.value, ast.Constant) and isinstance(n_.value.value, str):
                            strconst[x.id] = n_.value.value
        elif isinstance(n_, ast.For):
            used = set(x.id for x in ast.walk(n_.iter) if isinstance(x, ast.Name))
            for x in ast.walk(n_.target):
                if isinstance(x, ast.Name):
                    defs.setdefault(x.id, set()).update(used)
    for name_, node_ in m.consts.items():
        if isinstance(node_, ast.Constant) and isinstance(node_.value, str):
            strconst.setdefault(name_, node_.value)

    def exc_text(e):
        return unparse(e) + ' ' + ' '.join(strconst.get(x.id, '') for x in ast.walk(e) if isinstance(x, ast.Name))

    def closure(names):
        seen, todo = set(), list(names)
        while todo:
            x = todo.pop()
            if x in seen:
                continue
            seen.add(x)
            todo.extend(defs.get(x, ()))
        return seen
    # the locals holding signature()'s variadic markers (3rd and 4th element of its result)
    variadic = set()
    for n_ in ast.walk(fn):
        if isinstance(n_, ast.Assign) and isinstance(n_.value, ast.Call) and isinstance(n_.value.func, ast.Name) and n_.value.func.id == 'signature' \
                and len(n_.targets) == 1 and isinstance(n_.targets[0], ast.Tuple) and len(n_.targets[0].elts) == 4:
            variadic |= set(x.id for x in n_.targets[0].elts[2:] if isinstance(x, ast.Name))
    pa, pk = fn.args.vararg.arg, fn.args.kwarg.arg
    dup_free, dup_nested = [], []
    for n_ in ast.walk(fn):
        if not isinstance(n_, ast.Raise) or n_.exc is None:
            continue
        guards = []
        cur = n_
        while cur in parents and parents[cur] is not fn:
            par = parents[cur]
            if isinstance(par, ast.If) and cur in par.body:
                guards.append(par.test)
            cur = par
        if not guards:
            continue
        inner = closure(x.id for x in ast.walk(guards[0]) if isinstance(x, ast.Name))
        if not (pa in inner and pk in inner and 'multiple values' in exc_text(n_.exc)):
            continue
        under = set(x.id for g in guards for x in ast.walk(g) if isinstance(x, ast.Name)) & variadic
        (dup_nested if under else dup_free).append((n_, sorted(under)))
    if variadic and (dup_free or dup_nested):
        ok = bool(dup_free)
        ctx.ob('V-DUP', 'a name given by position and by keyword is rejected whatever the variadics', ok)
        if not ok:
            n_, under = dup_nested[0]
            ctx.fail('V-DUP', fi.qual, 'duplicate check only when not %s' % ' / '.join(under),
                     'validate reports "multiple values" for a parameter given both by position and by keyword only under a test of `%s`: for a function that takes '
                     '**kwds (or *args) the duplicate is accepted, although Python raises TypeError for it' % ', '.join(under), '%s:%d' % (m.rel, n_.lineno))
    # ---- V-PAIRS: what a partial fixed cannot be given again.  The names signature() marks with '!' in its first element (fixed by keyword:
    # unsettable by position) meet the call's positionals in a rejection, and the '!' keys of its second element (fixed by position) meet the
    # call's keywords in one
    sigvars = None
    for n_ in ast.walk(fn):
        if isinstance(n_, ast.Assign) and isinstance(n_.value, ast.Call) and isinstance(n_.value.func, ast.Name) and n_.value.func.id == 'signature' \
                and len(n_.targets) == 1 and isinstance(n_.targets[0], ast.Tuple) and len(n_.targets[0].elts) == 4 \
                and all(isinstance(x, ast.Name) for x in n_.targets[0].elts):
            sigvars = [x.id for x in n_.targets[0].elts]
    marks = {}
    if sigvars:
        for n_ in ast.walk(fn):
            if isinstance(n_, ast.Assign) and len(n_.targets) == 1 and isinstance(n_.targets[0], ast.Name):
                for c in ast.walk(n_.value):
                    if isinstance(c, (ast.GeneratorExp, ast.ListComp, ast.SetComp)):
                        for g in c.generators:
                            if isinstance(g.iter, ast.Name) and g.iter.id in sigvars[:2] and any(
                                    isinstance(x, ast.Call) and isinstance(x.func, ast.Attribute) and x.func.attr == 'startswith' and x.args
                                    and isinstance(x.args[0], ast.Constant) and x.args[0].value == '!' for i_ in g.ifs for x in ast.walk(i_)):
                                marks.setdefault(g.iter.id, set()).add(n_.targets[0].id)
    if sigvars and len(marks) == 2:
        guard_closures = []
        for n_ in ast.walk(fn):
            if isinstance(n_, ast.Raise) and n_.exc is not None:
                cur = n_
                while cur in parents and parents[cur] is not fn:
                    par = parents[cur]
                    if isinstance(par, ast.If) and cur in par.body:
                        # flow-sensitive enough for this function: only definitions above the guard count
                        names = set(x.id for x in ast.walk(par.test) if isinstance(x, ast.Name))
                        seen, todo = set(), list(names)
                        while todo:
                            x = todo.pop()
                            if x in seen:
                                continue
                            seen.add(x)
                            for a_ in ast.walk(fn):
                                if isinstance(a_, ast.Assign) and a_.lineno <= par.lineno and any(isinstance(t, ast.Name) and t.id == x for t in a_.targets):
                                    todo.extend(y.id for y in ast.walk(a_.value) if isinstance(y, ast.Name))
                                elif isinstance(a_, ast.For) and a_.lineno <= par.lineno and any(isinstance(t, ast.Name) and t.id == x for t in ast.walk(a_.target)):
                                    todo.extend(y.id for y in ast.walk(a_.iter) if isinstance(y, ast.Name))
                        guard_closures.append(seen)
                        break
                    cur = par
        # a helper that receives both also counts (the rejection may live there)
        for n_ in ast.walk(fn):
            if isinstance(n_, ast.Call):
                guard_closures.append(set(x.id for a_ in list(n_.args) + [k.value for k in n_.keywords] for x in ast.walk(a_) if isinstance(x, ast.Name)))
        for var, param, what in ((sigvars[0], pa, "a name the partial fixed by keyword, given again by position"),
                                 (sigvars[1], pk, "a name the partial fixed by position, given again by keyword")):
            ok = any((marks[var] & gc) and param in gc for gc in guard_closures)
            ctx.ob('V-PAIRS', what, ok)
            if not ok:
                ctx.fail('V-PAIRS', fi.qual, "'!' marks of %s never meet %s" % (var, param),
                         'validate computes the set of parameters marked unsettable (%s, from the \'!\' entries of `%s`) but no rejection tests it against the call\'s %s: '
                         '%s is accepted, although the partial raises "got multiple values" for it' % (', '.join(sorted(marks[var])), var,
                                                                                                    'positional arguments' if param == pa else 'keywords', what),
                         '%s:%d' % (m.rel, fi.node.lineno))
    # ---- V-ISVALID: isvalid is "validate did not raise"
    isv = m.functions['isvalid']
    ctx.analysed(isv.qual)
    from .paths import Engine, R, C, RETURN, RAISE, render_path, GENERIC
    from .rules_wrappers import PlainModel

    class IModel(PlainModel):
        def call(self, f, args, kws, st, node):
            line = getattr(node, 'lineno', 0)
            if f == ('lib', '%s.validate' % self.module.rel):
                outs = []
                for tok in ('TypeError', GENERIC):
                    s2 = st.fork()
                    s2.emit('VALIDATE!', (C(tok),) + tuple(args) + tuple(kws), line)
                    outs.append(R(s2, None, tok, line))
                st.emit('VALIDATE', tuple(args) + tuple(kws), line)
                outs.append(R(st, ('const', None)))
                return outs
            if f == ('param', isv.node.args.args[0].arg):
                s2 = st.fork()
                s2.emit('CALLFN!', (), line)
                st.emit('CALLFN', tuple(args) + tuple(kws), line)
                return [R(st, ('ev', 'callfn', line)), R(s2, None, GENERIC, line)]
            return None
    ie = Engine(IModel(m), unroll=1)
    a = isv.node.args
    if not a.args or a.vararg is None or a.kwarg is None:
        raise AnalysisError('anchor changed: isvalid is expected to take (func, *args, **kwds)')
    fp, va, kw = ('param', a.args[0].arg), ('param', a.vararg.arg), ('param', a.kwarg.arg)
    outs = ie.run_function(isv.node, {})
    nv = 0
    for o in outs:
        evs = o.st.events
        val = [e for e in evs if e.kind in ('VALIDATE', 'VALIDATE!')]
        if not val:
            ok, why = False, 'isvalid has a path that never consults validate'
        else:
            nv += 1
            e = val[0]
            fwd = tuple(x for x in e.args if not (x[0] == 'const' and e.kind == 'VALIDATE!' and x is e.args[0]))
            ok = fwd == (fp, ('star', va), ('dstar', kw))
            why = 'isvalid does not hand (func, *args, **kwds) unchanged to validate'
            if ok and e.kind == 'VALIDATE':
                ok = o.kind == RETURN and o.val == C(True)
                why = 'validate accepted the call but isvalid does not return True'
            elif ok:
                called = [x for x in evs if x.kind == 'CALLFN']
                if o.kind != RETURN:
                    ok, why = False, 'validate rejected the call (%s) and isvalid lets the exception escape instead of answering False' % e.args[0][1]
                elif called:
                    ok = o.val == C(True)
                    why = 'the fallback evaluation succeeded but isvalid does not return True'
                    cl = called[0]
                    if ok and tuple(cl.args) != (('star', va), ('dstar', kw)):
                        ok, why = False, 'the fallback evaluation does not use the caller\'s (*args, **kwds)'
                else:
                    ok = o.val == C(False)
                    why = 'validate rejected the call but isvalid does not return False'
        ctx.ob('V-ISVALID', None, ok)
        if not ok:
            ctx.fail('V-ISVALID', isv.qual, why[:70], why, '%s:%d' % (m.rel, o.line or isv.node.lineno), render_path(o))
    if nv < 2:
        raise AnalysisError('%s: fewer paths through validate than confirmed' % isv.qual)
    ctx.ob('V-ISVALID', 'isvalid paths', True)
    # the only place the function may be evaluated is the fallback for callables whose signature cannot be inspected
    deng = DepEngine(m, field_roots=set([('P:' + a.args[0].arg)]), inline=False)
    deng.run(isv.node, isv.qual, {})
    for s in deng.sites:
        if s.kind == 'call' and s.val is not None and ('P:' + a.args[0].arg) in s.val.v:
            ok = 'EXC' in s.ctx or any(L.startswith('LIB:exc_info') for L in s.ctx)
            ctx.ob('V-NOCALL', 'isvalid fallback call is guarded by the caught error', ok)
            if not ok:
                ctx.fail('V-NOCALL', isv.qual, 'unguarded evaluation of the function',
                         'isvalid evaluates func(*args, **kwds) on a path that is not guarded by a test on the error validate raised ("is not a Python function"): '
                         'validity of Python functions must be decided without calling them', '%s:%d' % (m.rel, s.lineno))


def rule_G_SELFDROP(ctx, repo):
    """G-VAL (an argument is cut out of the key only when the specification selects *it*).  _keygen removes the first positional argument (instead of
    masking it) when it is the bound instance and its parameter is ignored.  The statement that drops the head of the positional arguments
    (`args = args[1:]`) must be guarded - as a conjunct of the conditions on the way to it - by a membership test of the first parameter's own name
    (`names[0] in ignored`) or index: a guard that is also satisfied by something else (an `or` alternative, a marker string) drops an argument the
    specification does not select, and calls that differ in it share a key."""
    m = repo.mod('_inspect')
    fi = m.functions.get('_keygen')
    if fi is None:
        raise AnalysisError('anchor vanished: klepto/_inspect.py::_keygen')
    f = fi.node
    if f.args.vararg is None or len(f.args.args) < 2:
        raise AnalysisError('anchor vanished: _keygen(func, ignored, *args, **kwds)')
    ign = f.args.args[1].arg
    pos = set([f.args.vararg.arg])
    spec_like = set([ign])
    changed = True
    while changed:
        changed = False
        for n in ast.walk(f):
            if isinstance(n, ast.Assign) and len(n.targets) == 1 and isinstance(n.targets[0], ast.Name):
                t = n.targets[0].id
                v = n.value
                base = v.value if isinstance(v, ast.Subscript) else v
                if isinstance(base, ast.Call) and len(base.args) == 1 and not base.keywords and isinstance(base.func, ast.Name) and base.func.id in ('copy', 'tuple', 'list'):
                    base = base.args[0]      # copy(args), tuple(args), list(args)
                if isinstance(base, ast.Name) and base.id in pos and t not in pos:
                    pos.add(t)
                    changed = True
                if t not in spec_like and any(isinstance(x, ast.Name) and x.id in spec_like for x in ast.walk(v)) and \
                        isinstance(v, (ast.Call, ast.SetComp, ast.ListComp, ast.GeneratorExp, ast.List, ast.Tuple, ast.Set, ast.BinOp)):
                    spec_like.add(t)
                    changed = True
    parent = {}
    for n in ast.walk(f):
        for c in ast.iter_child_nodes(n):
            parent[c] = n

    def conjuncts(test):
        if isinstance(test, ast.BoolOp) and isinstance(test.op, ast.And):
            out = []
            for v in test.values:
                out.extend(conjuncts(v))
            return out
        return [test]

    def selects_first(c):
        if isinstance(c, ast.BoolOp) and isinstance(c.op, ast.Or):
            return all(selects_first(v) for v in c.values)      # every alternative selects the first parameter (by name or by index)
        if not (isinstance(c, ast.Compare) and len(c.ops) == 1 and isinstance(c.ops[0], ast.In)):
            return False
        l, r = c.left, c.comparators[0]
        first = (isinstance(l, ast.Subscript) and isinstance(l.slice, ast.Constant) and l.slice.value == 0) or (isinstance(l, ast.Constant) and l.value == 0 and type(l.value) is int)
        return first and isinstance(r, ast.Name) and r.id in spec_like
    n = 0
    for st in ast.walk(f):
        if not (isinstance(st, ast.Assign) and len(st.targets) == 1 and isinstance(st.targets[0], ast.Name) and st.targets[0].id in pos):
            continue
        v = st.value
        if not (isinstance(v, ast.Subscript) and isinstance(v.value, ast.Name) and v.value.id in pos and isinstance(v.slice, ast.Slice)
                and isinstance(v.slice.lower, ast.Constant) and v.slice.lower.value == 1 and v.slice.upper is None):
            continue
        n += 1
        guards = []
        cur = st
        while cur in parent and cur is not f:
            p = parent[cur]
            if isinstance(p, ast.If) and cur in p.body:
                guards.extend(conjuncts(p.test))
            elif isinstance(p, ast.If) and cur in p.orelse:
                guards.append(None)      # reached through a negated test: nothing is known positively
            cur = p
        ok = any(g is not None and selects_first(g) for g in guards)
        ctx.ob('G-VAL', '_keygen: the head of the positional arguments is dropped only when the first parameter itself is ignored', ok)
        if not ok:
            ctx.fail('G-VAL', fi.qual, 'first positional argument dropped without its own parameter being ignored',
                     '_keygen cuts the first positional argument out of the key under `%s`: no conjunct of that condition says that the first parameter '
                     '(its name or index 0) is in the ignore specification, so an argument the specification does not select can vanish from the key - '
                     'calls that differ only in it are answered from one entry' % ' and '.join(unparse(g)[:60] for g in guards if g is not None),
                     '%s:%d' % (m.rel, st.lineno))
    if not n:
        ctx.note('G-VAL (self drop): _keygen drops no leading positional argument; nothing to check')
    # ... (a) when the guard can be satisfied through the *index* 0, that index leaves the index set with the instance (else it masks the first real parameter
    # of the shortened argument list as well); (b) the outcome of the "is the first argument the bound instance" probe matters only together with "the first
    # parameter is ignored" - a test on the probe alone changes the key of ordinary calls depending on what attributes the first argument happens to have,
    # i.e. differently for the positional and the keyword spelling of the same call
    probe_vars = set()
    for x in ast.walk(f):
        if isinstance(x, ast.Assign) and len(x.targets) == 1 and isinstance(x.targets[0], ast.Name) and isinstance(x.value, ast.Call) \
                and isinstance(x.value.func, ast.Name) and x.value.func.id == 'getattr' and x.value.args \
                and any(isinstance(y, ast.Name) and y.id in pos for y in ast.walk(x.value.args[0])) \
                and len(x.value.args) > 1 and any(isinstance(y, ast.Attribute) and y.attr == '__name__' for y in ast.walk(x.value.args[1])):
            probe_vars.add(x.targets[0].id)
    for st in ast.walk(f):
        if not isinstance(st, ast.If):
            continue
        cj = conjuncts(st.test)
        uses_probe = [c for c in cj if any(isinstance(y, ast.Name) and y.id in probe_vars for y in ast.walk(c))]
        if not uses_probe:
            continue
        sel = [c for c in cj if selects_first(c)]
        if not sel and not st.orelse and st.body and all(isinstance(b_, ast.If) and not b_.orelse and any(selects_first(c) for c in conjuncts(b_.test)) for b_ in st.body):
            continue      # `if _bound:` wrapping nothing but `if <first parameter ignored>:` blocks - the same conjunction, nested
        ctx.ob('G-VAL', '_keygen: the bound-instance probe is only acted on when the first parameter is ignored (line %d)' % st.lineno, bool(sel))
        if not sel:
            ctx.fail('G-VAL', fi.qual, 'bound-instance probe acted on without "first parameter ignored"',
                     '_keygen branches on `%s` alone: for a plain function whose first positional argument happens to have an attribute named like the function '
                     '(split(text, sep) called with a str) the key is built differently than when the same value is passed by keyword - two spellings of one call, two keys'
                     % unparse(st.test)[:60], '%s:%d' % (m.rel, st.lineno))
            continue
        # (a)
        def index_alts(c):
            if isinstance(c, ast.BoolOp) and isinstance(c.op, ast.Or):
                out = []
                for v in c.values:
                    out.extend(index_alts(v))
                return out
            if isinstance(c, ast.Compare) and isinstance(c.left, ast.Constant) and c.left.value == 0 and isinstance(c.comparators[0], ast.Name):
                return [c.comparators[0].id]
            return []
        for setname in set(a for c in sel for a in index_alts(c)):
            rebased = False
            for y in [z for s_ in st.body for z in ast.walk(s_)]:
                if isinstance(y, ast.Call) and isinstance(y.func, ast.Attribute) and y.func.attr in ('discard', 'remove', 'difference_update') \
                        and isinstance(y.func.value, ast.Name) and y.func.value.id == setname:
                    rebased = True
                if isinstance(y, (ast.Assign, ast.AugAssign)):
                    tg = y.targets[0] if isinstance(y, ast.Assign) else y.target
                    if isinstance(tg, ast.Name) and tg.id == setname:
                        rebased = True
            ctx.ob('G-VAL', '_keygen: index 0 leaves `%s` together with the instance' % setname, rebased)
            if not rebased:
                ctx.fail('G-VAL', fi.qual, 'index 0 stays in the ignore set after the instance was cut',
                         '_keygen cuts the instance out of the positional arguments when index 0 is ignored (`%s`) but leaves 0 in `%s`: positions have shifted by one, so '
                         'the stale index now masks the first *real* parameter - calls that differ in it share a key and the cache answers one with the other\'s result'
                         % (unparse(st.test)[:60], setname), '%s:%d' % (m.rel, st.lineno))
    # G-FORMS (the specification is read against the signature, not against one call): the sets of ignored indices / names are computed from the
    # specification and the function's parameter names.  The *number of arguments this call happens to pass positionally* must not enter them: a
    # negative or relative index resolved with len(args) masks different parameters in f(1, 2, True), f(1, 2, verbose=True) and f(x=1, y=2, verbose=True).
    counts = set()
    for x in ast.walk(f):
        if isinstance(x, ast.Assign) and len(x.targets) == 1 and isinstance(x.targets[0], ast.Name):
            if any(isinstance(c, ast.Call) and isinstance(c.func, ast.Name) and c.func.id == 'len' and c.args and isinstance(c.args[0], ast.Name) and c.args[0].id in pos
                   for c in ast.walk(x.value)):
                counts.add(x.targets[0].id)
    n2 = 0
    for x in ast.walk(f):
        if isinstance(x, (ast.Assign, ast.AugAssign)):
            tg = x.targets[0] if isinstance(x, ast.Assign) else x.target
            if isinstance(tg, ast.Tuple):
                tg = next((e for e in tg.elts if isinstance(e, ast.Name) and e.id in spec_like and e.id != ign), tg)
            if not (isinstance(tg, ast.Name) and tg.id in spec_like and tg.id != ign):
                continue
            n2 += 1
            uses = [c for c in ast.walk(x.value) if (isinstance(c, ast.Call) and isinstance(c.func, ast.Name) and c.func.id == 'len' and c.args
                                                     and isinstance(c.args[0], ast.Name) and c.args[0].id in pos) or (isinstance(c, ast.Name) and c.id in counts)]
            ctx.ob('G-FORMS', '_keygen: `%s` does not depend on how many arguments the call passes positionally' % tg.id, not uses)
            if uses:
                ctx.fail('G-FORMS', fi.qual, 'ignore set `%s` computed from the number of positional arguments' % tg.id,
                         '_keygen computes `%s` from `%s`: which parameters are masked then depends on how the caller spells the call (positionally or by keyword), '
                         'so one and the same binding of values to parameters gets different keys - or an argument that should be ignored reaches the key'
                         % (tg.id, unparse(uses[0])[:40]), '%s:%d' % (m.rel, x.lineno))
    if n2 < 1:
        ctx.note('G-FORMS (call-independent decomposition): the ignore sets are not assigned by name in _keygen (decomposed in a helper); nothing to check here')


def rule_G_SELFTRUTH(ctx, repo):
    """G-FORMS / V-SELF (the bound instance is a user object: never asked for its truth).  _keygen and signature() look at `__self__` to find out whether
    the first positional argument is the instance a method is bound to.  The instance is whatever the user's class makes it: an empty container subclass
    is falsy, `__bool__` / `__len__` are user code.  Wherever the package holds such an instance (a name bound from `.__self__` / getattr(x, '__self__'))
    it compares it (`is None`, `==`) - it never branches on its truthiness, or methods of falsy instances are keyed / validated differently from the rest."""
    m = repo.mod('_inspect')
    n = 0
    for fname, fi in sorted(m.functions.items()):
        fn = fi.node

        def reads_self(e):
            for x in ast.walk(e):
                if isinstance(x, ast.Attribute) and x.attr == '__self__':
                    return True
                if isinstance(x, ast.Call) and isinstance(x.func, ast.Name) and x.func.id == 'getattr' and len(x.args) >= 2 \
                        and isinstance(x.args[1], ast.Constant) and x.args[1].value == '__self__':
                    return True
            return False
        inst = set()
        for x in ast.walk(fn):
            if isinstance(x, ast.Assign) and len(x.targets) == 1 and isinstance(x.targets[0], ast.Name) and reads_self(x.value) \
                    and not isinstance(x.value, (ast.Compare, ast.BoolOp)):
                inst.add(x.targets[0].id)
        hits = []
        for nm in sorted(inst):
            n += 1
            hits.extend((h, nm) for h in truth_tests_of(fn, nm))
        for node in ast.walk(fn):
            tests = []
            if isinstance(node, (ast.If, ast.IfExp, ast.While)):
                tests.append(node.test)
            elif isinstance(node, ast.BoolOp):
                tests.extend(node.values)
            elif isinstance(node, ast.UnaryOp) and isinstance(node.op, ast.Not):
                tests.append(node.operand)
            for t in tests:
                if (isinstance(t, ast.Attribute) and t.attr == '__self__') or (isinstance(t, ast.Call) and reads_self(t) and isinstance(t.func, ast.Name) and t.func.id == 'getattr'):
                    hits.append((t, unparse(t)))
        ctx.ob('G-FORMS', '%s: the bound instance is never tested for truth (%d instance-valued names)' % (fname, len(inst)), not hits)
        for h, nm in hits[:1]:
            ctx.fail('G-FORMS', fi.qual, 'truthiness of the bound instance (%s)' % nm,
                     '%s branches on the truth value of `%s`, which is the instance a method is bound to: for an instance that is falsy (an empty list / dict '
                     'subclass, a class whose __bool__ or __len__ says so) the "first argument is self" case is not recognised - the ignored instance stays in the key '
                     '(calls on equal-looking falsy instances are evaluated again) or the method is validated with a spurious parameter' % (fname, nm),
                     '%s:%d' % (m.rel, h.lineno))
    if n < 1:
        ctx.note('G-FORMS (instance truth): no name of klepto/_inspect.py is bound from __self__ today beyond the comparisons already judged')


def rule_V_PARTIALSHAPE(ctx, repo):
    """V-TRYRESET (what counts as a partial).  signature() and validate() unwrap `func.func` only for objects that have all three of a functools.partial's
    attributes - `.args`, `.keywords` and `.func` - each read plainly, so that a missing one aborts the probe.  With defaults (`getattr(func, 'args', ())`)
    any callable instance that keeps a delegate in `self.func` is inspected as a partial of the delegate: its own `__call__` signature is ignored and the
    positional, keyword and default-omitted spellings of one call are bound under different names."""
    m = repo.mod('_inspect')
    n = 0
    for fname, fi in sorted(m.functions.items()):
        fn = fi.node
        if not fn.args.args:
            continue
        obj = fn.args.args[0].arg
        unwraps = [x for x in ast.walk(fn) if isinstance(x, ast.Attribute) and x.attr == 'func' and isinstance(x.value, ast.Name) and x.value.id == obj and isinstance(x.ctx, ast.Load)]
        if not unwraps:
            continue
        n += 1
        plain = set(x.attr for x in ast.walk(fn) if isinstance(x, ast.Attribute) and isinstance(x.value, ast.Name) and x.value.id == obj and isinstance(x.ctx, ast.Load))
        soft = [x for x in ast.walk(fn) if isinstance(x, ast.Call) and isinstance(x.func, ast.Name) and x.func.id == 'getattr' and len(x.args) == 3
                and isinstance(x.args[0], ast.Name) and x.args[0].id == obj and isinstance(x.args[1], ast.Constant) and x.args[1].value in ('args', 'keywords', 'func')]
        ok = 'args' in plain and 'keywords' in plain and not soft
        ctx.ob('V-TRYRESET', '%s: an object is unwrapped as a partial only if .args, .keywords and .func are all there' % fname, ok)
        if not ok:
            what = ('reads %s with a default' % soft[0].args[1].value) if soft else 'does not read .args and .keywords of the object it unwraps'
            ctx.fail('V-TRYRESET', fi.qual, 'partial recognised by .func alone',
                     '%s unwraps `%s.func` but %s: a callable instance that merely stores a delegate in `.func` is then inspected as a partial of the delegate, '
                     'its own __call__ signature is ignored, and one call spelled positionally / by keyword / with a default omitted is bound under different names'
                     % (fname, obj, what), '%s:%d' % (m.rel, (soft or unwraps)[0].lineno))
    if n < 1:
        raise AnalysisError('V-TRYRESET (partial shape): no function of klepto/_inspect.py unwraps `.func` (signature / validate, or a helper they share, is an anchor)')


def rule_V_CALLFALLBACK(ctx, repo):
    """V-TRYRESET (a partial is not a "callable instance").  signature() and validate() replace an object that has a `__call__` and no `__name__` by its
    `__call__` method.  A functools.partial has exactly that shape, and partial.__call__ is (self, *args, **kwargs) - it accepts everything.  The replacement is
    therefore reached only for an object that was not recognised as a partial (in the AttributeError handler of the probe), or under a test that excludes
    partials (`not identified`, `not hasattr(x, 'func')`, `not isinstance(x, partial)`, or `__call__` being a python function / method).  After
    `func = func.func` the name may hold an inner partial (a partial of a partial that carries attributes is not flattened)."""
    m = repo.mod('_inspect')
    n = 0

    def excludes_partial(tests, helpers):
        for t in tests:
            src = unparse(t)
            if 'partial' in src or "'func'" in src or '"func"' in src or 'identified' in src:
                return True
            for c in ast.walk(t):
                if isinstance(c, ast.Call) and isinstance(c.func, ast.Name) and c.func.id in helpers:
                    hs = unparse(helpers[c.func.id].node)
                    if 'partial' in hs or "'func'" in hs or ('ismethod' in hs and '__call__' in hs):
                        return True
        return False
    for fname in ('signature', 'validate'):
        fi = m.functions.get(fname)
        if fi is None:
            raise AnalysisError('anchor vanished: klepto/_inspect.py::%s' % fname)
        fn = fi.node
        obj = fn.args.args[0].arg
        parent = {}
        for x in ast.walk(fn):
            for c in ast.iter_child_nodes(x):
                parent[c] = x
        for x in ast.walk(fn):
            if not (isinstance(x, ast.Assign) and isinstance(x.value, ast.Attribute) and x.value.attr == '__call__' and isinstance(x.value.value, ast.Name)
                    and x.value.value.id == obj and any(isinstance(t, ast.Name) and t.id == obj for t in x.targets)):
                continue
            n += 1
            tests, in_handler = [], False
            cur = x
            while cur in parent and cur is not fn:
                p_ = parent[cur]
                if isinstance(p_, ast.If) and cur is not p_.test:
                    tests.append(p_.test)
                if isinstance(p_, ast.ExceptHandler):
                    # the handler of the probing try: `.func` could not be read, so the name still holds the object that was passed
                    tr = parent.get(p_)
                    if isinstance(tr, ast.Try) and any(isinstance(y, ast.Attribute) and y.attr == 'func' and isinstance(y.value, ast.Name) and y.value.id == obj
                                                       for st in tr.body for y in ast.walk(st)):
                        in_handler = True
                cur = p_
            ok = in_handler or excludes_partial(tests, m.functions)
            ctx.ob('V-TRYRESET', '%s:%d `%s = %s.__call__` cannot take a partial for a callable instance' % (fname, x.lineno, obj, obj), ok)
            if not ok:
                ctx.fail('V-TRYRESET', fi.qual, 'callable-instance fallback reaches partials',
                         '%s replaces `%s` by `%s.__call__` on a path where it can hold a functools.partial (after `%s = %s.func` the inner callable of a partial may '
                         'itself be a partial: one that carries attributes is not flattened).  A partial has a __call__ and no __name__, and partial.__call__ is '
                         '(self, *args, **kwargs): every argument list is then accepted and the names values are filed under are lost' % (fname, obj, obj, obj, obj),
                         '%s:%d' % (m.rel, x.lineno))
    # ... and it is there: inspect.getfullargspec(instance) reports the parameters of type(instance).__call__ *including* self, which nothing strips for an
    # object that is not a bound method - a positional argument is then filed under `self`, the keyword spelling under its own name (signature() is where
    # the names come from; validate() follows it)
    for fname in ('signature',):
        fi = m.functions[fname]
        reach = [fi.node] + [m.functions[c.func.id].node for c in ast.walk(fi.node) if isinstance(c, ast.Call) and isinstance(c.func, ast.Name) and c.func.id in m.functions
                             and c.func.id not in ('signature', 'validate')]
        has = any(isinstance(y, ast.Attribute) and y.attr == '__call__' and isinstance(y.ctx, ast.Load) and not isinstance(y.value, ast.Constant) for r_ in reach for y in ast.walk(r_)
                  if not (isinstance(y, ast.Attribute) and isinstance(y.value, ast.Name) and y.value.id in ('partial', 'functools')))
        has = has and any(isinstance(y, ast.Assign) and isinstance(y.value, ast.Attribute) and y.value.attr == '__call__' for r_ in reach for y in ast.walk(r_)) \
            or any(isinstance(y, ast.Return) and isinstance(y.value, ast.Attribute) and y.value.attr == '__call__' for r_ in reach for y in ast.walk(r_))
        ctx.ob('V-TARGET', '%s inspects a callable instance through its bound __call__' % fname, has)
        if not has:
            ctx.fail('V-TARGET', fi.qual, 'callable instances inspected as they are',
                     '%s no longer replaces a callable instance by its bound `__call__` before asking for the argument spec: getfullargspec(instance) lists `self` '
                     'first and nothing removes it, so a positional argument of inst(1) is filed under `self` while inst(x=1) is filed under `x` - the two spellings get '
                     'different keys (klepto.safe recomputes silently, the plain caches raise)' % fname, '%s:%d' % (m.rel, fi.node.lineno))
    if n < 2:
        ctx.note('V-TRYRESET (callable-instance fallback): %d `func = func.__call__` replacements found in signature / validate (two on the validated tree)' % n)


STR_PREDICATES = ('isidentifier', 'isalnum', 'isalpha', 'isascii', 'isdigit', 'isnumeric', 'isdecimal', 'islower', 'isupper', 'isprintable', 'istitle', 'isspace',
                  'iskeyword', 'issoftkeyword', 'fullmatch', 'match', 'encode')


def rule_V_CODEOBJ(ctx, repo):
    """V-TARGET (the argument spec comes from inspect, not from the code object): `func.__code__.co_varnames[:co_argcount]` with `__defaults__` is what
    getfullargspec reports for a plain function - but not for a callable that carries a `__signature__` (signature-preserving decorators: a
    `(*args, **kwargs)` wrapper that advertises the wrapped function's parameters).  A fast path over the code object sees no named parameter there: names
    and indices of the ignore specification can no longer be cross-referenced, so an ignored argument passed the other way enters the key."""
    m = repo.mod('_inspect')
    fi = m.functions.get('signature')
    if fi is None:
        raise AnalysisError('anchor vanished: klepto/_inspect.py::signature')
    reach = [fi.node] + [m.functions[c.func.id].node for c in ast.walk(fi.node) if isinstance(c, ast.Call) and isinstance(c.func, ast.Name) and c.func.id in m.functions
                         and c.func.id not in ('signature', 'validate')]
    hits = [y for r_ in reach for y in ast.walk(r_) if isinstance(y, ast.Attribute) and y.attr in ('__code__', 'co_varnames', 'co_argcount', 'co_kwonlyargcount', 'func_code')]
    ctx.ob('V-TARGET', 'signature() does not read parameter names off the code object', not hits)
    for y in hits[:1]:
        ctx.fail('V-TARGET', fi.qual, 'argument names taken from %s' % y.attr,
                 'signature() reads the parameters from the code object (`%s`): a callable whose advertised signature differs from its code - a functools.wraps-style '
                 '(*args, **kwargs) wrapper with `__signature__` set - is then seen without named parameters, where inspect.getfullargspec honours __signature__: '
                 'name- and index-based ignore entries stop matching and ignored arguments change the key' % unparse(y)[:40], '%s:%d' % (m.rel, y.lineno))


def rule_V_NONE_GIVEN(ctx, repo):
    """V-NONE (an argument that is None is given): validate() decides "was this parameter provided" by membership in the tables it builds (`in`,
    set operations), never from the value a lookup returned: `defaults.get(name) is None` holds for a parameter the caller bound to None, so f(1, None) -
    a call Python binds without complaint - is reported as missing an argument."""
    m = repo.mod('_inspect')
    n = 0
    for fname in ('validate', 'isvalid'):
        fi = m.functions.get(fname)
        if fi is None:
            raise AnalysisError('anchor vanished: klepto/_inspect.py::%s' % fname)
        for x in ast.walk(fi.node):
            if isinstance(x, ast.Compare) and len(x.ops) == 1 and isinstance(x.ops[0], (ast.Is, ast.IsNot, ast.Eq, ast.NotEq)) \
                    and isinstance(x.comparators[0], ast.Constant) and x.comparators[0].value is None:
                l = x.left
                if isinstance(l, ast.Call) and isinstance(l.func, ast.Attribute) and l.func.attr == 'get' and len(l.args) == 1:
                    n += 1
                    ctx.ob('V-NONE', '%s: presence of an argument is not read off `%s`' % (fname, unparse(x)[:40]), False)
                    ctx.fail('V-NONE', fi.qual, 'presence decided by `%s`' % unparse(x)[:50],
                             '%s takes `%s` for "the argument was not provided": a parameter the caller binds to None (positionally or by keyword) gives the same answer, '
                             'so a call that gets past argument binding - f(1, None) - is reported invalid' % (fname, unparse(x)[:60]), '%s:%d' % (m.rel, x.lineno))
    ctx.ob('V-NONE', 'value-based presence tests in validate / isvalid', n == 0)


def rule_V_NAMESHAPE(ctx, repo):
    """V-NAMES (keyword names are opaque).  Python binds f(**{'content-type': 1}) to a function with **kwds without looking at the spelling of the name: only
    membership in the parameter list matters.  validate() therefore compares names (in / not in / ==) and never judges their spelling: a predicate on the text
    of a name (isidentifier, iskeyword, a regular expression, an encoding) rejects calls the interpreter accepts."""
    m = repo.mod('_inspect')
    n = 0
    for fname in ('validate', 'isvalid'):
        fi = m.functions.get(fname)
        if fi is None:
            raise AnalysisError('anchor vanished: klepto/_inspect.py::%s' % fname)
        hits = [x for x in ast.walk(fi.node) if isinstance(x, ast.Call) and isinstance(x.func, ast.Attribute) and x.func.attr in STR_PREDICATES]
        n += 1
        ctx.ob('V-NAMES', '%s judges no keyword name by its spelling' % fname, not hits)
        for x in hits:
            ctx.fail('V-NAMES', fi.qual, 'names tested with %s' % x.func.attr,
                     '%s applies `%s` to the names it validates: the interpreter binds any string as a keyword of a **kwds function (f(**{"content-type": 1}) is a '
                     'legal call), so a call that gets past argument binding is reported invalid' % (fname, unparse(x)[:50]), '%s:%d' % (m.rel, x.lineno))


def rule_G_FUNCIDENT(ctx, repo):
    """G-SELF (the key does not depend on which function *object* is asked).  _keygen uses the callable for its signature and its name.  A comparison of the
    callable (is / == / in) with something found at run time - the attribute bound on the instance, its __func__ or __wrapped__ - holds for the function
    object that was decorated and fails for its unpickled copy (a new object, while the class still carries the original): the copy stops recognising
    `self`, keys its calls differently (or cannot key them at all), and misses what the original stored."""
    m = repo.mod('_inspect')
    fi = m.functions.get('_keygen')
    if fi is None:
        raise AnalysisError('anchor vanished: klepto/_inspect.py::_keygen')
    fn = fi.node
    obj = fn.args.args[0].arg
    aliases = set([obj])
    hits = []
    for x in ast.walk(fn):
        if isinstance(x, ast.Compare):
            operands = [x.left] + list(x.comparators)
            if any(isinstance(o, ast.Name) and o.id in aliases for o in operands) and \
                    not all(isinstance(o, ast.Constant) or (isinstance(o, ast.Name) and o.id in aliases) for o in operands):
                hits.append(x)
    ctx.ob('G-SELF', '_keygen compares the callable with nothing found at run time', not hits)
    for x in hits:
        ctx.fail('G-SELF', fi.qual, 'callable compared by identity: %s' % unparse(x)[:50],
                 '_keygen tests `%s`: the outcome depends on which function object is being keyed.  A decorated function restored from a pickle is a new object, while '
                 'what is bound on the instance / class is still the original, so the test passes for the original and fails for the copy - the copy no longer treats '
                 'the first argument as the instance and computes other keys (or none) for the calls the original stored' % unparse(x)[:70], '%s:%d' % (m.rel, x.lineno))


def rule_V_DOUBLESTAR(ctx, repo):
    """V-DUP (one ** per call).  `f(**a, **b)` raises TypeError("multiple values for keyword argument") as soon as the two mappings share a key - before f runs.
    Where the mappings are a partial's stored keywords and the keywords of the call, sharing a key is legal (the call's value overrides the stored one): a
    validation that forwards both with two `**` reports such a call as invalid although the interpreter accepts it.  Mappings are merged first
    (dict(a, **b) / {**a, **b}: later wins), then expanded once."""
    n = 0
    for name in ('_inspect', '_cache', 'safe', 'rounding', 'keymaps'):
        m = repo.mod(name)
        for node in ast.walk(m.tree):
            if isinstance(node, ast.Call):
                n += 1
                stars = [k for k in node.keywords if k.arg is None]
                if len(stars) >= 2:
                    ctx.ob('V-DUP', '%s:%d one ** expansion per call' % (m.rel, node.lineno), False)
                    ctx.fail('V-DUP', '%s:%d' % (m.rel, node.lineno), 'two ** expansions in one call',
                             '`%s` expands two mappings into one call: when they share a key (a keyword a partial stores and the caller repeats - a legal override) the '
                             'interpreter raises TypeError before the callee runs, and a call that binds fine is reported as invalid (or a key cannot be computed)'
                             % ' '.join(unparse(node).split())[:70], '%s:%d' % (m.rel, node.lineno))
    ctx.ob('V-DUP', 'calls examined for multiple ** expansions', True, n=n)
