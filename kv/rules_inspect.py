"""Rules over klepto/_inspect.py (the binding side of the key): G-VAL, G-PREC, G-FORMS and the V-* rules.

All of them are decided on the dependence / provenance interpretation of kv.deps (no paths are enumerated: _keygen has > 80 000).

G-VAL   every argument value reaches the key material: on every return of _keygen the positional part carries values of *args and
        the keyword part carries values of **kwds; on the main return the keyword part also carries the function's defaults,
        its keyword-only defaults, a partial's keywords and the (named) positionals.  Necessary for C09 (a default spelled out or
        omitted, positional or keyword spelling) and C10 (every argument discriminates).
G-PREC  binding precedence of the layers written into the keyword part: function defaults and keyword-only defaults are written
        before a partial's keywords, and all three before the caller's keywords (later writes override earlier ones; setdefault-style
        writes count as earlier).  A flipped pair lets a default overwrite a value the caller (or the partial) supplied.
"""
import ast

from .src import AnalysisError, unparse
from .deps import DepEngine, AV, NOCONST

FIELD_ROOTS = ('SPEC',)
SOURCE_CALLS = {'getfullargspec': 'SPEC', 'getargspec': 'SPEC'}


def _roles(fi):
    a = fi.node.args
    pos = [x.arg for x in a.posonlyargs + a.args]
    if len(pos) < 2 or a.vararg is None or a.kwarg is None:
        raise AnalysisError('anchor changed: %s is expected to take (func, ignored, *args, **kwds)' % fi.qual)
    return {'func': 'P:' + pos[0], 'ignored': 'P:' + pos[1], 'args': 'P:' + a.vararg.arg, 'kwds': 'P:' + a.kwarg.arg}


def run_keygen(repo):
    m = repo.mod('_inspect')
    fi = m.functions.get('_keygen')
    if fi is None:
        raise AnalysisError('anchor vanished: klepto/_inspect.py::_keygen')
    if 'signature' not in m.functions:
        raise AnalysisError('anchor vanished: klepto/_inspect.py::signature')
    r = _roles(fi)
    roots = set(FIELD_ROOTS) | set([r['func'], r['func'] + '.func'])
    eng = DepEngine(m, field_roots=roots, source_calls=SOURCE_CALLS)
    out = eng.run(fi.node, fi.qual, {})
    return m, fi, r, eng, out


def layer_classes(layer, r):
    """which binding sources does this layer carry values of"""
    c = set()
    for L in layer.v:
        if L == 'SPEC.defaults':
            c.add('FDEF')
        elif L == 'SPEC.kwonlydefaults':
            c.add('KWDEF')
        elif L in (r['func'] + '.keywords', r['func'] + '.func.keywords'):
            c.add('PKW')
        elif L == r['kwds']:
            c.add('CALLKW')
        elif L == r['args']:
            c.add('POS')
    return c


PREC = (('FDEF', 'PKW', "a function default is written after (overrides) the keywords a functools.partial was built with"),
        ('KWDEF', 'PKW', "a keyword-only default is written after (overrides) the keywords a functools.partial was built with"),
        ('FDEF', 'CALLKW', "a function default is written after (overrides) a keyword the caller passed"),
        ('KWDEF', 'CALLKW', "a keyword-only default is written after (overrides) a keyword the caller passed"),
        ('PKW', 'CALLKW', "a partial's keyword is written after (overrides) a keyword the caller passed"))


def rule_G(ctx, repo, want=('G-VAL', 'G-PREC')):
    m, fi, r, eng, out = run_keygen(repo)
    ctx.analysed(fi.qual)
    ctx.analysed(m.functions['signature'].qual)
    rets = [s for s in eng.sites if s.kind == 'return' and s.depth == 0]
    if not rets:
        raise AnalysisError('%s has no return' % fi.qual)
    where = '%s:%d' % (m.rel, fi.node.lineno)
    main = []
    for s in rets:
        v = s.val
        if v.elts is None or len(v.elts) != 2:
            raise AnalysisError('%s: return at line %d is not a recognisable (args, kwds) pair' % (fi.qual, s.lineno))
        pa, kw = v.elts
        if 'G-VAL' in want:
            ok1 = r['args'] in pa.v or r['args'] in kw.v
            ok2 = r['kwds'] in kw.v
            ctx.ob('G-VAL', 'return@%s positional values reach the key' % unparse(s.node)[:50], ok1)
            ctx.ob('G-VAL', 'return@%s keyword values reach the key' % unparse(s.node)[:50], ok2)
            if not ok1:
                ctx.fail('G-VAL', fi.qual, 'positional values dropped: ' + ' '.join(unparse(s.node).split())[:80],
                         'a return of _keygen yields key material that carries no value of *%s: calls differing in positional arguments share a key' % r['args'][2:],
                         '%s:%d' % (m.rel, s.lineno))
            if not ok2:
                ctx.fail('G-VAL', fi.qual, 'keyword values dropped: ' + ' '.join(unparse(s.node).split())[:80],
                         'a return of _keygen yields key material whose keyword part carries no value of **%s: calls differing in keyword arguments share a key' % r['kwds'][2:],
                         '%s:%d' % (m.rel, s.lineno))
        if 'SPEC' in v.d or 'SPEC.args' in v.d:
            main.append(s)
    if not main:
        raise AnalysisError('%s: no return depends on the inspected signature (anchor changed)' % fi.qual)
    if 'G-VAL' in want:
        need = (('SPEC.defaults', "the function's default values"), ('SPEC.kwonlydefaults', "the function's keyword-only defaults"),
                (r['func'] + '.keywords', "a partial's keywords"), (r['args'], 'named positional arguments'))
        for L, what in need:
            ok = any(L in s.val.elts[1].v for s in main)
            ctx.ob('G-VAL', 'keyword part of the key carries %s' % what, ok)
            if not ok:
                ctx.fail('G-VAL', fi.qual, 'keyword part never carries ' + L.replace(r['func'], 'FN').replace(r['args'], 'ARGS'),
                         'no return of _keygen puts %s into the keyword part of the key: a call that spells the value out and one that relies on it '
                         'get different keys (C09), or positional and keyword spellings differ' % what, where)
        # the positional part keeps the variadic positionals on the main return
        ok = all(r['args'] in s.val.elts[0].v for s in main)
        ctx.ob('G-VAL', 'positional part keeps *args values', ok)
        if not ok:
            ctx.fail('G-VAL', fi.qual, 'variadic positionals dropped from the positional part',
                     'the positional part of the key returned by _keygen carries no value of *%s: extra positional arguments no longer discriminate' % r['args'][2:], where)
    if 'G-PREC' in want:
        n = 0
        for s in main:
            kw = s.val.elts[1]
            if kw.alts is None and (r['kwds'] in kw.v and ('SPEC.defaults' in kw.v or 'SPEC.kwonlydefaults' in kw.v)):
                raise AnalysisError('%s: the order of writes into the keyword part of the key cannot be determined (more than %d alternatives or an unmodelled mapping idiom)' % (fi.qual, 24))
            for alt in kw.layers_or_self():
                cls = [layer_classes(l, r) for l in alt]
                for a, b, msg in PREC:
                    ia = [i for i, c in enumerate(cls) if a in c and b not in c]
                    ib = [i for i, c in enumerate(cls) if b in c and a not in c]
                    if not ia or not ib:
                        continue
                    n += 1
                    ok = max(ia) < min(ib)
                    ctx.ob('G-PREC', None, ok)
                    if not ok:
                        la = alt[max(ia)]
                        ctx.fail('G-PREC', fi.qual, '%s written after %s' % (a, b),
                                 'binding precedence: %s (layer written at line %d follows the layer written at line %d); two spellings of the same call get different keys, '
                                 'or a value the caller supplied is replaced by a default' % (msg, la.where, alt[min(ib)].where),
                                 '%s:%d' % (m.rel, la.where or fi.node.lineno), ['layering: ' + ' < '.join(repr(l) for l in alt)])
        if n == 0:
            raise AnalysisError('%s: no pair of binding layers found to compare (defaults / partial keywords / caller keywords)' % fi.qual)
        ctx.instances.setdefault('G-PREC', []).append('%d ordered layer pairs over %d layerings' % (n, sum(len(s.val.elts[1].layers_or_self()) for s in main)))
        ctx.sample({'construct': fi.qual, 'layerings of the keyword part (later overrides earlier)': [' < '.join(repr(l) for l in alt) for s in main for alt in sorted(s.val.elts[1].layers_or_self(), key=len)[-2:]]})
