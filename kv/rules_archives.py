"""Archive rules (DESIGN section 4): A-OVR A-BASE A-EFF A-KEYERR A-STAGE A-NOCACHE A-COMMIT A-RED A-COPY A-FACTORY
A-PUB A-UNPUB A-VIS A-OPEN A-LISTREAD."""
import ast
import fnmatch

from .src import AnalysisError, unparse
from .paths import (Engine, Model, R, C, NONE, is_const, render, render_path, subterms, contains_term, RETURN, RAISE, St, GENERIC)
from .wmodel import SELF, libname
from .amodel import (AModel, run_method, archive_classes, ARCHIVE_CLASSES, PERSISTENT, on_self_store, STATE, PRIMITIVES)
from .rules_wrappers import PlainModel

OPS = ['__setitem__', '__getitem__', '__delitem__', '__contains__', '__len__', '__iter__', 'keys', 'values', 'items', 'get', 'pop',
       'popitem', 'popkeys', 'setdefault', 'update', 'clear', 'copy', '__eq__', '__ne__', '__asdict__', 'fromkeys', '__repr__']
FROM_BASE_OK = ('__asdict__', '__repr__', 'copy', 'popkeys')     # generic in _abc.archive: written against self.pop / self.keys / self.__asdict__
KLEPTO_OPS = ('popkeys', '__asdict__')
READERS = ['__getitem__', 'get', '__contains__', '__len__', '__iter__', 'keys', 'values', 'items', '__eq__', '__ne__', '__asdict__', '__repr__']
MUST_READ = ['__getitem__', 'get', '__contains__', '__len__', '__iter__', '__asdict__', 'keys', 'values', 'items']
WRITERS = ['__setitem__', 'update', 'setdefault']
REMOVERS = ['__delitem__', 'pop', 'popitem', 'popkeys']
NULL_WRITERS = ('__setitem__', 'update', 'setdefault')


class Cache(object):
    """per-run cache of enumerated method paths"""

    def __init__(self, repo, unroll=1):
        self.repo = repo
        self.unroll = unroll
        self.d = {}

    def outs(self, ci, name, params=None, key=None):
        k = (ci.label, name, key)
        if k not in self.d:
            self.d[k] = run_method(self.repo, ci, name, params=params, unroll=self.unroll, comp_unroll=self.unroll)
        return self.d[k]


def mq(ci, name):
    return '%s.%s' % (ci.qual, name)


def wh(ci, line):
    return '%s:%d' % (ci.module.rel, line)


# ---------------------------------------------------------------------------------------------
def classify(e, on_self_store=on_self_store):
    """self-store effect class of an event: 'read' | 'write' | 'remove' | 'clearall' | 'rename' | 'mkdir' | None"""
    k = e.kind
    a = e.args
    if k in ('READ!', 'OPENR!'):
        # a failed read attempt still went to storage
        return 'read' if (a and (on_self_store(a[0]) or a[0] == ('opaque', 'import'))) else None
    if k == 'SQL!' and a[0][1] == 'select' and on_self_store(a[2]):
        return 'read'
    if k in ('READ', 'OPENR'):
        return 'read' if (a and (on_self_store(a[0]) or a[0] == ('opaque', 'import'))) else None
    if k == 'LIST' or k == 'EXISTS':
        return 'read' if (a and on_self_store(a[0])) else None
    if k == 'SQL':
        kind, where, recv = a[0][1], a[1][1], a[2]
        if not on_self_store(recv):
            return None
        if kind == 'select':
            return 'read'
        if kind in ('insert', 'update'):
            return 'write'
        if kind == 'delete':
            return 'remove' if where else 'clearall'
        if kind == 'drop':
            return 'remove'
        if kind == 'create':
            return 'create'
        return None
    if k == 'WRITE':
        if a and on_self_store(a[0]):
            content = a[1] if len(a) > 1 else None
            if content == ('dict', ()):
                return 'clearall'
            return 'write'
        return None
    if k == 'OPENW':
        if a and on_self_store(a[0]):
            return 'openw'
        return None
    if k == 'REMOVE':
        return 'remove' if (a and on_self_store(a[0])) else None
    if k == 'UNLINK':
        return 'remove' if (a and on_self_store(a[0])) else None
    if k == 'RMTREE':
        if a and on_self_store(a[0]):
            if len(a) > 1 and a[1] == C(False):
                return 'clearall'
            return 'remove'
        return None
    if k == 'RENAME':
        if len(a) > 1 and on_self_store(a[1]):
            return 'rename'
        return None
    if k == 'COPY':
        if len(a) > 1 and on_self_store(a[1]) and not on_self_store(a[0]):
            return 'write'
        if a and on_self_store(a[0]):
            return 'read'
        return None
    if k == 'MKDIR':
        return 'mkdir' if (a and on_self_store(a[0])) else None
    return None


def effects(o, own=on_self_store):
    # what a listing of the archive's own location returned lies in that location too (for d in walk(root, ...): rmtree(d))
    listed = [e.val for e in o.st.events if e.kind == 'LIST' and e.val is not None and e.args and own(e.args[0])]
    if listed:
        base = own

        def own(t, base=base, listed=listed):
            return base(t) or contains_term(t, lambda x: x in listed)
    return [(e, classify(e, own)) for e in o.st.events if classify(e, own) is not None]


def clean_path(o):
    """no primitive failed on this path"""
    return not any(e.kind.endswith('!') for e in o.st.events)


# ---------------------------------------------------------------------------------------------
def rule_A_OVR_BASE(ctx, repo, cache):
    classes = archive_classes(repo)
    base = repo.mod('_abc').classes['archive']
    for ci in classes:
        ctx.analysed(ci.qual)
        persistent = ci.label in PERSISTENT
        if persistent:
            for op in OPS:
                own = op in ci.methods
                ok = own or (op in FROM_BASE_OK and op in base.methods)
                ctx.ob('A-OVR', '%s.%s' % (ci.label, op), ok)
                if not ok:
                    ctx.fail('A-OVR', ci.qual, 'missing override %s' % op,
                             '%s keeps its contents outside the base dict but does not override %s: the inherited dict method would operate '
                             'on the unused (empty) base storage' % (ci.label, op), ci.where)
        else:
            for op in KLEPTO_OPS:
                ok = op in ci.methods or op in base.methods
                ctx.ob('A-OVR', '%s.%s' % (ci.label, op), ok)
                if not ok:
                    ctx.fail('A-OVR', ci.qual, 'missing %s' % op,
                             '%s does not provide %s (dict has no such method and neither does the archive base class): '
                             'every other archive and cache defines it' % (ci.label, op), ci.where)
            if ci.name == 'null_archive':
                for op in NULL_WRITERS:
                    ok = op in ci.methods
                    ctx.ob('A-OVR', 'null_archive.%s' % op, ok)
                    if not ok:
                        ctx.fail('A-OVR', ci.qual, 'null_archive lacks %s' % op, 'null_archive must override the writer %s to discard it' % op, ci.where)
    # cache must override none (S-PLAIN, shared with C08)
    # A-BASE
    for ci in classes:
        if ci.label not in PERSISTENT:
            continue
        for name in sorted(ci.methods):
            if name in ('__init__', 'fromkeys'):
                continue
            fi, outs, eng = cache.outs(ci, name)
            bad = None
            for o in outs:
                for e in o.st.events:
                    if e.kind == 'BASE' and e.depth == 0:
                        if name in ('__reduce__', '__reduce_ex__') and e.args[0][1] == name:
                            continue    # delegating to the default pickling protocol is no access to the entries (what the pickle then carries is A-RED's question)
                        bad = (e, o)
            ctx.ob('A-BASE', '%s.%s' % (ci.label, name), bad is None)
            if bad is not None:
                e, o = bad
                ctx.fail('A-BASE', mq(ci, name), 'base storage %s' % render(e.args[0]),
                         '%s.%s touches the base dict storage (dict.%s): the persistent archive\'s contents do not live there' % (ci.label, name, e.args[0][1]),
                         wh(ci, e.line), render_path(o))


def rule_A_EFF(ctx, repo, cache, must_read_only=False):
    classes = [c for c in archive_classes(repo) if c.label in PERSISTENT]
    for ci in classes:
        for op in OPS:
            if op in ('fromkeys',):
                continue
            r = cache.outs(ci, op)
            if r[0] is None:
                continue
            fi, outs, eng = r
            ctx.analysed(mq(ci, op))
            ctx.add_paths(outs, mq(ci, op), trivial_kinds=('BRANCH', 'CAUGHT', 'RAISE'))
            normal = [o for o in outs if o.kind == RETURN]
            if op in READERS and not must_read_only:
                bad = None
                for o in outs:
                    for e, c in effects(o):
                        if c in ('write', 'remove', 'clearall', 'rename', 'mkdir', 'openw'):
                            bad = (e, c, o)
                            break
                    if bad:
                        break
                ctx.ob('A-EFF', '%s.%s reader' % (ci.label, op), bad is None)
                if bad:
                    e, c, o = bad
                    ctx.fail('A-EFF', mq(ci, op), 'reader performs %s' % c,
                             'the read operation %s.%s performs a %s on the archive\'s own store (%s)' % (ci.label, op, c, e), wh(ci, e.line), render_path(o))
            if op in MUST_READ:
                # every normal path reaches a storage read; a call cycle that never reads cannot terminate
                bad = None
                for o in normal:
                    if not any(c in ('read',) for e, c in effects(o)):
                        bad = o
                        break
                ctx.ob('A-EFF(read)', '%s.%s' % (ci.label, op), bad is None)
                if bad is not None:
                    cyc = [e for e in bad.st.events if e.kind == 'OPAQUECALL']
                    if cyc:
                        msg = ('%s.%s returns without ever reaching a storage read: its call graph closes into a cycle (%s) - '
                               'iterating the archive recurses until RecursionError' % (ci.label, op, ' -> '.join(sorted(set(render(e.args[0]) for e in cyc)))))
                        detail = 'reader cycle without read'
                    else:
                        msg = '%s.%s has a normal path that returns without reading the store: the answer cannot reflect what is stored' % (ci.label, op)
                        detail = 'reader path without read'
                    ctx.fail('A-EFF(read)', mq(ci, op), detail, msg, wh(ci, fi.node.lineno), render_path(bad))
            if must_read_only:
                continue
            if op in WRITERS:
                has = any(any(c in ('write', 'rename') for e, c in effects(o)) for o in normal)
                ctx.ob('A-EFF', '%s.%s writer' % (ci.label, op), has)
                if not has:
                    ctx.fail('A-EFF', mq(ci, op), 'writer never writes', '%s.%s has no path that writes the archive\'s store' % (ci.label, op), wh(ci, fi.node.lineno))
                if op == '__setitem__':
                    for o in normal:
                        if clean_path(o) and not any(c in ('write', 'rename') for e, c in effects(o)):
                            ctx.fail('A-EFF', mq(ci, op), 'setitem path without write',
                                     '%s.__setitem__ has a failure-free path that returns without writing the store' % ci.label, wh(ci, o.line), render_path(o))
            if op in REMOVERS:
                has = any(any(c in ('remove', 'clearall') or (c in ('write', 'rename') and is_whole_file(ci)) for e, c in effects(o)) for o in normal)
                rd = any(any(c == 'read' or (c == 'remove' and e.val is not None) for e, c in effects(o)) for o in normal) or op == '__delitem__'
                ctx.ob('A-EFF', '%s.%s remover' % (ci.label, op), has and rd)
                if not has:
                    ctx.fail('A-EFF', mq(ci, op), 'remover never removes', '%s.%s has no path that removes anything from the archive\'s store' % (ci.label, op), wh(ci, fi.node.lineno))
                elif not rd:
                    ctx.fail('A-EFF', mq(ci, op), 'pop never reads', '%s.%s never reads the store: it cannot return the stored value' % (ci.label, op), wh(ci, fi.node.lineno))
            if op in REMOVERS and op != 'popkeys':      # popkeys is a loop over pop (zero iterations for an empty key list)
                # A-REMOVE: a failure-free path that read the store and neither removes nor rewrites must have established that there was
                # nothing to remove - by a membership test on what was read, or by the KeyError of the lookup.  Comparing the popped value with
                # the default (`res is default`) is not such evidence: a stored value may be that very object.
                for o in normal:
                    if not clean_path(o):
                        continue
                    effs = [c for e, c in effects(o)]
                    if 'read' not in effs or any(c in ('remove', 'clearall', 'write', 'rename') for c in effs):
                        continue
                    absent = any(e.kind == 'CAUGHT' and e.args and e.args[0] in (C('KeyError'), C('StopIteration'), C('IndexError')) for e in o.st.events)
                    for t, b in o.st.facts.get('truth', {}).items():
                        if t[0] == 'cmp' and ((t[1] == 'in' and b is False) or (t[1] == 'not in' and b is True)):
                            absent = True
                        if t[0] == 'not' and t[1][0] == 'cmp' and t[1][1] == 'in' and b is True:
                            absent = True
                        if t[0] == 'ev' and t[1] in ('exists', 'read', 'list') and b is False:
                            absent = True       # nothing stored / empty listing
                    if o.kind == RETURN and o.val is not None and not contains_term(o.val, lambda x: x[0] == 'ev' and x[1] in ('read', 'sqlres')):
                        absent = absent or True      # returns a default / constant that does not come from the store
                    ctx.ob('A-REMOVE', None, absent)
                    if not absent:
                        ctx.fail('A-REMOVE', mq(ci, op), 'found entry returned but not removed',
                                 '%s.%s has a failure-free path that returns a value taken from the store without removing it or rewriting the store, and without having '
                                 'established that the key was absent: the entry stays although dict.%s removes it' % (ci.label, op, op), wh(ci, o.line), render_path(o))
                ctx.ob('A-REMOVE', '%s.%s' % (ci.label, op))
            if op == 'clear':
                has = any(any(c == 'clearall' or (c == 'rename' and is_whole_file(ci)) for e, c in effects(o)) for o in normal)
                if not has:
                    # per-key loop form: iterate own keys and remove each
                    has = any(any(c == 'remove' for e, c in effects(o)) and any(c == 'read' for e, c in effects(o)) for o in normal)
                    if has and ci.name in ('dir_archive', 'hdfdir_archive'):
                        # ... for a directory archive the entries are removed *as listed*: a path recomputed from the decoded key misses the entries whose
                        # keys collapse in a dict of keys (1 and 1.0 are two directories and one key), and clear() leaves them behind
                        for o in normal:
                            listed = [e.val for e in o.st.events if e.kind == 'LIST' and e.val is not None]
                            for e, c in effects(o):
                                if c == 'remove' and e.kind == 'RMTREE' and not contains_term(e.args[0], lambda t: t in listed or (t[0] == 'iter' and t[1] in listed)):
                                    ctx.ob('A-EFF', '%s.clear removes the entries as listed' % ci.label, False)
                                    ctx.fail('A-EFF', mq(ci, op), 'clear removes entries by decoded key',
                                             '%s.clear removes `%s`: the directory is recomputed from a key decoded from the listing instead of being the listed entry '
                                             'itself - entries whose keys are equal as dict keys but stored separately (1 and 1.0, True and 1) are removed once and the twin '
                                             'stays, so clear() / sync(clear=True) leave a stale entry that load() brings back' % (ci.label, render(e.args[0])[:70]),
                                             wh(ci, e.line), render_path(o))
                                    has = None
                                    break
                            if has is None:
                                break
                        if has is None:
                            continue
                ctx.ob('A-EFF', '%s.clear' % ci.label, has)
                if not has:
                    ctx.fail('A-EFF', mq(ci, op), 'clear never clears', '%s.clear has no path that empties the store' % ci.label, wh(ci, fi.node.lineno))


def rule_A_EQ(ctx, repo, cache):
    """equality between archives compares contents: every answer other than NotImplemented derives from a read of the store"""
    for ci in [c for c in archive_classes(repo) if c.label in PERSISTENT]:
        fi, outs, eng = cache.outs(ci, '__eq__')
        if fi is None:
            continue
        bad = None
        for o in outs:
            if o.kind != RETURN:
                continue
            v = o.val
            if v == ('lib', 'NotImplemented'):
                continue
            read = any(c == 'read' for e, c in effects(o))
            iscmp = v[0] in ('cmp', 'not') or (v[0] == 'and')
            if not (read and iscmp):
                bad = o
        ctx.ob('A-EQ', ci.label, bad is None)
        if bad is not None:
            ctx.fail('A-EQ', mq(ci, '__eq__'), '__eq__ answers %s without comparing contents' % render(bad.val)[:40],
                     '%s.__eq__ can answer %s on a path that does not compare the stored contents of the two archives (equality between archives must compare contents)' % (
                         ci.label, render(bad.val)[:60]), wh(ci, bad.line), render_path(bad))


def rule_A_PUBFAIL(ctx, repo, cache):
    """a store whose value could not be encoded neither publishes the half-written staging copy nor removes the live object"""
    for lab, routine in sorted(STORE_ROUTINES.items()):
        ci = archive_classes(repo, [lab])[0]
        params = {'new': C(True)} if lab == 'hdf_archive[hdf]' else None
        fi, outs, eng = cache.outs(ci, routine, params=params, key='new' if params else None)
        bad = None
        n = 0
        for o in outs:
            evs = o.st.events
            for i, e in enumerate(evs):
                if e.kind in ('WRITE!', 'ENCODE!') and e.args and e.args[-1] in (C('TypeError'), C(GENERIC), C('AttributeError')) \
                        and (e.kind == 'ENCODE!' or on_self_store(e.args[0]) or e.args[0][0] == 'call'):     # ... or a staging file elsewhere (tempfile.gettempdir())
                    n += 1
                    for x in evs[i + 1:]:
                        if x.kind == e.kind[:-1] and e.kind == 'ENCODE!':
                            break       # the handler retried the encoding successfully (byname fallback): recovered
                        if x.kind == 'RENAME' and on_self_store(x.args[1]):
                            bad = (o, e, x, 'publishes the half-written staging copy over the live object')
                        elif x.kind in ('UNLINK', 'RMTREE') and x.args and on_self_store(x.args[0]) and not same_path(x.args[0], staging_of(evs)) \
                                and not created_here(evs, x.args[0]):
                            bad = (o, e, x, 'removes the live object')
                    break
        # ... and when the publishing rename itself fails (the target exists again: another writer stored the key in between), nothing is removed but the
        # writer's own staging copy
        if bad is None:
            for o in outs:
                evs = o.st.events
                for i, e in enumerate(evs):
                    if e.kind == 'RENAME!' and len(e.args) > 1 and on_self_store(e.args[1]):
                        for x in evs[i + 1:]:
                            if x.kind in ('UNLINK', 'RMTREE') and x.args and on_self_store(x.args[0]) and not same_path(x.args[0], staging_of(evs)) \
                                    and not same_path(x.args[0], e.args[0]) and not created_here(evs, x.args[0]):
                                bad = (o, e, x, 'removes the live object (which, the rename having failed, is what another writer has just stored)')
                        break
        ctx.ob('A-PUBFAIL', '%s.%s (%d encode-failure paths)' % (lab, routine, n), bad is None)
        if bad is not None:
            o, e, x, what = bad
            ctx.fail('A-PUBFAIL', mq(ci, routine), 'failed %s still %s' % ('publish' if e.kind == 'RENAME!' else 'encode', x.kind),
                     'when %s (%s at %s) %s.%s still %s (%s at %s): a failed write destroys what was stored' % (
                         'the publishing rename fails' if e.kind == 'RENAME!' else 'the value cannot be encoded', e.args[-1][1], wh(ci, e.line), lab, routine, what,
                         x.kind, wh(ci, x.line)), wh(ci, x.line), render_path(o))
        if n == 0:
            raise AnalysisError('%s.%s: no encode-failure edge found (may-raise table out of date?)' % (lab, routine))


def created_here(evs, p):
    """the path was created by this very call (a lock directory made with os.mkdir and removed again, a scratch file): removing it removes nothing stored"""
    return any(e.kind in ('MKDIR', 'OPENW') and e.args and same_path(e.args[0], p) for e in evs)


def staging_of(evs):
    for e in evs:
        if e.kind == 'MKDIR' and on_self_store(e.args[0]):
            return e.args[0]
        if e.kind == 'OPENW' and on_self_store(e.args[0]) and e.args[0] != ('state', 'id'):
            return e.args[0]
    return ('opaque', 'nostaging')


def rule_A_TXN(ctx, repo, cache):
    """a single-key SQL operation is one transaction: no commit between two of its DML statements"""
    for ci in archive_classes(repo, ['sqltable_archive[sql]', 'sqltable_archive[!sql]', 'sql_archive[sql]']):
        # a connection opened in autocommit mode commits every statement on its own
        auto = None
        for mname, mfi in ci.methods.items():
            for n in ast.walk(mfi.node):
                if isinstance(n, ast.Call) and isinstance(n.func, ast.Attribute) and n.func.attr == 'connect':
                    for k in n.keywords:
                        if (k.arg == 'isolation_level' and isinstance(k.value, ast.Constant) and k.value.value is None) or \
                                (k.arg == 'autocommit' and isinstance(k.value, ast.Constant) and k.value.value is True):
                            auto = (mname, n.lineno)
        # the connection keeps sqlite's busy timeout (5 s by default): a writer that meets another process between its INSERT and COMMIT waits.  A timeout
        # option whose plumbing hands sqlite 0 when the option is not given (`float(timeout or 0)`) makes every such encounter an immediate
        # "database is locked", and the entry of the second writer is lost
        for mname, mfi in sorted(ci.methods.items()):
            for n in ast.walk(mfi.node):
                if isinstance(n, ast.Call) and isinstance(n.func, ast.Attribute) and n.func.attr == 'connect':
                    for k in n.keywords:
                        if k.arg != 'timeout':
                            continue
                        zero = any(isinstance(y, ast.BoolOp) and isinstance(y.op, ast.Or) and any(isinstance(v_, ast.Constant) and v_.value in (0, 0.0) and v_.value is not False
                                                                                                     for v_ in y.values) for y in ast.walk(k.value)) \
                            or (isinstance(k.value, ast.Constant) and isinstance(k.value.value, (int, float)) and k.value.value < 5)
                        ctx.ob('A-TXN', '%s.%s: connect() keeps a busy timeout when none is configured' % (ci.label, mname), not zero)
                        if zero:
                            ctx.fail('A-TXN', mq(ci, mname), 'busy timeout defaults to %s' % unparse(k.value)[:30],
                                     '%s.%s opens the connection with timeout=%s: when the option is not given sqlite is told not to wait at all (its own default is 5 s), so '
                                     'a writer that arrives while another process is between its INSERT and its COMMIT fails at once with "database is locked" and its entry '
                                     'is not stored' % (ci.label, mname, unparse(k.value)[:40]), wh(ci, n.lineno))
        # an explicit transaction that reads before it writes takes the write lock when it begins: a plain (deferred) BEGIN holds a SHARED lock after the
        # SELECT, and the upgrade at the INSERT fails with SQLITE_BUSY at once - without honouring the busy timeout - when another process wrote meanwhile
        import re as _re
        for mname, mfi in sorted(ci.methods.items()):
            for n in ast.walk(mfi.node):
                if isinstance(n, ast.Constant) and isinstance(n.value, str) and _re.match(r'\s*begin\b', n.value, _re.I):
                    okb = bool(_re.match(r'\s*begin\s+(immediate|exclusive)\b', n.value, _re.I))
                    if not okb:
                        # the upgrade can only fail for a transaction that reads and then writes: a BEGIN that is followed by neither in this routine
                        # (restoring "a transaction is open" after a failed bulk insert) holds no SHARED lock to upgrade
                        later = [y for y in ast.walk(mfi.node) if getattr(y, 'lineno', 0) > n.lineno]
                        reads = any((isinstance(y, ast.Attribute) and 'select' in y.attr.lower()) or
                                    (isinstance(y, ast.Constant) and isinstance(y.value, str) and _re.match(r'\s*select\b', y.value, _re.I)) for y in later)
                        writes = any((isinstance(y, ast.Attribute) and y.attr in ('__setitem__', '__delitem__', 'executemany')) or
                                     (isinstance(y, ast.Constant) and isinstance(y.value, str) and _re.match(r'\s*(insert|update|delete|replace)\b', y.value, _re.I)) for y in later)
                        okb = not (reads and writes)
                    ctx.ob('A-TXN', '%s.%s: `%s` takes the write lock' % (ci.label, mname, n.value.strip()[:30]), okb)
                    if not okb:
                        ctx.fail('A-TXN', mq(ci, mname), 'deferred transaction `%s`' % n.value.strip()[:30],
                                 '%s.%s opens a deferred transaction (`%s`): its first SELECT takes a SHARED lock that the following INSERT must upgrade; if another '
                                 'process has written a different key in between, sqlite reports SQLITE_BUSY immediately (the busy timeout does not apply to a lock '
                                 'upgrade) - the operation raises "database is locked" and its entry is lost, where separate statements would have waited'
                                 % (ci.label, mname, n.value.strip()[:30]), wh(ci, n.lineno))
        for name in ('__setitem__', '__delitem__', 'pop', 'setdefault'):
            fi, outs, eng = cache.outs(ci, name)
            if fi is None:
                continue
            bad = None
            for o in outs:
                evs = o.st.events
                dml = [i for i, e in enumerate(evs) if e.kind == 'SQL' and e.args[0][1] in ('insert', 'update', 'delete')]
                for a, b in zip(dml, dml[1:]):
                    if auto is not None or any(e.kind == 'COMMIT' for e in evs[a + 1:b]):
                        bad = (o, evs[a], evs[b])
            ctx.ob('A-TXN', '%s.%s' % (ci.label, name), bad is None)
            if bad is not None:
                o, e1, e2 = bad
                ctx.fail('A-TXN', mq(ci, name), '%s committed before %s' % (e1.args[0][1], e2.args[0][1]),
                         ('the connection is opened in autocommit mode (%s, line %d), so ' % auto if auto is not None else '') +
                         '%s.%s commits its %s (%s) and then issues a separate %s (%s): a kill or a concurrent reader between the two transactions sees the key '
                         'with neither its old nor its new value' % (ci.label, name, e1.args[0][1], wh(ci, e1.line), e2.args[0][1], wh(ci, e2.line)),
                         wh(ci, e2.line), render_path(o))


def is_whole_file(ci):
    return ci.name in ('file_archive', 'hdf_archive')


def rule_A_KEYERR(ctx, repo, cache):
    classes = [c for c in archive_classes(repo) if c.label in PERSISTENT]
    for ci in classes:
        for op in ('__getitem__', '__delitem__', 'pop', 'popitem'):
            params = None
            key = None
            r0 = cache.outs(ci, op)
            if r0[0] is None:
                continue
            if op == 'pop':
                va = r0[0].node.args.vararg
                if va is not None:
                    params = {va.arg: ('tuple', ())}
                    key = 'nodefault'
            fi, outs, eng = cache.outs(ci, op, params=params, key=key)
            ok = any(o.kind == RAISE and o.exc == 'KeyError' for o in outs)
            ctx.ob('A-KEYERR', '%s.%s' % (ci.label, op), ok)
            if not ok:
                exits = sorted(set('%s %s' % (o.kind, o.exc or '') for o in outs))
                ctx.fail('A-KEYERR', mq(ci, op), 'cannot raise KeyError',
                         '%s.%s can never raise KeyError (exits: %s): a missing key is silently accepted where a dict raises' % (ci.label, op, ', '.join(exits)),
                         wh(ci, fi.node.lineno), render_path(outs[0]) if outs else [])


def _read_terms(t):
    return contains_term(t, lambda x: x[0] == 'ev' and x[1] in ('read', 'sqlres', 'list'))


def _keys_iterations(fnode, keysname):
    """(node, kind, stmt) for every loop / comprehension of fnode that iterates over the keys parameter.
    kind: 'self-nodefault' | 'self-default' | 'local-nodefault' | 'local-default' | 'member-raise' | 'other'"""
    parents = {}
    for n in ast.walk(fnode):
        for ch in ast.iter_child_nodes(n):
            parents[ch] = n
    selfname = fnode.args.args[0].arg if fnode.args.args else 'self'
    vararg = fnode.args.vararg.arg if fnode.args.vararg else None

    def stmt_of(n):
        while n in parents and not isinstance(n, ast.stmt):
            n = parents[n]
        return n

    def classify_body(elts, var):
        kinds = []
        for e in elts:
            for c in ast.walk(e):
                if isinstance(c, ast.Call) and isinstance(c.func, ast.Attribute) and c.func.attr in ('pop', '__delitem__') and c.args \
                        and isinstance(c.args[0], ast.Name) and c.args[0].id == var:
                    recv = c.func.value
                    on_self = isinstance(recv, ast.Name) and recv.id == selfname
                    has_default = len(c.args) > 1 or bool(c.keywords)
                    kinds.append(('self' if on_self else 'local') + ('-default' if has_default and not (len(c.args) == 2 and isinstance(c.args[1], ast.Starred)) else
                                                                   ('-maybe' if has_default else '-nodefault')))
                elif isinstance(c, ast.Delete):
                    for t in c.targets:
                        if isinstance(t, ast.Subscript) and isinstance(t.value, ast.Name):
                            kinds.append(('self' if t.value.id == selfname else 'local') + '-nodefault')
                elif isinstance(c, ast.Subscript) and isinstance(c.ctx, ast.Load) and isinstance(c.slice, ast.Name) and c.slice.id == var \
                        and isinstance(c.value, ast.Name) and c.value.id != selfname:
                    kinds.append('member-raise')     # a lookup, like a presence test, does not consume the key
                elif isinstance(c, ast.Raise) and c.exc is not None and 'KeyError' in unparse(c.exc):
                    kinds.append('member-raise')
        return kinds

    out = []
    for n in ast.walk(fnode):
        gens = []
        if isinstance(n, (ast.ListComp, ast.SetComp, ast.GeneratorExp)):
            gens = [(g, [n.elt]) for g in n.generators]
        elif isinstance(n, ast.DictComp):
            gens = [(g, [n.key, n.value]) for g in n.generators]
        elif isinstance(n, ast.For):
            gens = [(n, n.body)]
        for g, body in gens:
            it = g.iter
            if not (isinstance(it, ast.Name) and it.id == keysname):
                continue
            tgt = g.target
            if not isinstance(tgt, ast.Name):
                continue
            kinds = classify_body(body, tgt.id) or ['other']
            # `pop(k, *value)`: a default is present exactly when the enclosing branch established that value is non-empty
            st = stmt_of(n)
            guarded = False
            cur = st
            while cur in parents:
                par = parents[cur]
                if isinstance(par, ast.If) and cur in par.body and vararg and vararg in [x.id for x in ast.walk(par.test) if isinstance(x, ast.Name)]:
                    guarded = True
                cur = par
            kinds = [k.replace('-maybe', '-default' if guarded else '-nodefault') for k in kinds]
            out.append((n, kinds, st))
    return out, parents


def _precedes(a, b, parents, vararg=None):
    """statement a is executed before statement b on every path reaching b (a is an earlier sibling of b or of one of b's ancestors)"""
    cur = b
    while cur in parents:
        par = parents[cur]
        for field in ('body', 'orelse', 'finalbody'):
            blk = getattr(par, field, None)
            if isinstance(blk, list) and cur in blk:
                i = blk.index(cur)
                if a in blk[:i]:
                    return True
                # ... or sits in the branch of an earlier `if not len(value):` / `if not value:` (the no-default case, the only one that can fail)
                for e in blk[:i]:
                    if isinstance(e, ast.If) and vararg and vararg in [x.id for x in ast.walk(e.test) if isinstance(x, ast.Name)] \
                            and any(x is a for blk2 in (e.body, e.orelse) for y in blk2 for x in ast.walk(y)):
                        return True
        cur = par
    return False


def rule_A_POPKEYS(ctx, repo):
    """A-POPKEYS (failure atomicity of the one multi-key mutator): popkeys without a default either removes all requested keys or raises KeyError
    and removes none.  Every loop that pops the requested keys from the archive itself without a default is preceded by a dry run over the same keys
    on a copy (or a presence test that raises), so a missing key is reported before anything was removed."""
    owners = []
    ab = repo.mod('_abc').classes.get('archive')
    if ab is not None and 'popkeys' in ab.methods:
        owners.append(ab)
    m = repo.mod('_archives')
    for ci in m.classes.values():
        if 'popkeys' in getattr(ci, 'own_methods', ci.methods):
            owners.append(ci)
    n = 0
    for ci in owners:
        fi = (getattr(ci, 'own_methods', None) or ci.methods)['popkeys']
        fnode = fi.node
        a = fnode.args
        if len(a.args) < 2:
            continue
        n += 1
        its, parents = _keys_iterations(fnode, a.args[1].arg)
        vararg = a.vararg.arg if a.vararg else None
        # the dry run removes each requested key from a copy: a presence test alone accepts a key that is listed twice, and the second removal then fails
        # after the first one happened
        validators = [st for (_, kinds, st) in its if 'local-nodefault' in kinds]
        weak = [st for (_, kinds, st) in its if 'member-raise' in kinds and 'local-nodefault' not in kinds]
        # a call of a helper on the keys (self._check(keys)) before the loop is taken as validation (not analysed further)
        helpers = [x for x in ast.walk(fnode) if isinstance(x, ast.Expr) and isinstance(x.value, ast.Call)
                   and any(isinstance(y, ast.Name) and y.id == a.args[1].arg for y in x.value.args)]
        for node, kinds, st in its:
            if 'self-nodefault' not in kinds:
                continue
            ok = any(_precedes(v, st, parents, vararg) for v in validators + helpers if v is not st)
            ctx.ob('A-POPKEYS', '%s.popkeys: removal loop at line %d has a dry run before it' % (ci.label, node.lineno), ok)
            if not ok:
                only_weak = any(_precedes(v, st, parents, vararg) for v in weak if v is not st)
                ctx.fail('A-POPKEYS', mq(ci, 'popkeys'), 'presence test instead of a dry run' if only_weak else 'removes keys one by one with no dry run',
                         '%s.popkeys pops the requested keys from the archive itself, without a default, in a loop that no validation of the whole request '
                         'precedes: when a later key is missing (or a key is listed twice) KeyError is raised after the earlier keys were already removed - a failed '
                         'operation changes the contents' % ci.label, wh(ci, node.lineno))
        ctx.ob('A-POPKEYS', '%s.popkeys examined (%d iterations over the keys)' % (ci.label, len(its)), True)
    if n < 5:
        raise AnalysisError('instance count below confirmed minimum: %d popkeys implementations (< 5)' % n)


def _ret_modules(fnode, imports, resolve, depth=0):
    """per result position, the serializer modules a helper may return (`return json, 'r'` / `return json if ... else dill`)"""
    pos = {}
    for n in ast.walk(fnode):
        if not isinstance(n, ast.Return) or n.value is None:
            continue
        vals = n.value.elts if isinstance(n.value, ast.Tuple) else [n.value]
        for i, v in enumerate(vals):
            for x in ([v.body, v.orelse] if isinstance(v, ast.IfExp) else [v]):
                if isinstance(x, ast.Name) and x.id in imports:
                    pos.setdefault(i, set()).add(imports[x.id])
                elif isinstance(x, ast.Call) and depth < 2:
                    h = resolve(x)
                    if h is not None:
                        for k, ms in _ret_modules(h, imports, resolve, depth + 1).items():
                            if k == 0:
                                pos.setdefault(i, set()).update(ms)
    return pos


def _serializer_modules(fnode, imports, resolve=lambda call: None):
    """{'read': {module: line}, 'write': {module: line}} for the X.load(s) / X.dump(s) calls of one function; X is an imported module, a local bound to
    one, or what a helper of the module / class returns"""
    local = {}

    def of_expr(x):
        out = set()
        for y in ([x.body, x.orelse] if isinstance(x, ast.IfExp) else [x]):
            if isinstance(y, ast.Name) and y.id in imports and y.id not in local:
                out.add(imports[y.id])
            elif isinstance(y, ast.Name) and y.id in local:
                out |= local[y.id]
            elif isinstance(y, ast.Call):
                h = resolve(y)
                if h is not None:
                    out |= _ret_modules(h, imports, resolve).get(0, set())
        return out

    def bind(t, v):
        if isinstance(t, ast.Name):
            local.setdefault(t.id, set()).update(of_expr(v))
        elif isinstance(t, (ast.Tuple, ast.List)) and isinstance(v, (ast.Tuple, ast.List)) and len(t.elts) == len(v.elts):
            for a, b in zip(t.elts, v.elts):
                bind(a, b)
        elif isinstance(t, (ast.Tuple, ast.List)) and isinstance(v, ast.Call):
            h = resolve(v)
            if h is not None:
                pos = _ret_modules(h, imports, resolve)
                for i, a in enumerate(t.elts):
                    if isinstance(a, ast.Name):
                        local.setdefault(a.id, set()).update(pos.get(i, set()))
        elif isinstance(v, ast.Subscript) and isinstance(v.value, ast.Call):
            # helper()[:2] / helper()[0]
            h = resolve(v.value)
            if h is not None:
                pos = _ret_modules(h, imports, resolve)
                sl = v.slice
                if isinstance(sl, ast.Slice) and (sl.lower is None or isinstance(sl.lower, ast.Constant)) and isinstance(t, (ast.Tuple, ast.List)):
                    off = sl.lower.value if sl.lower is not None else 0
                    for i, a in enumerate(t.elts):
                        if isinstance(a, ast.Name):
                            local.setdefault(a.id, set()).update(pos.get(i + off, set()))
                elif isinstance(sl, ast.Constant) and isinstance(sl.value, int) and isinstance(t, ast.Name):
                    local.setdefault(t.id, set()).update(pos.get(sl.value, set()))
    assigns = sorted([n for n in ast.walk(fnode) if isinstance(n, ast.Assign)], key=lambda n: n.lineno)
    for n in assigns:
        for t in n.targets:
            bind(t, n.value)
    out = {'read': {}, 'write': {}}
    for n in ast.walk(fnode):
        if isinstance(n, ast.Call) and isinstance(n.func, ast.Attribute) and n.func.attr in ('load', 'loads', 'dump', 'dumps'):
            R = n.func.value
            if isinstance(R, ast.Name) and R.id in local:
                mods = local[R.id]
            else:
                mods = of_expr(R) if isinstance(R, (ast.Name, ast.Call, ast.IfExp)) else set()
            if not mods:
                continue
            side = 'read' if n.func.attr.startswith('load') else 'write'
            for mname in mods:
                out[side].setdefault(mname.lstrip('.').split('.')[-1], n.lineno)
    return out


def rule_A_CODEC(ctx, repo):
    """A-CODEC (reader and writer agree): within one archive class, the serializer modules whose load/loads decode the stored bytes are the ones whose
    dump/dumps encoded them.  dill writes pickles that only dill can read back (functions, lambdas and classes of __main__ by value), json text is not a
    pickle: a reader from another family fails - and the archives turn a failed read into "no entry" / an empty archive."""
    m = repo.mod('_archives')
    n = 0
    for ci in archive_classes(repo):
        rd, wr = {}, {}
        def resolve(call, ci=ci):
            f = call.func
            if isinstance(f, ast.Name) and f.id in m.functions:
                return m.functions[f.id].node
            if isinstance(f, ast.Attribute) and isinstance(f.value, ast.Name) and f.value.id == 'self' and f.attr in ci.methods:
                return ci.methods[f.attr].node
            return None
        for name, fi in ci.methods.items():
            sm = _serializer_modules(fi.node, m.imports, resolve)
            for k, ln in sm['read'].items():
                rd.setdefault(k, (name, ln))
            for k, ln in sm['write'].items():
                wr.setdefault(k, (name, ln))
        if not rd or not wr:
            continue
        n += 1
        ok = set(rd) == set(wr)
        ctx.ob('A-CODEC', '%s: readers {%s} = writers {%s}' % (ci.label, ', '.join(sorted(rd)), ', '.join(sorted(wr))), ok)
        if not ok:
            odd = sorted(set(rd) ^ set(wr))
            src = rd.get(odd[0]) or wr.get(odd[0])
            ctx.fail('A-CODEC', mq(ci, src[0]), 'reads with {%s}, writes with {%s}' % (', '.join(sorted(rd)), ', '.join(sorted(wr))),
                     '%s decodes stored entries with %s but encodes them with %s: what one module writes the other cannot always read (dill pickles functions, lambdas '
                     'and classes of __main__ by value, which only dill can load) - the read fails, the archive reports the entry as missing or itself as empty, and the '
                     'next write makes the loss permanent' % (ci.label, ', '.join(sorted(rd)), ', '.join(sorted(wr))), wh(ci, src[1]))
    if n < 2:
        raise AnalysisError('instance count below confirmed minimum: %d archive classes with serializer calls on both sides (< 2)' % n)
    if n < 3:
        ctx.note('A-CODEC: only %d archive classes name their serializer modules at the call sites (three on the validated tree): a class that keeps its '
                 'serializer in an attribute is not compared here' % n)
    # ... and the source-text format (serialized=False: `memo = <repr>` / getimportable) is read back by evaluating python source: import, exec or eval.
    # ast.literal_eval accepts literals only, repr() writes constructor calls for everything else (range, frozenset, bytearray, any user class) - one such
    # value makes the whole document unreadable, the bare excepts report "empty", and the next write drops every other entry
    nlit = 0
    for ci in archive_classes(repo):
        for name, fi in sorted(ci.methods.items()):
            for x in ast.walk(fi.node):
                if isinstance(x, ast.Call) and ((isinstance(x.func, ast.Name) and x.func.id == 'literal_eval') or (isinstance(x.func, ast.Attribute) and x.func.attr == 'literal_eval')):
                    nlit += 1
                    ctx.ob('A-CODEC', '%s.%s: source text is evaluated, not literal_eval-ed' % (ci.label, name), False)
                    ctx.fail('A-CODEC', mq(ci, name), 'literal_eval reads what repr wrote',
                             '%s.%s reads the unserialised format with ast.literal_eval while the writers store repr(value) / an import line: repr of anything but a literal '
                             '(range(2, 5), frozenset({1}), bytearray(b"x"), an instance) is a constructor call that literal_eval rejects - the reader fails for the whole '
                             'document, the failure is reported as an empty archive / a missing key, and the next write removes the entries that were there'
                             % (ci.label, name), wh(ci, x.lineno))
    ctx.ob('A-CODEC', 'archive methods reading source text with literal_eval', nlit == 0)
    # ... and values are pickled *by value*: byref=True (or a by-reference pickler) writes classes and functions of the writer's __main__ as names another
    # program cannot resolve - the read fails there and the archive looks empty
    for ci in archive_classes(repo):
        for name, fi in ci.methods.items():
            for x in ast.walk(fi.node):
                hit = None
                if isinstance(x, ast.keyword) and x.arg == 'byref' and isinstance(x.value, ast.Constant) and x.value.value is True:
                    hit = x.value
                elif isinstance(x, ast.Dict):
                    for k, v in zip(x.keys, x.values):
                        if isinstance(k, ast.Constant) and k.value == 'byref' and isinstance(v, ast.Constant) and v.value is True:
                            hit = v
                if hit is not None:
                    ctx.ob('A-CODEC', None, False)
                    ctx.fail('A-CODEC', mq(ci, name), 'values pickled with byref=True',
                             '%s.%s hands byref=True to the serializer: dill then writes classes (and functions) defined in the writer\'s __main__ by reference, as a name '
                             'only that program can resolve.  A fresh handle in another program cannot unpickle the entry; the archives turn the failure into a missing entry / '
                             'an empty archive, and the next write makes the loss permanent' % (ci.label, name), wh(ci, hit.lineno))


def rule_A_WRITEALL(ctx, repo, cache):
    """A-WRITEALL (every assignment is written): on a path of update / __setitem__ / setdefault-of-a-missing-key that handled an item (ran an
    iteration of its loop over the input) and on which no primitive failed, the store was written.  Skipping the write because the entry "already holds
    that value" compares by ==, under which 1, 1.0 and True are one value and under which a missing key read as None equals a stored None: the dict
    the archive refines would hold the new object."""
    n = 0
    for ci in archive_classes(repo, PERSISTENT):
        for op in ('update', '__setitem__'):
            r = cache.outs(ci, op)
            if r[0] is None:
                continue
            fi, outs, eng = r
            bad = None
            for o in outs:
                if o.kind != RETURN or not clean_path(o):
                    continue
                if op == 'update' and not any(e.loop for e in o.st.events):
                    continue          # nothing to write
                eff = [c for e, c in effects(o)]
                if not any(c in ('write', 'rename') for c in eff):
                    bad = o
                    break
            n += 1
            ctx.ob('A-WRITEALL', '%s.%s' % (ci.label, op), bad is None)
            if bad is not None:
                ctx.fail('A-WRITEALL', mq(ci, op), 'an item is handled without a write',
                         '%s.%s returns normally on a path that handled an item of its input but never wrote the store: the assignment is skipped under some condition on '
                         'what is stored already (a missing key read as None "equals" a new value None; 1 == 1.0 == True), so afterwards the archive does not hold what a '
                         'dict would hold - a cache that dumps such an entry loses it' % (ci.label, op), wh(ci, bad.line or fi.node.lineno), render_path(bad))
    if n < 8:
        raise AnalysisError('instance count below confirmed minimum: %d writers examined (< 8)' % n)


READFAIL_OPS = ('__getitem__', 'get', '__contains__', '__len__', '__iter__', 'keys', 'items', 'values', '__asdict__', 'pop', '__setitem__', 'update', '__delitem__',
                'setdefault', 'popitem', 'clear', 'copy')
READFAIL_EXEMPT = {'hdf_archive[hdf]': 'h5py raises OSError / KeyError of its own for a missing file or dataset; the class cannot be exercised here (h5py is not installed), '
                                       'so today\'s escaping read failures in __contains__ / __len__ are neither confirmed as a defect nor taken as the reference'}


def rule_A_READFAIL(ctx, repo, cache):
    """A-READFAIL (a store that cannot be decoded is an empty / missing entry, not a crash): when the primitive that reads and decodes the store fails
    (truncated file, empty file, text that is not JSON, a pickle of a class that no longer imports), no mapping operation lets that failure escape as
    anything but KeyError - the archives turn it into "no such entry" / "empty archive", as a dict that holds nothing would answer."""
    n = 0
    for ci in archive_classes(repo, PERSISTENT):
        if ci.label in READFAIL_EXEMPT:
            ctx.note('A-READFAIL not applied to %s: %s' % (ci.label, READFAIL_EXEMPT[ci.label]))
            continue
        for op in READFAIL_OPS:
            r = cache.outs(ci, op)
            if r[0] is None:
                continue
            fi, outs, eng = r
            bad = None
            for o in outs:
                # (membership is a question, not a lookup: `key in archive` answers False for what cannot be read - a KeyError there fails the reader that
                # merely asked while another process was replacing the entry)
                if o.kind != RAISE or (o.exc == 'KeyError' and op != '__contains__'):
                    continue
                failed = [e for e in o.st.events if e.kind.endswith('!')]
                # ... whether it escapes as it is or is caught and re-raised as something else (`except Exception as err: raise OSError(...) from err`)
                if failed and failed[-1].kind == 'READ!':
                    bad = (o, failed[-1])
                    break
            n += 1
            ctx.ob('A-READFAIL', '%s.%s' % (ci.label, op), bad is None)
            if bad is not None:
                o, e = bad
                ctx.fail('A-READFAIL', mq(ci, op), 'decode failure escapes as %s' % o.exc,
                         '%s.%s lets a failure of the read-and-decode step (%s) escape as %s: an existing but empty or damaged store (a zero-byte file under '
                         'protocol=\'json\', a truncated pickle) makes every mapping operation raise, where the archive used to behave as an empty dict / a missing key'
                         % (ci.label, op, wh(ci, e.line), o.exc), wh(ci, e.line), render_path(o))
    if n < 20:
        raise AnalysisError('instance count below confirmed minimum: %d mapping operations examined for escaping read failures (< 20)' % n)


def rule_A_RED_MEM(ctx, repo):
    """A-RED (in-memory archives): the contents of a dict_archive are the dict itself.  Default pickling of a dict subclass carries the items; a
    __reduce__ (own or inherited from the archive base class) that rebuilds the object through its constructor and restores only the settings drops them -
    a cached function backed by a dict_archive is cloned with an empty archive and recomputes what the original loads."""
    m = repo.mod('_archives')
    n = 0
    for lab in ('dict_archive',):
        ci = m.classes.get(lab)
        if ci is None:
            raise AnalysisError('anchor vanished: _archives.%s' % lab)
        n += 1
        hooks = [h for h in ('__reduce__', '__reduce_ex__', '__getstate__') if h in ci.methods]
        bad = None
        for h in hooks:
            fn = ci.methods[h].node
            src = unparse(fn)
            carries = any(tok in src for tok in ('self.items()', 'dict(self)', 'self.__asdict__()', 'iter(self.items())', 'self.copy()', 'dict.items(self)', 'dict.copy(self)'))
            if not carries:
                bad = (h, fn)
        ctx.ob('A-RED', '%s: pickling carries the items' % lab, bad is None)
        if bad is not None:
            h, fn = bad
            ctx.fail('A-RED', mq(ci, h), 'in-memory archive pickled without its contents',
                     '%s resolves %s to a method that rebuilds the archive from its class and settings only (%s): the entries, which live in the dict itself, '
                     'are not part of the pickle - the clone of a cached function starts with an empty archive and recomputes what the original loads'
                     % (lab, h, ' '.join(unparse(fn).split())[:90]), '%s:%d' % (ci.methods[h].module.rel if hasattr(ci.methods[h], 'module') else m.rel, fn.lineno))
    # default pickling of a dict subclass replays the items through the class's own __setitem__ BEFORE the instance __dict__ (and with it __state__) is
    # restored: a writer of dict_archive that reads instance state (a read-only flag, a name) raises AttributeError while a non-empty archive is unpickled
    ci = m.classes.get('dict_archive')
    own = (ci.own_methods if hasattr(ci, 'own_methods') else ci.methods) if ci is not None else {}
    if ci is not None and not any(h in ci.methods for h in ('__reduce__', '__reduce_ex__')):
        for w in ('__setitem__', 'update', 'setdefault'):
            fi_ = own.get(w)
            if fi_ is None:
                continue
            selfn = fi_.node.args.args[0].arg
            reach = [fi_.node] + [ci.methods[c.func.attr].node for c in ast.walk(fi_.node) if isinstance(c, ast.Call) and isinstance(c.func, ast.Attribute)
                                  and isinstance(c.func.value, ast.Name) and c.func.value.id == selfn and c.func.attr in ci.methods and c.func.attr != w]
            reads = [y for r_ in reach for y in ast.walk(r_) if isinstance(y, ast.Attribute) and isinstance(y.value, ast.Name) and y.value.id == r_.args.args[0].arg
                     and y.attr in ('__state__', '__dict__', 'name', 'state')]
            n += 1
            ctx.ob('A-RED', 'dict_archive.%s reads no instance state (it runs before the state is restored on unpickling)' % w, not reads)
            if reads and w == '__setitem__':
                ctx.fail('A-RED', mq(ci, w), 'item writer reads instance state',
                         'dict_archive.%s reads `self.%s`: dict_archive pickles by the default protocol for dict subclasses, which re-inserts the items through this '
                         'method before the instance attributes exist - unpickling a non-empty in-memory archive (and every cached function that holds one) raises '
                         'AttributeError' % (w, reads[0].attr), '%s:%d' % (m.rel, reads[0].lineno))
    # the sqlite archives default to the database ':memory:', which lives in the connection: a pickling hook that "reconnects" by (database, table) opens
    # a new, empty in-memory database for the clone.  (Today they define no hook and cannot be pickled at all - a loud TypeError, not a silent loss.)
    for lab in ('sqltable_archive[!sql]', 'sql_archive[!sql]'):
        ci = m.classes.get(lab)
        if ci is None:
            continue
        n += 1
        own = ci.own_methods if hasattr(ci, 'own_methods') else ci.methods
        hooks = [h for h in ('__reduce__', '__reduce_ex__', '__getstate__') if h in own]
        bad = None
        for h in hooks:
            src = unparse(own[h].node)
            carries = any(tok in src for tok in ('self.items()', 'dict(self)', 'self.__asdict__()', 'self.copy()')) or ':memory:' in src
            # ... or the hook decides on the live database and leaves the case without a file to the default protocol (today's loud TypeError) / raises
            for node in ast.walk(own[h].node):
                if isinstance(node, ast.If):
                    for st in node.body + node.orelse:
                        if isinstance(st, ast.Raise):
                            carries = True
                        if isinstance(st, ast.Return) and isinstance(st.value, ast.Call) and isinstance(st.value.func, ast.Attribute) \
                                and st.value.func.attr in ('__reduce_ex__', '__reduce__') and not (isinstance(st.value.func.value, ast.Name) and st.value.func.value.id == 'self'):
                            carries = True
            if not carries:
                bad = h
        ctx.ob('A-RED', '%s: a pickling hook accounts for the in-memory database' % lab, bad is None)
        if bad is not None:
            ctx.fail('A-RED', mq(ci, bad), 'sqlite archive pickled by reconnecting',
                     '%s.%s rebuilds the archive from the database url and table name: for the default database `:memory:` (and any sqlite memory url) the clone connects '
                     'to a brand-new empty database - every archived entry is lost to the restored function, which recomputes what the original loads' % (lab, bad),
                     wh(ci, own[bad].node.lineno))
    ctx.ob('A-RED', 'in-memory archive classes examined', True, n=max(1, n))


SQL_AFFINITY = ('text', 'char', 'clob', 'int', 'integer', 'real', 'floa', 'doub', 'numeric', 'decimal', 'bool', 'blob', 'date', 'varchar')


def rule_A_SCHEMA(ctx, repo):
    """A-SCHEMA: the sqlite table that backs an archive declares its columns without a type.  A declared type gives the column an *affinity*: with TEXT
    affinity sqlite converts an integer key to its decimal string when the row is written and when a parameter is compared with the column, so the keys
    7 and '7' become one row - a cached call with one is answered with the result of the other; typeless columns store every value under its own type."""
    import re
    m = repo.mod('_archives')
    n = 0
    # string operands of `"create table ... %s%s" % (table, self._columns)`: a column list kept in a class attribute / module constant is part of the statement
    class_strs = {}
    for ci_ in m.classes.values():
        for k_, v_ in ci_.attrs.items():
            if isinstance(v_, ast.Constant) and isinstance(v_.value, str):
                class_strs.setdefault(k_, v_.value)
    fmt_extra = {}
    for node in ast.walk(m.tree):
        if isinstance(node, ast.BinOp) and isinstance(node.op, ast.Mod) and isinstance(node.left, ast.Constant) and isinstance(node.left.value, str):
            ops = node.right.elts if isinstance(node.right, ast.Tuple) else [node.right]
            extra = []
            for o_ in ops:
                if isinstance(o_, ast.Attribute) and o_.attr in class_strs:
                    extra.append(class_strs[o_.attr])
                elif isinstance(o_, ast.Name) and isinstance(m.consts.get(o_.id), ast.Constant) and isinstance(m.consts[o_.id].value, str):
                    extra.append(m.consts[o_.id].value)
                elif isinstance(o_, ast.Constant) and isinstance(o_.value, str):
                    extra.append(o_.value)
            fmt_extra[id(node.left)] = ' '.join(extra)
    for node in ast.walk(m.tree):
        if not (isinstance(node, ast.Constant) and isinstance(node.value, str)):
            continue
        txt = node.value
        if re.search(r'create\s+table\b', txt, re.I) and not re.search(r'create\s+table\b[^()]*\(([^()]*)\)', txt, re.I):
            txt = txt + ' ' + fmt_extra.get(id(node), '')
        mt = re.search(r'create\s+table\b[^()]*\(([^()]*)\)', txt, re.I)
        if not mt:
            continue
        n += 1
        typed = []
        for col in mt.group(1).split(','):
            toks = col.strip().lower().split()
            if any(any(tok.startswith(a) for a in SQL_AFFINITY) for tok in toks[1:]):
                typed.append(col.strip())
        ctx.ob('A-SCHEMA', '%s:%d %s' % (m.rel, node.lineno, ' '.join(txt.split())[:50]), not typed)
        if typed:
            ctx.fail('A-SCHEMA', '%s:%d' % (m.rel, node.lineno), 'typed column %s' % typed[0][:30],
                     'the table is created with the typed column `%s`: the column\'s affinity makes sqlite convert keys (or values) of another type on the way in and '
                     'in comparisons - an int key and the str of its digits become the same row, so a cached call with one of them is answered with the other\'s '
                     'result; klepto\'s own columns are typeless for that reason' % typed[0], '%s:%d' % (m.rel, node.lineno))
    # the sqlite archive keeps every value ever written for a key and reads "the last row" of an unordered SELECT: that is the insertion order only as
    # long as the table is scanned by rowid - an index that covers the query makes sqlite return the rows in index (value) order
    for node in ast.walk(m.tree):
        if isinstance(node, ast.Constant) and isinstance(node.value, str) and re.search(r'create\s+(unique\s+)?index\b', node.value, re.I):
            ctx.ob('A-SCHEMA', '%s:%d no index on the archive table' % (m.rel, node.lineno), False)
            ctx.fail('A-SCHEMA', '%s:%d' % (m.rel, node.lineno), 'index on the archive table',
                     'an index is created on the archive table (`%s`): lookups by key take "the last row" of an unordered SELECT as the current value, which is the '
                     'most recently written one only while rows come back in rowid order; through a covering index they come back ordered by value, so a key that '
                     'was overwritten reads back an older (larger) value' % ' '.join(node.value.split())[:60], '%s:%d' % (m.rel, node.lineno))
    # ... and for the same reason a reader takes the *last* row of what a key selects: cursor.fetchone() is the first, i.e. the oldest value ever stored
    ci_sq = m.classes.get('sqltable_archive[!sql]')
    if ci_sq is not None:
        for mname, fi_ in sorted((ci_sq.own_methods if hasattr(ci_sq, 'own_methods') else ci_sq.methods).items()):
            for x in ast.walk(fi_.node):
                if isinstance(x, ast.Call) and isinstance(x.func, ast.Attribute) and x.func.attr == 'fetchone':
                    ctx.ob('A-SCHEMA', '%s.%s takes the last row' % (ci_sq.label, mname), False)
                    ctx.fail('A-SCHEMA', mq(ci_sq, mname), 'fetchone() on the history table',
                             '%s.%s reads a key with fetchone(): on a table that keeps every value ever written for a key (every table created before a "one row per '
                             'key" schema, since `create table if not exists` never changes an existing table) that is the oldest value - an overwritten entry reads back stale '
                             'while __asdict__ / load() see the new one' % (ci_sq.label, mname), wh(ci_sq, x.lineno))
    if n < 1:
        raise AnalysisError('instance count below confirmed minimum: no `create table` statement found in klepto/_archives.py')


def rule_A_PUBPARENTS(ctx, repo, cache):
    """A-PUB (nested entry names): the name of a directory entry is the text of the key, and a key may contain the path separator (path-like arguments
    under the string keymap): the entry is then a nested directory.  The publishing rename therefore creates the missing parents of its target -
    os.renames does; os.replace / os.rename do not, fail with FileNotFoundError, and _store swallows OSError: the store is silently dropped."""
    for lab in ('dir_archive', 'hdfdir_archive[hdf]'):
        ci = archive_classes(repo, [lab])[0]
        routine = STORE_ROUTINES.get(lab, '_store')
        fi, outs, eng = cache.outs(ci, routine)
        bad = None
        n = 0
        for o in outs:
            evs = o.st.events
            for i, e in enumerate(evs):
                if e.kind != 'RENAME' or len(e.args) < 3 or not on_self_store(e.args[1]):
                    continue
                n += 1
                via = e.args[2][1] if is_const(e.args[2]) else ''
                made = any(x.kind in ('MKDIR', 'MKDIRS') and x.args and contains_term(x.args[0], lambda t: t[0] == 'call' and t[1] == ('lib', 'os.path.dirname'))
                           for x in evs[:i])
                if via not in ('os.renames', 'shutil.move') and not made:
                    bad = (o, e, via)
        ctx.ob('A-PUB', '%s.%s: the publishing rename creates missing parents (%d rename sites)' % (lab, routine, n), bad is None)
        if bad is not None:
            o, e, via = bad
            ctx.fail('A-PUB', mq(ci, routine), 'published with %s' % via,
                     '%s.%s moves the staged entry into place with %s, which does not create intermediate directories: for a key whose text contains the path '
                     'separator (e.g. the string key of a path-like argument) the target\'s parent does not exist, the rename raises FileNotFoundError, and the '
                     'enclosing `except OSError` swallows it - the entry is silently not stored (and re-evaluated later)' % (lab, routine, via), wh(ci, e.line),
                     render_path(o))


def rule_A_GETKEY(ctx, repo):
    """A-FNAME (inverse): a directory entry is named PREFIX + name(key); the lister recovers the key from the entry name by taking the prefix off - exactly
    once and as a string: a slice of len(PREFIX), str.removeprefix, or split(PREFIX, 1)[1].  str.lstrip(PREFIX) strips a *set of characters* (the key
    'Kelvin' is listed as 'elvin', '_private' as 'private'), split(PREFIX)[-1] cuts at the last occurrence ('TASK_1' -> '1'), replace removes them all."""
    m = repo.mod('_archives')
    pre = m.consts.get('PREFIX')
    plen = len(pre.value) if isinstance(pre, ast.Constant) and isinstance(pre.value, str) else None
    n = 0
    for lab in ('dir_archive', 'hdfdir_archive[hdf]'):
        ci = m.classes.get(lab)
        if ci is None or '_getkey' not in ci.methods:
            raise AnalysisError('anchor vanished: %s._getkey' % lab)
        fn = ci.methods['_getkey'].node
        n += 1
        bad = None
        for x in ast.walk(fn):
            if isinstance(x, ast.Call) and isinstance(x.func, ast.Attribute):
                if x.func.attr in ('lstrip', 'strip', 'rstrip') and x.args:
                    bad = (x, '%s() strips any run of the characters of its argument, not the prefix' % x.func.attr)
                elif x.func.attr == 'replace' and x.args and isinstance(x.args[0], ast.Name) and x.args[0].id == 'PREFIX':
                    bad = (x, 'replace() removes every occurrence of the prefix inside the key as well')
                elif x.func.attr in ('split', 'rsplit') and x.args and isinstance(x.args[0], ast.Name) and x.args[0].id == 'PREFIX' and len(x.args) < 2 and not x.keywords:
                    bad = (x, 'split(PREFIX) without maxsplit cuts at every occurrence of the prefix inside the key')
                elif x.func.attr == 'partition' and False:
                    pass
            elif isinstance(x, ast.Subscript) and isinstance(x.slice, ast.Slice) and isinstance(x.slice.lower, ast.Constant) and isinstance(x.slice.lower.value, int) \
                    and plen is not None and x.slice.upper is None and x.slice.lower.value != plen:
                bad = (x, 'the slice [%d:] does not take off exactly the %d characters of PREFIX' % (x.slice.lower.value, plen))
        ctx.ob('A-FNAME', '%s._getkey takes the prefix off exactly once' % lab, bad is None)
        if bad is not None:
            x, why = bad
            ctx.fail('A-FNAME', mq(ci, '_getkey'), 'key recovered with %s' % ' '.join(unparse(x).split())[:40],
                     '%s._getkey recovers the key from the entry name with `%s`: %s - keys(), items(), values(), ==, popitem() and load() report a key that was never '
                     'stored (or raise KeyError for it) while lookups by key still work' % (lab, ' '.join(unparse(x).split())[:60], why), '%s:%d' % (m.rel, x.lineno))
    ctx.ob('A-FNAME', '_getkey implementations examined', True, n=n)


def rule_A_COPYTREE(ctx, repo):
    """A-COPY (a copy is a copy): copy(name) of a directory archive creates the target; it does not merge into a directory that is already there.
    shutil.copytree(..., dirs_exist_ok=True) overlays the source on an existing archive: the entries that archive already had (and stale key files inside
    entries of the same name) survive, so the copy is not equal to the original."""
    m = repo.mod('_archives')
    n = 0
    for node in ast.walk(m.tree):
        if isinstance(node, ast.Call) and ((isinstance(node.func, ast.Attribute) and node.func.attr == 'copytree') or (isinstance(node.func, ast.Name) and node.func.id == 'copytree')):
            n += 1
            bad = [k for k in node.keywords if k.arg == 'dirs_exist_ok' and not (isinstance(k.value, ast.Constant) and k.value.value is False)]
            ctx.ob('A-COPY', '%s:%d copytree creates its target' % (m.rel, node.lineno), not bad)
            if bad:
                ctx.fail('A-COPY', '%s:%d' % (m.rel, node.lineno), 'copytree merges into an existing directory',
                         'copy(name) copies the archive directory with dirs_exist_ok=True: when an archive already lives at `name` the two are merged - the copy also '
                         'holds the other archive\'s entries (and, inside entries of the same name, its stale key files), so it is not equal to the original',
                         '%s:%d' % (m.rel, node.lineno))
    ctx.ob('A-COPY', 'copytree calls examined', True, n=max(1, n))


def rule_A_COPY_NODESTROY(ctx, repo, cache):
    """A-COPY (copying destroys nothing): copy(name) reads the source and creates / overwrites the target; it never *removes* a tree.  A copy that clears
    the way first (`rmtree(target)`) erases the archive itself when the target is the source under another spelling (d.copy(d.name), a relative path, a
    symlink) - and then has nothing left to copy."""
    n = 0
    for ci in archive_classes(repo, PERSISTENT):
        if 'copy' not in ci.methods:
            continue
        fi, outs, eng = cache.outs(ci, 'copy')
        bad = None
        for o in outs:
            for e, c in effects(o, own=lambda t: True):
                if c in ('remove', 'clearall'):
                    bad = (o, e)
                    break
            if bad:
                break
        n += 1
        ctx.ob('A-COPY', '%s.copy removes nothing' % ci.label, bad is None)
        if bad is not None:
            o, e = bad
            ctx.fail('A-COPY', mq(ci, 'copy'), 'copy() removes a tree',
                     '%s.copy() performs %s: when the given name resolves to the archive\'s own location (its path, an unnormalised spelling of it, the name it already '
                     'has) the archive is erased before it is copied, and every entry is lost; today the call fails (or copies onto itself) and leaves the archive intact'
                     % (ci.label, render(e.args[0])[:60] if e.args else e.kind), wh(ci, e.line), render_path(o))
    if n < 2:
        raise AnalysisError('A-COPY: fewer than two persistent archive classes with a copy() method')


def rule_A_NAMEDHANDLE(ctx, repo):
    """A-PUB (named handles): a file opened for writing and bound to a name stays open until that name dies - the end of the function.  If the function
    publishes the file by a rename before that, the rename happens while data may still sit in the write buffer: a kill right after it leaves a truncated
    (for klepto: empty-reading) live object.  `with open(...)`, an explicit close() before the rename, or the anonymous `open(p,'wb').write(x)` (closed when
    the statement ends) are the accepted forms."""
    m = repo.mod('_archives')
    n = 0
    for ci in archive_classes(repo, PERSISTENT):
        for name, fi in ci.methods.items():
            fn = fi.node
            opens = [x for x in ast.walk(fn) if isinstance(x, ast.Assign) and len(x.targets) == 1 and isinstance(x.targets[0], ast.Name) and isinstance(x.value, ast.Call)
                     and isinstance(x.value.func, ast.Name) and x.value.func.id == 'open' and len(x.value.args) > 1 and isinstance(x.value.args[1], ast.Constant)
                     and isinstance(x.value.args[1].value, str) and any(c in x.value.args[1].value for c in 'wax+')]
            if not opens:
                continue
            renames = [x for x in ast.walk(fn) if isinstance(x, ast.Call) and unparse(x.func) in ('os.replace', 'os.rename', 'os.renames', 'shutil.move')]
            for op in opens:
                n += 1
                h = op.targets[0].id
                closes = [x.lineno for x in ast.walk(fn) if isinstance(x, ast.Call) and isinstance(x.func, ast.Attribute) and x.func.attr == 'close'
                          and isinstance(x.func.value, ast.Name) and x.func.value.id == h]
                later = [r for r in renames if r.lineno > op.lineno]
                bad = [r for r in later if not any(op.lineno < c <= r.lineno for c in closes)]
                ctx.ob('A-PUB', '%s.%s handle %s closed before the publishing rename' % (ci.label, name, h), not bad)
                if bad:
                    ctx.fail('A-PUB', mq(ci, name), 'handle %s still open at the rename' % h,
                             '%s.%s binds the staging file to the name `%s` (line %d) and renames it into place (line %d) without closing it first: the handle is closed, and '
                             'its buffer flushed, only when the function returns - a kill just after the rename leaves a truncated live file, which the reader turns into an '
                             'empty archive' % (ci.label, name, h, op.lineno, bad[0].lineno), wh(ci, bad[0].lineno))
    ctx.ob('A-PUB', 'named write handles examined', True, n=max(1, n))


def rule_A_INITRAISE(ctx, repo):
    """A-OPEN (an existing store can always be opened): the constructors of the directory and file archives contain no `raise` of their own.  What is
    found at the location - nothing, entries, the staging directory of a writer that was killed - never makes opening fail: a validation such as "a
    non-empty directory without entries is not an archive" locks everybody out after a crash during the very first store."""
    m = repo.mod('_archives')
    n = 0
    for lab in ('dir_archive', 'file_archive', 'hdfdir_archive[hdf]', 'hdf_archive[hdf]'):
        ci = m.classes.get(lab)
        if ci is None or '__init__' not in ci.methods:
            continue
        n += 1
        fn = ci.methods['__init__'].node
        raises = [x for x in ast.walk(fn) if isinstance(x, ast.Raise) and x.exc is not None]
        ctx.ob('A-OPEN', '%s.__init__ raises nothing of its own' % lab, not raises)
        for x in raises:
            ctx.fail('A-OPEN', mq(ci, '__init__'), '__init__ raises %s' % unparse(x.exc).split('(')[0],
                     '%s.__init__ can refuse to open an existing location (`%s`): what a killed or failed writer left there - e.g. only a staging directory, before '
                     'the first entry was published - then makes the archive unopenable for every later process, although no completed store was lost'
                     % (lab, ' '.join(unparse(x).split())[:70]), '%s:%d' % (m.rel, x.lineno))
    # ... nor does a failure to create the directory escape: the constructor also runs when a pickled archive (or cached function) is restored, with only
    # the base name and relative to the restoring process's working directory, before __state__ is put back - whatever is found under that name there
    # (a plain file, a read-only directory) must not make the restore fail
    cache_ = Cache(repo, unroll=1)
    for lab in ('dir_archive', 'hdfdir_archive[hdf]'):
        ci = m.classes.get(lab)
        if ci is None or '__init__' not in ci.methods:
            continue
        fi, outs, eng = cache_.outs(ci, '__init__')
        bad = None
        for o in outs:
            if o.kind == RAISE and o.exc in ('OSError', 'FileExistsError', 'PermissionError') and any(e.kind == 'MKDIR!' for e in o.st.events):
                bad = o
                break
        ctx.ob('A-OPEN', '%s.__init__: a failed mkdir of the location does not escape' % lab, bad is None)
        if bad is not None:
            e = [e for e in bad.st.events if e.kind == 'MKDIR!'][-1]
            ctx.fail('A-OPEN', mq(ci, '__init__'), 'mkdir failure escapes the constructor',
                     '%s.__init__ lets the OSError of creating its directory escape (%s): __reduce__ re-runs the constructor with the base name only, relative to the '
                     'working directory of the restoring process, so a file of that name there (or a read-only directory) makes dill.loads of the archive - and of every '
                     'cached function that holds it - fail, where the unchanged constructor falls back to the absolute path and lets __state__ be restored'
                     % (lab, wh(ci, e.line)), wh(ci, e.line), render_path(bad))
    if n < 2:
        raise AnalysisError('instance count below confirmed minimum: %d archive constructors (< 2)' % n)


def rule_A_LAZY(ctx, repo):
    """A-TXN (listings are materialised): the sqlite archive hands out keys / items from a result it has fully fetched (set(), list(), fetchall()).  A
    generator over a live cursor keeps the SELECT open while the caller iterates: the connection holds its shared lock for as long as a half-consumed
    walk is alive, and a writer in another process fails with "database is locked" - its completed call returns an error or its store is lost."""
    m = repo.mod('_archives')
    ci = m.classes.get('sqltable_archive[!sql]')
    if ci is None:
        raise AnalysisError('anchor vanished: the sqlite fallback sqltable_archive')
    n = 0
    # private helpers that hand the cursor of the statement they run back to their caller (`def _execute(self, sql, *a): return self._engine.execute(...)`)
    cursor_helpers = set()
    def is_exec(c):
        return isinstance(c, ast.Call) and isinstance(c.func, ast.Attribute) and (c.func.attr == 'execute' or (
            c.func.attr in cursor_helpers and isinstance(c.func.value, ast.Name) and c.func.value.id == 'self'))
    for _round in range(3):
        for name, fi in ci.methods.items():
            rets = [r for r in ast.walk(fi.node) if isinstance(r, ast.Return) and r.value is not None]
            if name.startswith('_') and not name.startswith('__') and rets and all(is_exec(r.value) for r in rets):
                cursor_helpers.add(name)
    for name, fi in ci.methods.items():
        for x in ast.walk(fi.node):
            gens = []
            if isinstance(x, (ast.GeneratorExp,)):
                gens = x.generators
            elif isinstance(x, ast.Return) and is_exec(x.value) and name not in cursor_helpers:
                n += 1
                ctx.ob('A-TXN', None, False)
                ctx.fail('A-TXN', mq(ci, name), 'live cursor returned', '%s.%s returns the live cursor of a SELECT' % (ci.label, name), wh(ci, x.lineno))
            for g in gens:
                it = g.iter
                live = is_exec(it)
                if live or (isinstance(it, ast.Call) and any(is_exec(y) for y in ast.walk(it))):
                    n += 1
                ctx.ob('A-TXN', None, not live) if live or n else None
                if live:
                    ctx.fail('A-TXN', mq(ci, name), 'lazy generator over a live SELECT',
                             '%s.%s yields from `%s` lazily: while a caller holds a half-consumed iterator the statement stays active and the connection keeps '
                             'its read lock, so a writer in another process gets "database is locked" after the busy timeout and its entry is not stored'
                             % (ci.label, name, ' '.join(unparse(it).split())[:50]), wh(ci, x.lineno))
    ctx.ob('A-TXN', 'result sets of the sqlite archive are materialised before they are handed out', True)


def rule_A_GLOBROOT(ctx, repo):
    """A-GLOBROOT: a directory listing by glob pattern treats the *whole* expression as a pattern.  The archive's own location is data, not pattern:
    it reaches glob() / iglob() only through glob.escape() (pox.walk takes root and patterns separately and is safe).  Otherwise an archive whose path
    contains `[`, `]`, `*` or `?` lists nothing - or the entries of a sibling directory - while stores and lookups by key go to the real directory."""
    m = repo.mod('_archives')
    n = 0
    for node in ast.walk(m.tree):
        if not isinstance(node, ast.Call):
            continue
        f = node.func
        nm = f.id if isinstance(f, ast.Name) else f.attr if isinstance(f, ast.Attribute) else ''
        origin = m.imports.get(nm, '') if isinstance(f, ast.Name) else (m.imports.get(f.value.id, f.value.id) + '.' + nm if isinstance(f, ast.Attribute) and isinstance(f.value, ast.Name) else '')
        if origin not in ('glob.glob', 'glob.iglob'):
            continue
        n += 1
        arg = node.args[0] if node.args else None
        escaped = set()
        for x in ast.walk(arg) if arg is not None else []:
            if isinstance(x, ast.Call):
                g = x.func
                gn = g.id if isinstance(g, ast.Name) else g.attr if isinstance(g, ast.Attribute) else ''
                if gn == 'escape':
                    escaped |= set(id(y) for y in ast.walk(x))
        raw = [x for x in (ast.walk(arg) if arg is not None else []) if id(x) not in escaped and
               (isinstance(x, ast.Subscript) or (isinstance(x, ast.Name) and x.id not in m.imports and x.id not in m.consts and x.id not in ('os',)) or
                (isinstance(x, ast.Attribute) and isinstance(x.value, ast.Name) and x.value.id == 'self'))]
        ok = not raw
        ctx.ob('A-GLOBROOT', '%s:%d %s' % (m.rel, node.lineno, unparse(node)[:50]), ok)
        if not ok:
            ctx.fail('A-GLOBROOT', '%s:%d' % (m.rel, node.lineno), 'archive location used as a glob pattern',
                     'the listing `%s` puts the archive\'s own path (%s) into the glob expression without glob.escape(): for an archive directory whose path contains '
                     '[ ] * or ? the pattern does not match the directory itself - len(), keys(), items(), ==, popitem() and copy() see an empty archive (or a sibling\'s '
                     'entries) while __setitem__ / __getitem__ / `in` use the real directory' % (unparse(node)[:70], unparse(raw[0])[:40]), '%s:%d' % (m.rel, node.lineno))
    ctx.ob('A-GLOBROOT', 'glob listings in klepto/_archives.py examined', True, n=max(1, n))


GLOBAL_MUTATORS = ('update', 'setdefault', 'append', 'add', 'pop', 'clear', 'extend', 'remove', 'discard', 'popitem', 'insert', 'appendleft')


def rule_A_GLOBAL(ctx, repo):
    """A-GLOBAL (archives are independent objects): no function or method of the archive modules stores anything in a module-level container
    (a registry of connections, handles, contents, names).  Two archive objects then share nothing but their store: in particular every default
    in-memory sqlite archive has its own ':memory:' database, and what one handle did cannot change what another handle of another name sees."""
    n = 0
    for modname in ('_archives', 'archives', '_abc', '_pickle'):
        m = repo.mod(modname)
        glob = set()
        for name, node in m.consts.items():
            if isinstance(node, (ast.Dict, ast.List, ast.Set, ast.DictComp, ast.ListComp, ast.SetComp)):
                glob.add(name)
            elif isinstance(node, ast.Call):
                f = node.func
                nm = f.id if isinstance(f, ast.Name) else f.attr if isinstance(f, ast.Attribute) else ''
                if nm in ('dict', 'list', 'set', 'OrderedDict', 'defaultdict', 'deque', 'WeakKeyDictionary', 'WeakValueDictionary', 'Counter', 'local'):
                    glob.add(name)
        fnodes = [fi.node for fi in m.functions.values()] + [fi.node for ci in m.classes.values() for fi in (getattr(ci, 'own_methods', None) or ci.methods).values()]
        seen = set()
        for f in fnodes:
            if id(f) in seen:
                continue
            seen.add(id(f))
            n += 1
            local = set(a.arg for a in f.args.args + f.args.kwonlyargs) | set(x.id for x in ast.walk(f) if isinstance(x, ast.Name) and isinstance(x.ctx, ast.Store))
            gl = set(nm for x in ast.walk(f) if isinstance(x, ast.Global) for nm in x.names)
            local -= gl
            for node in ast.walk(f):
                hit = None
                if isinstance(node, (ast.Assign, ast.AugAssign, ast.Delete)):
                    ts = node.targets if not isinstance(node, ast.AugAssign) else [node.target]
                    for t in ts:
                        if isinstance(t, ast.Subscript) and isinstance(t.value, ast.Name) and t.value.id in glob and t.value.id not in local:
                            # a settings cell (constant index) is configuration, not a registry
                            if not (isinstance(t.slice, ast.Constant)):
                                hit = t.value.id
                        if isinstance(t, ast.Name) and t.id in gl and t.id in glob:
                            hit = t.id
                elif isinstance(node, ast.Call) and isinstance(node.func, ast.Attribute) and isinstance(node.func.value, ast.Name) \
                        and node.func.value.id in glob and node.func.value.id not in local and node.func.attr in GLOBAL_MUTATORS:
                    hit = node.func.value.id
                if hit:
                    ctx.ob('A-GLOBAL', None, False)
                    ctx.fail('A-GLOBAL', '%s::%s' % (m.rel, f.name), 'module-level registry %s' % hit,
                             '%s stores into the module-level container `%s`: archive objects then share process-wide state besides their store - e.g. one sqlite '
                             'connection per database name makes every default in-memory archive (\':memory:\') one and the same table, so an entry written through one '
                             'archive is found by a function cached in another' % (f.name, hit), '%s:%d' % (m.rel, node.lineno))
    ctx.ob('A-GLOBAL', 'functions and methods of the archive modules write no module-level container', True, n=max(1, n))


def rule_A_KEYERR_FOUND(ctx, repo, cache):
    """KeyError means "nothing stored": a path of __getitem__ / pop that found something in the store (the emptiness test of what was read
    came out non-empty, and nothing read came out empty or failed) must not end in KeyError - a stored None / 0 / '' is a value, not a miss."""
    classes = [c for c in archive_classes(repo) if c.label in PERSISTENT]
    for ci in classes:
        for op in ('__getitem__', 'pop', 'get'):
            params = None
            key = None
            r0 = cache.outs(ci, op)
            if r0[0] is None:
                continue
            if op == 'pop':
                va = r0[0].node.args.vararg
                if va is not None:
                    params = {va.arg: ('tuple', ())}
                    key = 'nodefault'
            fi, outs, eng = cache.outs(ci, op, params=params, key=key)
            bad = None
            for o in outs:
                if not clean_path(o):
                    continue
                truth = o.st.facts.get('truth', {})
                found = [t for t, b in truth.items() if b is True and t[0] in ('ev', 'call', 'sub', 'attr') and _read_terms(t)]
                empty = [t for t, b in truth.items() if b is False and t[0] in ('ev', 'call', 'sub', 'attr') and _read_terms(t)]
                if not found or empty:
                    continue
                # a test on the *value* that was read decided the outcome
                valtests = [t for t, b in truth.items() if t[0] == 'cmp' and t[1] in ('is', '==', 'is not', '!=') and _read_terms(t[2]) and t[3] == NONE]
                if o.kind == RAISE and o.exc == 'KeyError' and not any(e.kind == 'CAUGHT' for e in o.st.events):
                    bad = (o, 'raises KeyError')
                elif op == 'get' and o.kind == RETURN and valtests and not _read_terms(o.val):
                    bad = (o, 'returns the default')
                if bad:
                    break
            ctx.ob('A-KEYERR', '%s.%s found => no KeyError' % (ci.label, op), bad is None)
            if bad is not None:
                o, what = bad
                ctx.fail('A-KEYERR', mq(ci, op), 'stored value treated as missing',
                         '%s.%s %s on a path where the store returned a row / entry for the key: whether a key is present is decided from the *value* '
                         '(e.g. `is None`), so a stored None is reported as missing and the cached result is recomputed' % (ci.label, op, what),
                         wh(ci, o.line or fi.node.lineno), render_path(o))


def rule_A_SQLFAIL(ctx, repo, cache):
    """a single-key SQL operation that fails leaves the table unchanged: no exceptional exit after a successful delete / update statement of
    the same call unless it was rolled back (the next commit - of any later write - would make the half-done operation permanent)"""
    labels = ['sqltable_archive[sql]', 'sqltable_archive[!sql]', 'sql_archive[sql]']
    n = 0
    for ci in archive_classes(repo, labels):
        for name in ('__setitem__', 'setdefault', 'pop', '__delitem__', 'popitem'):
            fi, outs, eng = cache.outs(ci, name)
            if fi is None:
                continue
            bad = None
            for o in outs:
                if o.kind != RAISE:
                    continue
                evs = o.st.events
                n += 1
                for i, e in enumerate(evs):
                    if e.kind == 'SQL' and e.args[0][1] in ('delete', 'update') and e.depth >= 0:
                        later = evs[i + 1:]
                        failed = [x for x in later if x.kind == 'SQL!' or (x.kind.endswith('!') and x.kind != 'SQL!')]
                        if failed and not any(x.kind == 'ROLLBACK' for x in later) and not any(x.kind == 'CAUGHT' for x in later):
                            bad = (o, e, failed[0])
                            break
                if bad:
                    break
            ctx.ob('A-SQLFAIL', '%s.%s' % (ci.label, name), bad is None)
            if bad is not None:
                o, e, x = bad
                ctx.fail('A-SQLFAIL', mq(ci, name), 'failed write after an executed %s' % e.args[0][1],
                         '%s.%s executes a %s statement and then fails (%s at %s) without rolling it back: the old value is gone although the operation '
                         'raised, and the next commit makes the loss permanent' % (ci.label, name, e.args[0][1], x.kind, wh(ci, x.line)), wh(ci, e.line), render_path(o))
    if n < 4:
        raise AnalysisError('instance count below confirmed minimum: %d exceptional exits of single-key SQL operations' % n)


def rule_A_NOCACHE(ctx, repo, cache):
    classes = [c for c in archive_classes(repo) if c.label in PERSISTENT]
    for ci in classes:
        for name in sorted(ci.methods):
            if name in ('__init__', '__drop__'):
                continue
            fi, outs, eng = cache.outs(ci, name)
            bad = None
            for o in outs:
                for e in o.st.events:
                    if e.kind == 'SELFSET':
                        bad = (e, o)
            ctx.ob('A-NOCACHE', '%s.%s' % (ci.label, name), bad is None)
            if bad is not None:
                e, o = bad
                ctx.fail('A-NOCACHE', mq(ci, name), 'assigns instance state %s' % render(e.args[0]),
                         '%s.%s assigns instance state (%s): a persistent archive handle must not keep handle-local contents or settings outside __init__' % (
                             ci.label, name, ', '.join(render(a)[:60] for a in e.args)), wh(ci, e.line), render_path(o))


def rule_A_COMMIT(ctx, repo, cache):
    labels = ['sqltable_archive[sql]', 'sqltable_archive[!sql]', 'sql_archive[sql]']
    n = 0
    for ci in archive_classes(repo, labels):
        for name in sorted(ci.methods):
            if name.startswith('__drop') or name == '__init__':
                continue
            fi, outs, eng = cache.outs(ci, name)
            for o in outs:
                if o.kind != RETURN:
                    continue
                evs = o.st.events
                dml = [i for i, e in enumerate(evs) if e.kind == 'SQL' and e.args[0][1] in ('insert', 'update', 'delete')]
                if not dml:
                    continue
                n += 1
                ok = any(e.kind == 'COMMIT' for e in evs[dml[-1] + 1:])
                ctx.ob('A-COMMIT', None, ok)
                if not ok:
                    e = evs[dml[-1]]
                    ctx.fail('A-COMMIT', mq(ci, name), '%s without commit' % e.args[0][1],
                             '%s.%s executes a %s statement and returns without commit on some path: the write is invisible to a fresh handle and lost on exit' % (
                                 ci.label, name, e.args[0][1]), wh(ci, e.line), render_path(o))
            ctx.ob('A-COMMIT', '%s.%s' % (ci.label, name))
    if n < 12:
        raise AnalysisError('instance count below confirmed minimum: %d DML paths in the SQL archives' % n)


def init_param_keys(ci):
    """__init__ parameter -> __state__ key it fills"""
    init = ci.methods.get('__init__')
    out = {}
    if init is None:
        return out, []
    params = [a.arg for a in init.node.args.args][1:]
    for n in ast.walk(init.node):
        if isinstance(n, ast.Assign) and len(n.targets) == 1 and isinstance(n.targets[0], ast.Attribute) and n.targets[0].attr == '__state__' \
                and isinstance(n.value, ast.Dict):
            for k, v in zip(n.value.keys, n.value.values):
                if isinstance(k, ast.Constant) and isinstance(v, ast.Name) and v.id in params:
                    out[v.id] = k.value
            # a setting that passes through a helper on its way into the state (`'permissions': _dirmode(cls, mode, kwds)`: a renamed option that still
            # fills its old key): the one constructor parameter named in the value fills that key
            for k, v in zip(n.value.keys, n.value.values):
                if isinstance(k, ast.Constant) and isinstance(v, ast.Call):
                    named = [y.id for y in ast.walk(v) if isinstance(y, ast.Name) and y.id in params]
                    if len(set(named)) == 1 and named[0] not in out:
                        out[named[0]] = k.value
    return out, params


def rule_A_RED_COPY(ctx, repo, cache, parts=('red', 'copy')):
    for ci in (archive_classes(repo, ['dir_archive', 'file_archive', 'hdf_archive[hdf]', 'hdfdir_archive[hdf]']) if 'red' in parts else []):
        red = ci.methods.get('__reduce__')
        if red is None:
            ctx.ob('A-RED', ci.label, False)
            ctx.fail('A-RED', ci.qual, 'no __reduce__', '%s has no __reduce__' % ci.label, ci.where)
            continue
        pk, params = init_param_keys(ci)
        fi, outs, eng = cache.outs(ci, '__reduce__')
        for o in outs:
            ok = o.kind == RETURN and o.val[0] == 'tuple' and len(o.val[1]) == 3 and o.val[1][0] == ('attr', SELF, '__class__')
            why = 'does not return (self.__class__, args, state)'
            if ok:
                args = o.val[1][1]
                stt = o.val[1][2]
                ok = stt == ('dict', ((C('__state__'), STATE),))
                why = 'third element is not {"__state__": self.__state__}'
                if ok and args[0] == 'tuple':
                    for i, a in enumerate(args[1]):
                        if i >= len(params):
                            ok = False
                            why = 'too many constructor arguments'
                            break
                        want = pk.get(params[i])
                        if want is None or not contains_term(a, lambda t: t == ('state', want)):
                            ok = False
                            why = 'constructor argument %d (%s) does not derive from __state__[%r]' % (i, render(a), want)
                            break
            ctx.ob('A-RED', ci.label, ok)
            if not ok:
                ctx.fail('A-RED', mq(ci, '__reduce__'), '__reduce__: ' + why[:60], '%s.__reduce__ %s' % (ci.label, why), wh(ci, red.node.lineno))
    # copy(name) builds the same class with **self.state
    for ci in (archive_classes(repo, PERSISTENT) if 'copy' in parts else []):
        fi, outs, eng = cache.outs(ci, 'copy')
        if fi is None:
            continue
        for o in outs:
            if o.kind != RETURN:
                continue
            cons = [e for e in o.st.events if e.kind == 'CONSTRUCT']
            ok = len(cons) == 1 and cons[0].args[0] == C(ci.name) and o.val == cons[0].val
            why = 'does not return a single new %s' % ci.name
            if ok:
                kws = cons[0].args[2:]
                ok = any(k[0] == 'dstar' and contains_term(k[1], lambda t: t[0] == 'attr' and t[1] == STATE and t[2] == 'copy' or t == ('attr', SELF, 'state') or t == STATE)
                         for k in kws)
                why = 'does not forward **self.state to the new archive (settings such as serialized/protocol would be lost)'
                if ok:
                    # a filtered view of the state may only leave out what the call passes explicitly (the new location)
                    explicit = set(k[1] for k in kws if k[0] == 'kw') | set(['id'])
                    for k in kws:
                        if k[0] != 'dstar':
                            continue
                        for t in subterms(k[1]):
                            if t[0] == 'comp' and len(t) > 3:
                                dropped = set()
                                known = True
                                for cond in t[3][1:]:
                                    c = cond
                                    neg = False
                                    if c[0] == 'not':
                                        c, neg = c[1], True
                                    if c[0] == 'cmp' and ((c[1] == 'not in' and not neg) or (c[1] == 'in' and neg)) and c[3][0] in ('tuple', 'list', 'set') \
                                            and all(is_const(x) for x in c[3][1]):
                                        dropped |= set(x[1] for x in c[3][1])
                                    elif c[0] == 'cmp' and ((c[1] == '!=' and not neg) or (c[1] == '==' and neg)) and is_const(c[3]):
                                        dropped.add(c[3][1])
                                    else:
                                        known = False
                                lost = sorted(str(x) for x in dropped - explicit)
                                if lost or not known:
                                    ok = False
                                    why = 'forwards only part of its settings to the new archive (%s left out): the copy is opened with different settings and cannot read what was copied' % (
                                        ', '.join(lost) if lost else 'an unrecognised filter')
            if ok and ('sql' in ci.label):
                # a database table has no file that the copy could share by name: the sqlite default `:memory:` is private to its connection, so the
                # new archive is empty until the entries are written into it - on every path, also when the copy keeps the original's name
                ok = any(e.kind in ('WRITE', 'COPY') and e.depth == 0 for e in o.st.events)
                why = 'returns the new archive without writing the entries into it on a path (%s): for the default in-memory database a copy under the same name ' \
                      'is a new, empty database, so copy() != the original' % '; '.join('%s is %s' % (render(t)[:50], b) for t, b in list(o.st.facts.get('truth', {}).items())[-2:])
            ctx.ob('A-COPY', ci.label, ok)
            if not ok:
                ctx.fail('A-COPY', mq(ci, 'copy'), 'copy: ' + why[:50], '%s.copy %s' % (ci.label, why), wh(ci, fi.node.lineno), render_path(o))


# ---------------------------------------------------------------------------------------------
# abstract strings (prefix domain)
def aprefix(t):
    """(known prefix, exact?) of a string-valued term"""
    if is_const(t):
        if isinstance(t[1], str):
            return t[1], True
        return '', False
    if t[0] == 'bin' and t[1] == '+':
        pa, ea = aprefix(t[2])
        if not ea:
            return pa, False
        pb, eb = aprefix(t[3])
        return pa + pb, eb
    if t[0] == 'phi':
        ps = [aprefix(x) for x in t[1]]
        lcp = ps[0][0]
        for p, e in ps[1:]:
            i = 0
            while i < len(lcp) and i < len(p) and lcp[i] == p[i]:
                i += 1
            lcp = lcp[:i]
        exact = all(e for p, e in ps) and all(p == ps[0][0] for p, e in ps)
        return lcp, exact
    if t[0] == 'call':
        f = t[1]
        if f[0] == 'attr' and f[2] == 'replace' and len(t[2]) == 2 and is_const(t[2][0]) and is_const(t[2][1]):
            p, e = aprefix(f[1])
            a, b = t[2][0][1], t[2][1][1]
            if isinstance(a, str) and isinstance(b, str) and len(a) == 1:
                return p.replace(a, b), e
            return '', False
        if f[0] == 'lib' and f[1] in ('str',) and len(t[2]) == 1:
            return aprefix(t[2][0])
        if f[0] == 'lib' and f[1] == 'os.path.join' and t[2]:
            return aprefix(t[2][-1]) if False else ('', False)
    return '', False


def basename_term(p):
    """last component of a path term built by os.path.join / pox.mkdir(root=...)"""
    if p[0] == 'call' and p[1] == ('lib', 'os.path.join') and p[2]:
        return p[2][-1]
    if p[0] == 'phi':
        alts = [basename_term(x) for x in p[1]]
        return ('phi', tuple(alts))
    return p


def match3(name_prefix, exact, pattern):
    """fnmatch of an abstract name against a glob pattern: True / False / None (maybe)"""
    lit = ''
    for ch in pattern:
        if ch in '*?[':
            break
        lit += ch
    rest = pattern[len(lit):]
    if exact:
        return fnmatch.fnmatchcase(name_prefix, pattern)
    # name = name_prefix + unknown suffix
    n = min(len(lit), len(name_prefix))
    if name_prefix[:n] != lit[:n]:
        return False
    if len(name_prefix) >= len(lit) and rest == '*':
        return True
    return None


def lister_info(repo, ci, cache):
    """(glob pattern string or None, excluded basename prefixes) of the class's entry lister"""
    fi = ci.methods.get('_lsdir')
    if fi is None:
        return None, []
    _, outs, eng = cache.outs(ci, '_lsdir')
    pat = None
    for o in outs:
        for e in o.st.events:
            if e.kind == 'LIST' and len(e.args) > 1:
                p, ex = aprefix(e.args[1])
                if ex:
                    pat = p
    excl = []
    # local constants of the lister (e.g. `temporary = PREFIX + TEMP`) are evaluated with the module constants
    e2 = Engine(ConstModel(ci.module), unroll=1)
    cst = St()
    for stt in fi.node.body:
        if isinstance(stt, ast.Assign) and len(stt.targets) == 1 and isinstance(stt.targets[0], ast.Name):
            try:
                rs = e2.ev(stt.value, cst)
            except AnalysisError:
                rs = []
            if len(rs) == 1 and rs[0].exc is None:
                cst = rs[0].st
                cst.env[stt.targets[0].id] = rs[0].val

    def excluded_prefix(c):
        """c = <basename expr>.startswith(<const>) -> the constant prefix or None"""
        if isinstance(c, ast.Call) and isinstance(c.func, ast.Attribute) and c.func.attr == 'startswith' and len(c.args) == 1 \
                and 'basename' in unparse(c.func.value):
            try:
                rs = e2.ev(c.args[0], cst.fork())
            except AnalysisError:
                return None
            if rs and rs[0].exc is None:
                p, ex = aprefix(rs[0].val)
                if ex:
                    return p
        return None
    for n in ast.walk(fi.node):
        if isinstance(n, (ast.ListComp, ast.GeneratorExp)):
            for g in n.generators:
                for cond in g.ifs:
                    if isinstance(cond, ast.UnaryOp) and isinstance(cond.op, ast.Not):
                        p = excluded_prefix(cond.operand)
                        if p is not None:
                            excl.append(p)
        elif isinstance(n, ast.If) and len(n.body) == 1 and isinstance(n.body[0], ast.Continue) and not n.orelse:
            p = excluded_prefix(n.test)      # for d in dirs: if basename(d).startswith(tmp): continue
            if p is not None:
                excl.append(p)
    return pat, excl


class ConstModel(PlainModel):
    def global_name(self, name, st):
        node = self.module.consts.get(name)
        if isinstance(node, ast.Constant):
            return C(node.value)
        return PlainModel.global_name(self, name, st)


STORE_ROUTINES = {'dir_archive': '_store', 'hdfdir_archive[hdf]': '_store', 'file_archive': '__save__', 'hdf_archive[hdf]': '__save__'}


def staging_sites(ci, outs):
    """[(path index, out, staging path term, event)] objects created by the store routine that are not the final path"""
    res = []
    for o in outs:
        for e in o.st.events:
            if e.kind == 'MKDIR' and on_self_store(e.args[0]):
                res.append((o, e.args[0], e))
            elif e.kind == 'OPENW' and on_self_store(e.args[0]) and e.args[0] != ('state', 'id') and ci.name in ('file_archive', 'hdf_archive'):
                res.append((o, e.args[0], e))
    return res


def rule_A_VIS_STAGE(ctx, repo, cache, props_note=''):
    for lab in ('dir_archive', 'hdfdir_archive[hdf]'):
        ci = archive_classes(repo, [lab])[0]
        fi, outs, eng = cache.outs(ci, '_store')
        if fi is None:
            raise AnalysisError('anchor vanished: %s._store' % lab)
        pat, excl = lister_info(repo, ci, cache)
        if pat is None:
            raise AnalysisError('%s: cannot resolve the glob pattern of the entry lister (_lsdir)' % lab)
        ctx.tables['%s lister' % lab] = {'pattern': pat, 'excluded prefixes': excl}
        sites = staging_sites(ci, outs)
        if not sites:
            # staged somewhere else (the system temp directory) and moved in: the move is a rename only on one file system; across devices shutil.move
            # copies into the live name, and a kill (or a reader) meets a half-copied entry that the lister already shows
            foreign = None
            for o in outs:
                for e in o.st.events:
                    if e.kind == 'RENAME' and len(e.args) > 1 and on_self_store(e.args[1]) and not on_self_store(e.args[0]):
                        foreign = (o, e)
                        break
                if foreign:
                    break
            if foreign is None:
                raise AnalysisError('%s._store: no staging directory creation found' % lab)
            o, e = foreign
            ctx.ob('A-STAGE', '%s staging copy lives in the archive directory' % lab, False)
            ctx.fail('A-STAGE', mq(ci, '_store'), 'staged outside the archive directory',
                     '%s._store builds the new entry in %s and moves it into the archive: that is one atomic rename only when both are on the same file system - otherwise '
                     'the move is a recursive copy into the live entry name, during which (and for ever after a kill) readers list an empty or partial entry'
                     % (lab, render(e.args[0])[:70]), wh(ci, e.line), render_path(o))
            continue
        visible = None
        seen = set()
        for o, p, e in sites:
            b = basename_term(p)
            pre, ex = aprefix(b)
            m = match3(pre, ex, pat)
            hidden = any(pre.startswith(x) for x in excl)
            vis = (m is not False) and not hidden
            if (pre, m, hidden) not in seen:
                seen.add((pre, m, hidden))
                ctx.ob('A-VIS', '%s staging %r vs %r' % (lab, pre, pat), not vis)
            if vis and visible is None:
                visible = (o, p, e, pre, m)
        if visible is not None:
            o, p, e, pre, m = visible
            ctx.fail('A-VIS', mq(ci, '_store'), 'staging name %s* matches lister pattern %s' % (pre, pat),
                     'the staging directory of %s._store is named "%s<random>" and the entry lister globs for "%s": while a store is in progress '
                     '(or after it crashed / failed) the staging directory is listed as a key that was never stored, and reading it raises KeyError' % (lab, pre, pat),
                     wh(ci, e.line), render_path(o))
        # A-VIS (parked entries): a name derived from the live entry name (target + '~', target + '.old') to which the old entry is renamed while the new one
        # moves in carries the entry prefix: the lister shows it as a key nobody stored (and, if the writer dies before removing it, for ever)
        parked = None
        for o in outs:
            for e in o.st.events:
                if e.kind == 'RENAME' and len(e.args) > 1:
                    D = e.args[1]
                    if D[0] == 'bin' and D[1] == '+' and on_self_store(D[2]):
                        b = ('bin', '+', basename_term(D[2]), D[3])
                        pre, ex = aprefix(b)
                        mm = match3(pre, ex, pat)
                        if mm is not False and not any(pre.startswith(x) for x in excl) and parked is None:
                            parked = (o, e, D)
        ctx.ob('A-VIS', '%s: no entry is parked under a second listed name' % lab, parked is None)
        if parked is not None:
            o, e, D = parked
            ctx.fail('A-VIS', mq(ci, '_store'), 'old entry parked under a listed name',
                     '%s._store renames the entry being replaced to %s, a name that still matches the lister pattern "%s": until it is removed (and for ever if the writer '
                     'is killed first) every reader lists a key that was never stored - keys(), len() and iteration disagree with what was written' % (lab, render(D)[:70], pat),
                     wh(ci, e.line), render_path(o))
        # A-VIS (entries appear complete): a writer creates nothing under a listed name except by the publishing rename.  A directory made under the entry's
        # own name before the staged contents exist (`self._mkdir(key)` as an early "is the key usable" probe) is listed as a key from that moment on;
        # a writer killed before the rename leaves an empty entry that every reader trips over
        early = None
        for wname in ('__setitem__', 'update', 'setdefault'):
            try:
                wfi, wouts, _e = cache.outs(ci, wname)
            except AnalysisError:
                continue
            if wfi is None:
                continue
            for o in wouts:
                for e in o.st.events:
                    if e.kind == 'MKDIR' and e.args and on_self_store(e.args[0]) and '_store' not in (getattr(e, 'extra', None) or {}).get('frames', ()):
                        b = basename_term(e.args[0])
                        pre, ex = aprefix(b)
                        mm = match3(pre, ex, pat)
                        if mm is not False and pre and not any(pre.startswith(x) for x in excl) and early is None:
                            early = (wname, o, e)
        ctx.ob('A-VIS', '%s: no writer creates a directory under a listed name' % lab, early is None)
        if early is not None:
            wname, o, e = early
            ctx.fail('A-VIS', mq(ci, wname), 'entry directory created before its contents',
                     '%s.%s creates %s - a name the lister pattern "%s" matches - directly, not by renaming a completed staging copy into place: from that moment the key is '
                     'listed although it has no contents, and a writer killed before the publishing rename leaves an entry that keys() reports and reading raises KeyError for'
                     % (lab, wname, render(e.args[0])[:80], pat), wh(ci, e.line), render_path(o))
        # A-VIS (one lister): whatever enumerates the archive directory applies the entry pattern.  A count or listing taken with os.scandir / os.listdir /
        # os.walk / glob on the root itself also sees the staging directories of writes in progress (and those a killed writer left): len() and truthiness
        # then disagree with keys()
        second = None
        nl = 0
        for mname, mfi in sorted(ci.methods.items()):
            for x in ast.walk(mfi.node):
                if not isinstance(x, ast.Call):
                    continue
                fname_ = x.func.attr if isinstance(x.func, ast.Attribute) else x.func.id if isinstance(x.func, ast.Name) else ''
                if fname_ not in ('walk', 'listdir', 'scandir', 'glob', 'iglob', 'iterdir', 'rglob'):
                    continue
                args_ = list(x.args) + ([x.func.value] if fname_ in ('iterdir', 'rglob') and isinstance(x.func, ast.Attribute) else [])
                on_root = any("__state__['id']" in unparse(a_) or unparse(a_) in ('self.name', 'self._root') for a_ in args_[:1] + args_[-1:])
                if not on_root:
                    continue
                nl += 1
                filtered = any(k.arg in ('patterns', 'pattern') and ('PREFIX' in unparse(k.value) or (pat and pat.rstrip('*') and pat.rstrip('*') in unparse(k.value))) for k in x.keywords) \
                    or any(('PREFIX' in unparse(a_) or (pat and pat.rstrip('*') and repr(pat.rstrip('*'))[1:-1] in unparse(a_))) for a_ in x.args)
                if not filtered and second is None:
                    second = (mname, x)
        ctx.ob('A-VIS', '%s: every enumeration of the archive directory applies the entry pattern (%d sites)' % (lab, nl), second is None)
        if second is not None:
            mname, x = second
            ctx.fail('A-VIS', mq(ci, mname), 'unfiltered enumeration of the archive directory',
                     '%s.%s enumerates the archive directory with `%s`, without the entry pattern "%s" that the lister applies: staging directories of writes in progress '
                     '(and those left by a killed writer) are counted as entries - len(), truthiness or iteration report keys that were never stored'
                     % (lab, mname, ' '.join(unparse(x).split())[:70], pat), wh(ci, x.lineno))
        # A-STAGE (fresh name): the staging directory is private to one attempt: its name has a random / per-process / per-time component.  A name derived
        # from the key alone is shared with an interrupted or failed earlier attempt (and with a concurrent writer of the same key): pox.mkdir refuses the
        # existing directory, _store swallows that OSError, skips writing and publishes the other attempt's leftover
        # (directories the store creates but never fills or publishes - a per-key lock directory - are not staging copies: for them only A-VIS applies)
        staged_lines = set()
        for o_ in outs:
            evs_ = o_.st.events
            for i_, e_ in enumerate(evs_):
                if e_.kind == 'MKDIR' and on_self_store(e_.args[0]):
                    later_ = evs_[i_ + 1:]
                    if any((x.kind == 'RENAME' and same_path(x.args[0], e_.args[0])) or
                           (x.kind in ('OPENW', 'WRITE') and x.args and contains_term(x.args[0], lambda t, p0=e_.args[0]: t == p0)) for x in later_):
                        staged_lines.add(e_.line)
        stale = None
        for o, p_, e_ in [s_ for s_ in sites if s_[2].kind != 'MKDIR' or s_[2].line in staged_lines or not staged_lines]:
            # ... drawn from a source that differs between processes forked from one parent: the global `random` functions are re-seeded in a forked child, a
            # private Random() instance created at import time is duplicated with its state (two workers then draw the same names)
            fresh = contains_term(p_, lambda t: t[0] == 'call' and t[1][0] == 'lib' and (
                t[1][1].startswith(('random.', 'uuid.', 'tempfile.', 'secrets.', 'time.')) or t[1][1] in ('os.urandom', 'os.getpid', 'random')))
            ctx.ob('A-STAGE', None, fresh)
            if not fresh and stale is None:
                stale = (o, p_, e_)
        if stale is not None:
            o, p_, e_ = stale
            ctx.fail('A-STAGE', mq(ci, '_store'), 'staging name is not fresh',
                     'the staging directory of %s._store is named %s, with no random / per-process component: a later store of the same key finds the directory an '
                     'interrupted or failed attempt left behind, the mkdir fails, the failure is swallowed with the write, and the leftover - an older or incomplete '
                     'value - is published as the new entry' % (lab, render(basename_term(p_))[:70]), wh(ci, e_.line), render_path(o))
        # A-STAGE: visible staging objects are published or removed on every exit
        leak = None
        for o in outs:
            mk = [(i, e) for i, e in enumerate(o.st.events) if e.kind == 'MKDIR' and on_self_store(e.args[0])]
            if not mk:
                continue
            i0, e0 = mk[0]
            p = e0.args[0]
            later = o.st.events[i0 + 1:]
            done = any((x.kind == 'RENAME' and same_path(x.args[0], p)) or (x.kind == 'RMTREE' and same_path(x.args[0], p)) for x in later)
            ctx.ob('A-STAGE', None, done or visible is None)
            if not done and leak is None:
                leak = (o, e0)
        if leak is not None:
            o, e0 = leak
            if visible is not None:
                ctx.fail('A-STAGE', mq(ci, '_store'), 'staging directory leaked on %s exit' % (o.exc or 'normal'),
                         '%s._store can exit (%s) with its staging directory neither renamed into place nor removed; because the staging name is visible '
                         'to the lister the archive then contains a phantom, unreadable key' % (lab, 'raise %s' % o.exc if o.kind == RAISE else 'return'),
                         wh(ci, e0.line), render_path(o))
            else:
                ctx.note('%s._store can leave an (invisible) staging directory behind on %s: litter, not a property violation' % (lab, o.exc or 'return'))
        ctx.ob('A-STAGE', lab)


def same_path(a, b):
    if a == b:
        return True
    # the same staging key expressed through _getdir/_mkdir: compare basenames and roots structurally
    return basename_term(a) == basename_term(b) and on_self_store(a) and on_self_store(b)


def rule_A_PUB(ctx, repo, cache, only_foreign=False):
    for lab, routine in sorted(STORE_ROUTINES.items()):
        ci = archive_classes(repo, [lab])[0]
        params = None
        key = None
        fi0 = ci.methods.get(routine)
        if fi0 is None:
            raise AnalysisError('anchor vanished: %s.%s' % (lab, routine))
        if lab == 'hdf_archive[hdf]':
            params = {'new': C(True)}
            key = 'new'
        fi, outs, eng = cache.outs(ci, routine, params=params, key=key)
        ctx.analysed(mq(ci, routine))
        ctx.add_paths(outs, mq(ci, routine), trivial_kinds=('BRANCH', 'CAUGHT'))
        npub = 0
        first = None
        for o in outs:
            evs = o.st.events
            ren = [(i, e) for i, e in enumerate(evs) if e.kind == 'RENAME' and on_self_store(e.args[1])]
            for i, e in ren:
                npub += 1
                dst = e.args[1]
                src = e.args[0]
                pre = [x for x in evs[:i] if x.kind in ('UNLINK', 'RMTREE') and x.args and same_target(x.args[0], dst)
                       and not (x.kind == 'RMTREE' and len(x.args) > 1 and x.args[1] == C(False))]
                if only_foreign:
                    pre = []        # the order of removal and rename is a crash / concurrency question (C13 / C14); here only where the copy is staged
                ok = not pre and on_self_store(src)
                ctx.ob('A-PUB', None, ok)
                if not ok and first is None:
                    first = (o, e, pre)
        if only_foreign:
            ctx.ob('A-PUB', '%s.%s stages next to its target' % (lab, routine), first is None)
            if first is not None:
                o, e, pre = first
                ctx.fail('A-PUB', mq(ci, routine), 'foreign staging',
                         '%s.%s builds the new object at %s and renames it into the archive: os.replace / os.rename cannot cross file systems, so for an archive that does not '
                         'live on the file system of that directory the rename raises OSError(EXDEV), which the routine\'s own handler swallows - every dump silently stores '
                         'nothing, and entries that were evicted after the dump are in neither memory nor the archive' % (lab, routine, render(e.args[0])[:70]),
                         wh(ci, e.line), render_path(o))
            continue
        # the live object itself is never opened for writing by the save routine
        final = ('state', 'id') if routine == '__save__' else None
        inplace = None
        for o in outs:
            for e in o.st.events:
                if e.kind in ('OPENW', 'WRITE') and e.args and final is not None and e.args[0] == final:
                    inplace = (o, e)
                if e.kind == 'COPY' and len(e.args) > 1 and final is not None and e.args[1] == final:
                    inplace = (o, e)
        # the staging file is complete (closed, hence flushed) before it is renamed over the live object
        early = None
        for o in outs:
            evs = o.st.events
            for i, e in enumerate(evs):
                if e.kind != 'RENAME' or not on_self_store(e.args[1]):
                    continue
                src = e.args[0]
                # a directory rename publishes the files inside it: any of them still open counts
                inside = lambda p: p == src or contains_term(p, lambda t: t == src)
                opened = [j for j, x in enumerate(evs[:i]) if x.kind == 'OPENW' and x.args and inside(x.args[0])]
                for j in opened:
                    p = evs[j].args[0]
                    closed_before = any(x.kind == 'FCLOSE' and x.args[0] == p for x in evs[j:i])
                    closed_after = any(x.kind == 'FCLOSE' and x.args[0] == p for x in evs[i:])
                    if not closed_before and closed_after and early is None:
                        early = (o, e, evs[j])
        ctx.ob('A-PUB', '%s.%s staging closed before publication' % (lab, routine), early is None)
        if early is not None:
            o, e, op = early
            ctx.fail('A-PUB', mq(ci, routine), 'published before the staging file is closed',
                     '%s.%s renames the staging copy into place (%s) while the file opened at %s is still open: buffered data is written only at close, '
                     'so a kill right after the rename leaves a truncated live object (and a concurrent reader can see it)' % (lab, routine, wh(ci, e.line), wh(ci, op.line)),
                     wh(ci, e.line), render_path(o))
        ctx.ob('A-PUB', '%s.%s no in-place write' % (lab, routine), inplace is None)
        if inplace is not None:
            o, e = inplace
            ctx.fail('A-PUB', mq(ci, routine), 'live object written in place',
                     '%s.%s opens the live file itself for writing (%s): a kill mid-write leaves a torn archive and a concurrent reader can see a partial image' % (
                         lab, routine, wh(ci, e.line)), wh(ci, e.line), render_path(o))
        ctx.ob('A-PUB', '%s.%s' % (lab, routine), first is None and npub > 0)
        if npub == 0:
            ctx.fail('A-PUB', mq(ci, routine), 'no rename publication',
                     '%s.%s does not publish through a rename from a staging path (a reader or a crash can observe a half-written object)' % (lab, routine),
                     wh(ci, fi.node.lineno))
        elif first is not None:
            o, e, pre = first
            x = pre[0] if pre else e
            ctx.fail('A-PUB', mq(ci, routine), '%s of the live object before the rename' % (x.kind if pre else 'foreign staging'),
                     '%s.%s removes the live object (%s at %s) before renaming the staging copy into place: a kill (or a concurrent reader/opener) '
                     'between the two steps finds the entry gone' % (lab, routine, x.kind, wh(ci, x.line)), wh(ci, x.line), render_path(o))


def same_target(a, b):
    return a == b or (basename_term(a) == basename_term(b) and on_self_store(a) and on_self_store(b))


def rule_A_UNPUB(ctx, repo, cache):
    for lab in ('dir_archive', 'hdfdir_archive[hdf]'):
        ci = archive_classes(repo, [lab])[0]
        for name in ('__delitem__', 'pop'):
            fi, outs, eng = cache.outs(ci, name)
            bad = None
            for o in outs:
                for e in o.st.events:
                    if e.kind == 'RMTREE' and on_self_store(e.args[0]) and not (len(e.args) > 1 and e.args[1] == C(False)):
                        bad = (o, e)
            ctx.ob('A-UNPUB', '%s.%s' % (lab, name), bad is None)
            if bad is not None:
                o, e = bad
                ctx.fail('A-UNPUB', mq(ci, name), 'in-place recursive delete of a live entry',
                         '%s.%s removes the live entry directory with an in-place recursive delete (%s): a kill part-way leaves an entry that is listed '
                         'but unreadable, and a concurrent reader can see the half-deleted entry' % (lab, name, wh(ci, e.line)), wh(ci, e.line), render_path(o))


def rule_A_LISTREAD(ctx, repo, cache):
    for lab in ('dir_archive', 'hdfdir_archive[hdf]', 'sql_archive[sql]'):
        ci = archive_classes(repo, [lab])[0]
        for name in ('__asdict__',):
            fi, outs, eng = cache.outs(ci, name)
            bad = None
            for o in outs:
                if o.kind == RAISE and o.exc in ('KeyError', 'RuntimeError') and any(e.kind == 'LIST' for e in o.st.events):
                    bad = o
            ctx.ob('A-LISTREAD', '%s.%s' % (lab, name), bad is None)
            if bad is not None:
                ctx.fail('A-LISTREAD', mq(ci, name), 'KeyError of a listed key escapes the bulk read',
                         '%s.%s lists the keys and then reads each one; when a key disappears (or is half-written) in between, the %s of that read '
                         'escapes and the whole bulk read fails' % (lab, name, bad.exc), wh(ci, bad.line), render_path(bad))


# ---------------------------------------------------------------------------------------------
# factories in archives.py and construction on an existing store
class FModel(PlainModel):
    def call(self, f, args, kws, st, node):
        line = getattr(node, 'lineno', 0)
        if f[0] == 'attr' and f[2] == 'update' and contains_term(f[1], lambda t: t[0] == 'call' and t[1][0] == 'lib' and t[1][1].startswith('._archives.')):
            st.emit('AUPDATE', (f[1],) + tuple(args), line)
            return [R(st, NONE)]
        if f[0] == 'attr' and contains_term(f[1], lambda t: t[0] == 'call' and t[1][0] == 'lib' and t[1][1].startswith('._archives.')):
            # any other method called on the freshly built archive while it is being opened
            st.emit('AMETHOD', (f[1], C(f[2])) + tuple(args), line)
            return [R(st, ('call', f, tuple(args), tuple(kws)))]
        return PlainModel.call(self, f, args, kws, st, node)     # helper functions of archives.py are inlined


def rule_A_FACTORY_OPEN(ctx, repo, cache, open_only=False, do_open=True, factories=True):
    m = repo.mod('archives')
    am = repo.mod('_archives')
    names = ['dict_archive', 'null_archive', 'dir_archive', 'file_archive', 'sqltable_archive', 'sql_archive', 'hdfdir_archive', 'hdf_archive']
    for nm in (names if factories else []):
        ci = m.classes.get(nm)
        if ci is None:
            raise AnalysisError('anchor vanished: archives.%s' % nm)
        new = ci.methods.get('__new__')
        if new is None:
            raise AnalysisError('anchor vanished: archives.%s.__new__' % nm)
        ctx.analysed(new.qual)
        eng = Engine(FModel(m), unroll=1)
        outs = eng.run_function(new.node, {})
        a = new.node.args
        pnames = [x.arg for x in a.args]
        kw = ('param', a.kwarg.arg) if a.kwarg else None
        for o in outs:
            if o.kind != RETURN:
                continue
            cached = o.st.facts.get('truth', {}).get(('param', 'cached'))
            dict_none = None
            for t, b in o.st.facts.get('truth', {}).items():
                if t[0] == 'cmp' and t[1] == 'is' and t[2] == ('param', 'dict') and t[3] == NONE:
                    dict_none = b
            v = o.val
            inner = [t for t in subterms(v) if t[0] == 'call' and t[1][0] == 'lib' and t[1][1].startswith('._archives.') and t[1][1] != '._archives.cache']
            if not open_only:
                # forwards name and **kwds, wraps in cache iff cached
                ok = len(inner) >= 1
                why = 'does not construct the private archive class'
                if ok:
                    c = inner[0]
                    priv = c[1][1].split('.')[-1]
                    ok = priv == nm
                    why = 'constructs %s instead of %s' % (priv, nm)
                    if ok and nm not in ('dict_archive', 'null_archive'):
                        ok = any(k[0] == 'dstar' and k[1] == kw for k in c[3]) and contains_term(c, lambda t: t == ('param', 'name'))
                        why = 'does not forward name and **kwds to the private class'
                    if ok:
                        wrapped = v[0] == 'call' and v[1] == ('lib', '._archives.cache')
                        ok = (wrapped == bool(cached)) and cached is not None
                        why = 'cached=%s but the result is %swrapped in cache(archive=...)' % (cached, '' if wrapped else 'not ')
                ctx.ob('A-FACTORY', '%s cached=%s' % (nm, cached), ok)
                if not ok:
                    ctx.fail('A-FACTORY', new.qual, 'factory: ' + why[:60], 'archives.%s.__new__ %s' % (nm, why), '%s:%d' % (m.rel, new.node.lineno), render_path(o))
            # A-OPEN: the factory does nothing to the store but seed it: no dump / sync / load / clear on open (a cached handle that dumps on open
            # rewrites a file archive with the snapshot it has just read - a concurrent writer's completed store is lost)
            if do_open and nm not in ('dict_archive', 'null_archive'):
                extra = [e for e in o.st.events if e.kind == 'AMETHOD' and e.args[1][1] in ('dump', 'sync', 'load', 'clear', 'drop', 'pop', 'popitem', '__setitem__',
                                                                                           '__delitem__', 'setdefault', 'popkeys', 'open', 'archived')]
                if not extra:
                    # any other method of the private class called on open is judged by what it does to the store (a `_sweep()` that removes staging
                    # directories removes the staging copy of a write another process has in flight)
                    for e_ in [e for e in o.st.events if e.kind == 'AMETHOD']:
                        for lab_ in [l for l in ARCHIVE_CLASSES if l.split('[')[0] == nm and l in PERSISTENT]:
                            pci_ = am.classes.get(lab_)
                            if pci_ is None or e_.args[1][1] not in pci_.methods:
                                continue
                            try:
                                _fi, mouts, _e2 = cache.outs(pci_, e_.args[1][1])
                            except AnalysisError:
                                continue
                            if any(c in ('write', 'remove', 'clearall', 'rename') for mo in mouts for _ev, c in effects(mo)):
                                extra.append(e_)
                                break
                        if extra:
                            break
                ctx.ob('A-OPEN', '%s factory cached=%s: no store operation besides the seed' % (nm, cached), not extra)
                if extra:
                    e = extra[0]
                    ctx.fail('A-OPEN', new.qual, 'factory calls %s() on open' % e.args[1][1],
                             'archives.%s.__new__ calls %s() on the archive it has just opened (cached=%s): opening a handle then reads the store and writes it back - '
                             'for a file archive the whole file is replaced by that snapshot, so a store another process completed in between is lost'
                             % (nm, e.args[1][1], cached), '%s:%d' % (m.rel, e.line), render_path(o))
            # A-OPEN: with cached=False and no seed, merely opening must not write
            if do_open and cached is True and dict_none is True:
                # a cached handle seeds the in-memory cache only: an update of the raw backend on this path rewrites the store on every open as well
                raw = [e for e in o.st.events if e.kind == 'AUPDATE' and not contains_term(e.args[0], lambda t: t[0] == 'call' and t[1] == ('lib', '._archives.cache'))]
                priv_label = [l for l in ARCHIVE_CLASSES if l.split('[')[0] == nm and l in PERSISTENT]
                for lab in priv_label:
                    pci = am.classes[lab]
                    bad = None
                    if raw and len(raw[0].args) > 1 and raw[0].args[1] == ('dict', ()):
                        ufi = pci.methods.get('update')
                        pa = [x.arg for x in ufi.node.args.args]
                        params = {pa[1]: ('dict', ())}
                        if ufi.node.args.kwarg:
                            params[ufi.node.args.kwarg.arg] = ('dict', ())
                        fi, uouts, e2 = cache.outs(pci, 'update', params=params, key='emptyseed')
                        for uo in uouts:
                            for e, c in effects(uo):
                                if c in ('write', 'remove', 'clearall', 'rename'):
                                    bad = (uo, e, c)
                                    break
                            if bad:
                                break
                    ctx.ob('A-OPEN', '%s factory cached=True -> no update of the raw backend with an empty seed' % lab, bad is None)
                    if bad is not None:
                        uo, e, c = bad
                        ctx.fail('A-OPEN', new.qual, 'opening a cached %s rewrites the store' % lab,
                                 'archives.%s(name) (cached=True, no seed) calls %s.update({}) on the raw backend, which performs a %s on the existing store (%s): merely '
                                 'opening the default, cached handle reads the store and writes the snapshot back - a store another process completed in between is lost'
                                 % (nm, lab, c, wh(pci, e.line)), '%s:%d' % (m.rel, raw[0].line), render_path(uo))
            if do_open and cached is False and dict_none is True:
                ups = [e for e in o.st.events if e.kind == 'AUPDATE']
                priv_label = [l for l in ARCHIVE_CLASSES if l.split('[')[0] == nm]
                for lab in priv_label:
                    if lab not in PERSISTENT:
                        continue
                    pci = am.classes[lab]
                    if not ups:
                        ctx.ob('A-OPEN', '%s factory (update skipped for empty seed)' % lab)
                        continue
                    seed = ups[0].args[1] if len(ups[0].args) > 1 else None
                    if seed != ('dict', ()):
                        ctx.ob('A-OPEN', '%s factory' % lab)
                        continue
                    ufi = pci.methods.get('update')
                    pa = [x.arg for x in ufi.node.args.args]
                    params = {pa[1]: ('dict', ())}
                    if ufi.node.args.kwarg:
                        params[ufi.node.args.kwarg.arg] = ('dict', ())
                    fi, uouts, e2 = cache.outs(pci, 'update', params=params, key='emptyseed')
                    bad = None
                    for uo in uouts:
                        for e, c in effects(uo):
                            if c in ('write', 'remove', 'clearall', 'rename'):
                                bad = (uo, e, c)
                                break
                        if bad:
                            break
                    ctx.ob('A-OPEN', '%s factory -> update({})' % lab, bad is None)
                    if bad is not None:
                        uo, e, c = bad
                        ctx.fail('A-OPEN', new.qual, 'opening %s rewrites the store' % lab,
                                 'archives.%s(name, cached=False) with no seed calls %s.update({}) which performs a %s on the existing store (%s): merely opening an '
                                 'archive rewrites it (lost update against a concurrent writer, crash window without any user write)' % (nm, lab, c, wh(pci, e.line)),
                                 '%s:%d' % (m.rel, ups[0].line), render_path(uo))
    # constructors: a write in __init__ must be guarded by "store does not exist yet"
    for ci in (archive_classes(repo, PERSISTENT) if do_open else []):
        fi, outs, eng = cache.outs(ci, '__init__')
        bad = None
        # inside the constructor the location is still the constructor's own first parameter (the state is being filled in)
        ia = fi.node.args
        loc = [x.arg for x in ia.args[1:2]]

        def own(t, loc=loc):
            return on_self_store(t) or contains_term(t, lambda x: x[0] == 'param' and x[1] in loc)
        for o in outs:
            for e, c in effects(o, own):
                if c in ('write', 'remove', 'clearall', 'rename', 'openw'):
                    # guarded by EXISTS(...) == False on this path?
                    guarded = False
                    ex = o.st.facts.get('existsof', {})
                    for t, b in o.st.facts.get('truth', {}).items():
                        # ... the store itself: a test on one of its listed entries ("this entry has no output file") says nothing about the store being new
                        if t in ex and b is False and not (ex[t] is not None and contains_term(ex[t], lambda x: x[0] == 'iter')):
                            guarded = True
                    if not guarded:
                        bad = (o, e, c)
        ctx.ob('A-OPEN', '%s.__init__' % ci.label, bad is None)
        if bad is not None:
            o, e, c = bad
            ctx.fail('A-OPEN', mq(ci, '__init__'), '__init__ %s unguarded' % c,
                     '%s.__init__ performs a %s on the store that is not guarded by "the store does not exist yet"' % (ci.label, c), wh(ci, e.line), render_path(o))


def rule_A_ABS(ctx, repo, cache):
    """directory archives identify their store by an absolute path on every construction path (so the handle itself after a chdir, its state,
    copies and pickles address the same store whatever the working directory is): pox.mkdir returns the absolute path of what it created,
    the "already exists" path takes os.path.abspath"""
    for lab in ('dir_archive', 'hdfdir_archive[hdf]'):
        ci = archive_classes(repo, [lab])[0]
        fi, outs, eng = cache.outs(ci, '__init__')
        good, bad = [], []
        for o in outs:
            if o.kind != RETURN:
                continue
            evs = o.st.events
            sets = [(i, e) for i, e in enumerate(evs) if e.kind == 'SELFSET' and e.args[0] == C('__state__') and len(e.args) > 2 and e.args[1] == C('id')]
            val = None
            if sets:
                i, e = sets[-1]
                val = e.args[2]
            else:
                # the location is recorded once, in the literal that initialises __state__
                for i, e in reversed(list(enumerate(evs))):
                    if e.kind == 'SELFSET' and e.args and e.args[0] == C('__state__') and len(e.args) == 2 and e.args[1][0] == 'dict':
                        for k_, v_ in e.args[1][1]:
                            if k_ == C('id'):
                                val = v_
                        break
            if val is None:
                continue
            is_abs = contains_term(val, lambda t: t[0] == 'call' and t[1][0] == 'lib' and t[1][1] in ('os.path.abspath', 'os.path.realpath')) \
                or any(x.kind == 'MKDIR' and x.line == e.line for x in evs[:i])
            (good if is_abs else bad).append((o, e))
        if not good and not bad:
            raise AnalysisError('anchor changed: %s.__init__ never records __state__[\'id\']' % lab)
        ctx.ob('A-ABS', lab, not bad)
        if bad:
            o, e = bad[0]
            ctx.fail('A-ABS', mq(ci, '__init__'), 'relative store id on some path',
                     '%s.__init__ records an absolute location on %d construction path(s) but the raw, possibly relative, argument on another (%s): a handle opened by relative '
                     'path, its state, copies and pickles then address a different directory after a chdir or in another process' % (lab, len(good), wh(ci, e.line)),
                     wh(ci, e.line), render_path(o))


# ---------------------------------------------------------------------------------------------
# A-FNAME: the key -> entry-name map of the directory archives
FNAME_STEPS = {
    'str': 'text of the key (1 and "1" alias: known, value-level)',
    'repr': 'repr of the key',
    'replace': "the frozen '-' -> '_' substitution (known aliasing of 'a-b' / 'a_b')",
    'encode': 'encoding', 'decode': 'decoding', 'format': 'formatting', 'join': 'joining', 'hexdigest': 'digest',
}


def rule_A_FNAME(ctx, repo, cache, aliasing=False):
    """the name an entry is stored under is computed from the whole key by the steps in FNAME_STEPS or a *named* digest: no truncation or
    case folding (two long keys would share an entry), nothing process dependent (builtin hash is salted per interpreter: a later session
    would look for the entry under another name)."""
    from .rules_keymaps import spine
    for lab in ('dir_archive', 'hdfdir_archive[hdf]'):
        ci = archive_classes(repo, [lab])[0]
        fi, outs, eng = cache.outs(ci, '_fname')
        if fi is None:
            raise AnalysisError('anchor vanished: %s._fname' % lab)
        a = fi.node.args.args
        if len(a) < 2:
            raise AnalysisError('anchor changed: %s._fname(self, key)' % lab)
        keyp = ('param', a[1].arg)
        n = 0
        # ... and every key has a name: the mapping refuses nothing of its own accord.  It runs inside lookups as well as stores, outside their try blocks:
        # a ValueError for "unsuitable" keys escapes from membership tests and from the wrappers' archive probe where a dict answers False / KeyError
        refuses = [x for x in ast.walk(fi.node) if isinstance(x, (ast.Raise, ast.Assert))]
        ctx.ob('A-FNAME', '%s._fname maps every key to a name (no raise of its own)' % lab, not refuses)
        for x in refuses:
            ctx.fail('A-FNAME', mq(ci, '_fname'), 'entry name refused for some keys',
                     '%s._fname raises for some keys (`%s`): the name is computed inside lookups, membership tests and deletions as well as stores, outside their '
                     'handlers - an archive that used to answer KeyError / False for such a key now fails with another exception, which escapes from the wrappers\' '
                     'archive probe before the function is evaluated' % (lab, ' '.join(unparse(x).split())[:60]), wh(ci, x.lineno))
        for o in outs:
            if o.kind != RETURN:
                continue
            n += 1
            sp = spine(o.val, lambda t: t == keyp)
            bad = None
            if sp is None:
                bad = 'the entry name does not derive from the key at all'
            else:
                for t in sp:
                    if t[0] == 'call':
                        f = t[1]
                        nm = f[2] if f[0] == 'attr' else (f[1].split('.')[-1] if f[0] == 'lib' else None)
                        if f[0] == 'lib' and f[1].endswith('crypto.hash'):
                            alg = t[2][1] if len(t[2]) > 1 else None
                            for k in t[3]:
                                if k[0] == 'kw' and k[1] == 'algorithm':
                                    alg = k[2]
                            if not (alg is not None and is_const(alg) and isinstance(alg[1], str)):
                                bad = 'a digest without a named algorithm falls back to the builtin hash, which is salted per interpreter process'
                        elif f == ('lib', 'hash') or nm in ('id', 'getpid', 'random'):
                            bad = 'the builtin %s is process dependent: another session would look for the entry under a different name' % nm
                        elif nm not in FNAME_STEPS:
                            bad = 'the step %s() between the key and the entry name is not known to keep distinct keys apart' % nm
                        elif nm == 'replace' and not (len(t[2]) == 2 and t[2][0] == C('-') and t[2][1] == C('_')):
                            bad = 'a further substitution (%s) maps more distinct keys to one entry name, and the stored key is never compared on lookup: ' \
                                  'a lookup of one key is served the entry of another' % ', '.join(render(x)[:20] for x in t[2])
                    elif t[0] == 'sub':
                        bad = 'the name is sliced / truncated (%s): keys that agree on the kept part share one entry' % render(t)[:60]
                    elif t[0] in ('attr', 'tuple', 'kw', 'star', 'phi', 'bin', 'fstr'):
                        continue
                    else:
                        bad = 'unrecognised step %s' % t[0]
                    if bad:
                        break
            ctx.ob('A-FNAME', '%s._fname path %d' % (lab, n), bad is None)
            if bad:
                ctx.fail('A-FNAME', mq(ci, '_fname'), bad[:70], '%s._fname: %s' % (lab, bad), wh(ci, o.line or fi.node.lineno), render_path(o))
            elif aliasing and sp is not None:
                # the frozen steps themselves are not injective: reported (as known findings) where "distinct keys never alias" is claimed
                names = [(t[1][2] if t[1][0] == 'attr' else t[1][1].split('.')[-1]) for t in sp if t[0] == 'call']
                if 'replace' in names:
                    ctx.ob('A-FNAME', '%s._fname injective substitution' % lab, False)
                    ctx.fail('A-FNAME', mq(ci, '_fname'), "entry name substitutes '-' by '_'",
                             "%s._fname replaces '-' by '_' in the entry name and the stored key is never compared on lookup: the keys 'a-b' and 'a_b' "
                             'share one entry (the second store overwrites the first, a lookup of one returns the other)' % lab, wh(ci, fi.node.lineno), render_path(o))
                if 'str' in names:
                    ctx.ob('A-FNAME', '%s._fname type-preserving name' % lab, False)
                    ctx.fail('A-FNAME', mq(ci, '_fname'), 'entry name is str(key)',
                             '%s._fname names the entry str(key): the keys 1 and "1" (and 1.0 / "1.0", None / "None") share one entry' % lab,
                             wh(ci, fi.node.lineno), render_path(o))
        if n == 0:
            raise AnalysisError('%s._fname has no return path' % lab)


SIB_READERS = ('__getitem__', 'get', 'pop', 'setdefault', '__asdict__', 'popitem')
SIB_WRITERS = ('__setitem__', 'update', 'setdefault')
DECODE_CALLS = ('load', 'loads', 'decode', 'decompress', 'read_zfile', 'literal_eval')
ENCODE_CALLS = ('dump', 'dumps', 'encode', 'compress', 'write_zfile')


def _self_closure(ci, name, calls_of_interest):
    """methods of the class reachable from method `name` through self.m(...) / self[k] / self[k] = v, and whether a call of interest occurs on the way"""
    seen, todo, direct = set(), [name], set()
    while todo:
        cur = todo.pop()
        if cur in seen or cur not in ci.methods:
            continue
        seen.add(cur)
        fn = ci.methods[cur].node
        selfn = fn.args.args[0].arg if fn.args.args else 'self'
        for n in ast.walk(fn):
            if isinstance(n, ast.Call):
                f = n.func
                if isinstance(f, ast.Attribute) and isinstance(f.value, ast.Name) and f.value.id == selfn:
                    todo.append(f.attr)
                else:
                    nm = f.attr if isinstance(f, ast.Attribute) else f.id if isinstance(f, ast.Name) else None
                    if nm in calls_of_interest:
                        direct.add(cur)
            elif isinstance(n, ast.Subscript) and isinstance(n.value, ast.Name) and n.value.id == selfn:
                todo.append('__getitem__' if isinstance(n.ctx, ast.Load) else '__setitem__' if isinstance(n.ctx, ast.Store) else '__delitem__')
    return seen, direct


def rule_A_SIBLINGS(ctx, repo):
    """A-CODEC (sibling readers / writers agree, Engler-style cross-check).  Within one archive class the value that `__getitem__` returns passes through
    the class's decoding routines (the methods on its path that call load / loads / decode ...).  Every other value-returning reader of the dict
    interface - get, pop, setdefault, popitem, __asdict__ (what cache.load() and dict(archive) use) - must pass through the same routines, or it hands
    out the stored representation (pickled bytes) instead of the value; likewise every writer passes through the encoders `__setitem__` uses."""
    m = repo.mod('_archives')
    n = 0
    for lab, ci in sorted(m.classes.items()):
        if 'archive' not in ci.name or '__getitem__' not in ci.methods:
            continue
        for kind, base, sibs, calls in (('decoding', '__getitem__', SIB_READERS, DECODE_CALLS), ('encoding', '__setitem__', SIB_WRITERS, ENCODE_CALLS)):
            if base not in ci.methods:
                continue
            reach, need = _self_closure(ci, base, calls)
            # routines shared with the other direction do not count (a _lookup that is also used to store is judged once, as a decoder)
            if not need:
                ctx.ob('A-CODEC', '%s: %s applies no %s routine of its own' % (lab, base, kind), True)
                continue
            for s in sibs:
                if s == base or s not in ci.methods:
                    continue
                if kind == 'encoding' and s == 'setdefault':
                    pass
                r2, d2 = _self_closure(ci, s, calls)
                missing = sorted(x for x in need if x not in r2)
                # a sibling that is itself such a routine (file_archive.__asdict__ reads and decodes the whole file) is fine
                ok = not missing or s in need
                n += 1
                ctx.ob('A-CODEC', '%s.%s reaches the %s routines of %s (%s)' % (lab, s, kind, base, ','.join(sorted(need))), ok)
                if not ok:
                    ctx.fail('A-CODEC', mq(ci, s), '%s without %s' % (s, ','.join(missing)),
                             '%s.%s %s: %s goes through %s, %s does not. The two siblings of the dict interface disagree about the representation of a '
                             'value - %s' % (lab, s, 'returns what is stored without decoding it' if kind == 'decoding' else 'stores the value without encoding it',
                                             base, ', '.join(missing), s,
                                             'cache.load() / dict(archive) / pop() hand out pickled bytes where d[key] returns the object' if kind == 'decoding'
                                             else 'a later d[key] tries to decode what was never encoded'), wh(ci, ci.methods[s].node.lineno))
    if n < 8:
        raise AnalysisError('A-CODEC siblings: only %d reader / writer pairs compared (dir_archive, file_archive and hdf_archive alone give more)' % n)


NOT_DATA_ROOTS = ('kwds', 'kwargs', 'globals', 'locals', 'state', 'config', 'environ', 'os', 'sys', 'options', 'settings')


def rule_A_NONE_ABSENT(ctx, repo, modules=('_archives',)):
    """A-KEYERR (presence is never decided from the value).  `d.get(k)` answers None both for an absent key and for a key whose stored value is None (a
    function that returns None is memoised like any other).  A method of an archive / cache class that binds `x = <data>.get(k)` (no default, or the
    default None) and then tests `x is None`, `x == None` or the truth of x treats a stored None (or 0, '', [] for the truth test) as "nothing stored":
    setdefault overwrites it, load skips it, lookup raises KeyError, dump drops it.  Presence is asked with `in`, KeyError or a private sentinel default."""
    n_get = 0
    for mn in modules:
        m = repo.mod(mn)
        for fn in [x for x in ast.walk(m.tree) if isinstance(x, ast.FunctionDef)]:
            def is_plain_get(c):
                if not (isinstance(c, ast.Call) and isinstance(c.func, ast.Attribute) and c.func.attr == 'get' and not c.keywords):
                    return False
                if any(isinstance(a, ast.Starred) for a in c.args):
                    return False
                if len(c.args) == 2 and not (isinstance(c.args[1], ast.Constant) and c.args[1].value is None):
                    return False
                if len(c.args) not in (1, 2):
                    return False
                root = c.func.value
                while isinstance(root, (ast.Attribute, ast.Call, ast.Subscript)):
                    root = root.func if isinstance(root, ast.Call) else root.value
                if isinstance(root, ast.Name) and root.id in NOT_DATA_ROOTS:
                    return False
                rv = c.func.value
                if isinstance(rv, ast.Attribute) and rv.attr in ('__state__', '__dict__', '_config', 'state'):
                    return False
                if isinstance(rv, ast.Subscript):      # self.__state__['config'].get(...)
                    return False
                return True
            got = {}
            for n in walk_own(fn):
                if isinstance(n, ast.Assign) and len(n.targets) == 1 and isinstance(n.targets[0], ast.Name) and is_plain_get(n.value):
                    got[n.targets[0].id] = n
                elif isinstance(n, ast.NamedExpr) and is_plain_get(n.value):
                    got[n.target.id] = n
            n_get += sum(1 for n in walk_own(fn) if is_plain_get(n))
            def is_val(e):
                return (isinstance(e, ast.Name) and e.id in got) or is_plain_get(e) or (isinstance(e, ast.NamedExpr) and is_plain_get(e.value))
            bad = []
            for n in walk_own(fn):
                if isinstance(n, ast.Compare) and len(n.ops) == 1 and isinstance(n.ops[0], (ast.Is, ast.IsNot, ast.Eq, ast.NotEq)):
                    a, b = n.left, n.comparators[0]
                    for x, y in ((a, b), (b, a)):
                        if is_val(x) and isinstance(y, ast.Constant) and y.value is None:
                            bad.append((n, 'compared with None'))
                tests = []
                if isinstance(n, (ast.If, ast.While, ast.IfExp)):
                    tests.append(n.test)
                elif isinstance(n, ast.Assert):
                    tests.append(n.test)
                for t in tests:
                    todo = [t]
                    while todo:
                        e = todo.pop()
                        if isinstance(e, ast.BoolOp):
                            todo.extend(e.values)
                        elif isinstance(e, ast.UnaryOp) and isinstance(e.op, ast.Not):
                            todo.append(e.operand)
                        elif is_val(e):
                            bad.append((e, 'tested for truth'))
            ctx.ob('A-KEYERR', None, not bad) if (got or bad) else None
            for node, how in bad[:1]:
                ctx.fail('A-KEYERR', '%s::%s' % (m.rel, fn.name), 'presence decided from the value of get()',
                         '%s (%s:%d) takes `%s` and the result is %s to decide whether something is stored: a stored None%s is then handled as if the key were '
                         'absent (overwritten by setdefault / skipped by load or dump / reported as KeyError), although a function result None is a result like '
                         'any other' % (fn.name, m.rel, node.lineno, '.get(key)', how, ' (or any falsy value)' if how.endswith('truth') else ''),
                         '%s:%d' % (m.rel, node.lineno))
    ctx.ob('A-KEYERR', 'no presence test on the value of a default-less get() (%d get() calls on data inspected)' % n_get, True)


def walk_own(fn):
    """nodes of a function body without the bodies of nested functions"""
    todo = list(fn.body)
    while todo:
        n = todo.pop()
        yield n
        if isinstance(n, (ast.FunctionDef, ast.AsyncFunctionDef, ast.Lambda, ast.ClassDef)):
            continue
        todo.extend(ast.iter_child_nodes(n))


_RD_OPTS = ('object_hook', 'object_pairs_hook', 'parse_float', 'parse_int', 'parse_constant', 'cls')
_WR_OPTS = ('default', 'skipkeys', 'cls', 'ensure_ascii', 'allow_nan')
# ensure_ascii=False: the text is no longer pure ASCII, so what a reader gets depends on the locale encodings of the writing and the reading process (and a str
# with a lone surrogate, which was stored as an escape, makes the write fail); allow_nan=False: a result holding nan / inf can no longer be stored
_OPT_DEFAULTS = {'ensure_ascii': True, 'allow_nan': True, 'skipkeys': False, 'default': None, 'cls': None, 'object_hook': None, 'object_pairs_hook': None,
                 'parse_float': None, 'parse_int': None, 'parse_constant': None}
CODEC_OPTIONS = {'load': _RD_OPTS, 'loads': _RD_OPTS, 'dump': _WR_OPTS, 'dumps': _WR_OPTS}


def _is_default(opt, node):
    return opt in _OPT_DEFAULTS and isinstance(node, ast.Constant) and node.value == _OPT_DEFAULTS[opt] and type(node.value) is type(_OPT_DEFAULTS[opt])


def rule_A_CODEC_CONFIG(ctx, repo):
    """A-CODEC (whether a value is encoded is decided by the archive's settings, never by looking at the value).  A writer that pickles only "what the backend
    cannot store natively" and a reader that unpickles "what looks like a pickle" are not inverses: a user's own bytes that happen to be a pickle
    (a cached function returning pickled data) come back decoded - the archive returns another object than the one stored.  In every method of an archive
    class, a dump(s) / load(s) / encode / decode applied to a parameter is not guarded by a test of that parameter, and not wrapped in a try whose handler
    falls back to the raw parameter."""
    m = repo.mod('_archives')
    n = 0

    class _ModFuncs(object):       # module-level helpers of _archives.py are judged like methods (no self)
        name = ''
        label = m.rel
        qual = m.rel
        module = m
    units = []
    for lab, ci in sorted(m.classes.items()):
        if 'archive' in ci.name:
            for mname, fi in sorted(ci.own_methods.items() if hasattr(ci, 'own_methods') else ci.methods.items()):
                units.append((lab, ci, mname, fi, 1))
    for fname, fi in sorted(m.functions.items()):
        units.append((m.rel, _ModFuncs, fname, fi, 0))
    for lab, ci, mname, fi, skip in units:
        if True:
            fn = fi.node
            params = set(a.arg for a in fn.args.posonlyargs + fn.args.args[skip:] + fn.args.kwonlyargs)
            if not params:
                continue
            # for conv in (int, float): ... conv(x)
            loopfuncs = {}
            for x in ast.walk(fn):
                if isinstance(x, ast.For) and isinstance(x.target, ast.Name) and isinstance(x.iter, (ast.Tuple, ast.List)) and all(isinstance(e, ast.Name) for e in x.iter.elts):
                    loopfuncs[x.target.id] = [e.id for e in x.iter.elts]
            parent = {}
            for x in ast.walk(fn):
                for c in ast.iter_child_nodes(x):
                    parent[c] = x
            for call in ast.walk(fn):
                if not isinstance(call, ast.Call):
                    continue
                nm = call.func.attr if isinstance(call.func, ast.Attribute) else call.func.id if isinstance(call.func, ast.Name) else None
                conv = False
                if nm in loopfuncs and any(x in ('int', 'float', 'complex', 'eval', 'literal_eval') for x in loopfuncs[nm]):
                    nm, conv = '/'.join(loopfuncs[nm]), True
                elif nm in ('int', 'float', 'complex', 'literal_eval') and isinstance(call.func, (ast.Name, ast.Attribute)):
                    conv = True
                if not conv and nm not in ('loads', 'dumps', 'decode', 'encode', 'decompress', 'compress'):
                    continue
                data = set(x.id for a in call.args for x in ast.walk(a) if isinstance(x, ast.Name) and x.id in params)
                if not data:
                    continue
                n += 1
                guards, fallbacks = [], []
                cur = call
                while cur in parent and cur is not fn:
                    p = parent[cur]
                    if isinstance(p, (ast.If, ast.While)) and cur is not p.test:
                        guards.append(p.test)
                    elif isinstance(p, ast.IfExp) and cur is not p.test:
                        guards.append(p.test)
                    elif isinstance(p, ast.Try) and cur in p.body:
                        fallbacks.extend(p.handlers)
                    # earlier siblings that leave the block early
                    for fld in ('body', 'orelse', 'finalbody'):
                        blk = getattr(p, fld, None)
                        if isinstance(blk, list) and cur in blk:
                            for st_ in blk[:blk.index(cur)]:
                                if isinstance(st_, ast.If) and any(isinstance(y, (ast.Return, ast.Raise, ast.Continue, ast.Break)) for y in ast.walk(st_)):
                                    guards.append(st_.test)
                    cur = p
                # names assigned from a test of the data (ispickle = value.startswith(PROTO)) carry the test
                derived = set(data)
                for x in ast.walk(fn):
                    if isinstance(x, ast.Assign) and any(isinstance(y, ast.Name) and y.id in data for y in ast.walk(x.value)) \
                            and not any(isinstance(y, ast.Call) and y is call for y in ast.walk(x.value)):
                        for t in x.targets:
                            if isinstance(t, ast.Name) and t.id not in params:
                                derived.add(t.id)
                bad_guard = [g for g in guards if any(isinstance(y, ast.Name) and y.id in derived for y in ast.walk(g))]
                bad_fb = [h for h in fallbacks if any(isinstance(y, ast.Name) and y.id in data for st_ in h.body for y in ast.walk(st_))]
                if conv:
                    # a type conversion is "sniffing" only in the try-it-and-fall-back form: try: return int(x) / except: pass ... return x
                    bad_guard = []
                    returns_raw = any(isinstance(r, ast.Return) and isinstance(r.value, ast.Name) and r.value.id in data for r in ast.walk(fn))
                    bad_fb = [h for h in fallbacks if returns_raw or any(isinstance(y, ast.Name) and y.id in data for st_ in h.body for y in ast.walk(st_))]
                    if not bad_fb:
                        n -= 1
                        continue
                ok = not bad_guard and not bad_fb
                ctx.ob('A-CODEC', '%s.%s: %s(%s) depends on settings only' % (lab, mname, nm, ','.join(sorted(data))), ok)
                if not ok:
                    what = ('guarded by `%s`' % unparse(bad_guard[0])[:60]) if bad_guard else 'in a try that falls back to the raw value'
                    ctx.fail('A-CODEC', mq(ci, mname) if skip else '%s::%s' % (m.rel, mname), '%s of %s decided by the value itself' % (nm, ','.join(sorted(data))),
                             '%s.%s applies %s to %s %s: whether a stored value is (de)coded depends on what the value looks like, so writer and reader are not '
                             'inverses - bytes that a user stored and that happen to be a valid pickle are read back as the unpickled object, and a value the test '
                             'misjudges is returned in its stored representation' % (lab, mname, nm, ','.join(sorted(data)), what), '%s:%d' % (m.rel, call.lineno))
    ctx.ob('A-CODEC', 'codec calls on parameters examined', True, n=max(n, 1))
    # ... and the serializer is called without options that rewrite what it carries: a reader's object_hook / object_pairs_hook / parse_* is applied to EVERY
    # object, number or constant of the document - also those inside stored results - and a writer's default= / skipkeys= stores something else than was given
    nopt = 0
    for lab, ci, mname, fi, skip in units:
        fn = fi.node
        for call in ast.walk(fn):
            if not (isinstance(call, ast.Call) and isinstance(call.func, ast.Attribute) and call.func.attr in CODEC_OPTIONS):
                continue
            recv = call.func.value
            if not isinstance(recv, ast.Name) or recv.id in ('self', 'cache', 'archive'):
                continue
            nopt += 1
            given = [(k.arg, call.lineno) for k in call.keywords if k.arg and not _is_default(k.arg, k.value)]
            for k in call.keywords:
                if k.arg is None and isinstance(k.value, ast.Dict):
                    given += [(kk.value, call.lineno) for kk, vv in zip(k.value.keys, k.value.values) if isinstance(kk, ast.Constant) and not _is_default(kk.value, vv)]
                elif k.arg is None and isinstance(k.value, ast.Name):
                    # **kwd: every dict literal the name is bound to in this function (pik, mode, kwd = json, 'w', {})
                    for x in ast.walk(fn):
                        if not isinstance(x, ast.Assign):
                            continue
                        for t in x.targets:
                            vals = []
                            if isinstance(t, ast.Name) and t.id == k.value.id:
                                vals = [x.value]
                            elif isinstance(t, ast.Tuple) and isinstance(x.value, ast.Tuple) and len(t.elts) == len(x.value.elts):
                                vals = [v for tt, v in zip(t.elts, x.value.elts) if isinstance(tt, ast.Name) and tt.id == k.value.id]
                            for v in vals:
                                if isinstance(v, ast.Dict):
                                    given += [(kk.value, x.lineno) for kk, vv in zip(v.keys, v.values) if isinstance(kk, ast.Constant) and not _is_default(kk.value, vv)]
                                elif isinstance(v, ast.Call) and isinstance(v.func, ast.Name) and v.func.id == 'dict':
                                    given += [(kw.arg, x.lineno) for kw in v.keywords if kw.arg and not _is_default(kw.arg, kw.value)]
            bad = [(o_, ln) for o_, ln in given if o_ in CODEC_OPTIONS[call.func.attr]]
            if any(o_ == 'ensure_ascii' for o_, _ in bad):
                # raw text is as good as escapes when every file of this routine is opened with an explicit unicode encoding that passes lone surrogates
                opens = [c for c in ast.walk(fn) if isinstance(c, ast.Call) and isinstance(c.func, ast.Name) and c.func.id == 'open']
                if opens and all(any(k.arg == 'encoding' for k in c.keywords) and any(k.arg == 'errors' and isinstance(k.value, ast.Constant)
                                 and k.value.value == 'surrogatepass' for k in c.keywords) for c in opens):
                    bad = [(o_, ln) for o_, ln in bad if o_ != 'ensure_ascii']
            ctx.ob('A-CODEC', '%s.%s: %s.%s(...) rewrites nothing on the way (%s)' % (lab, mname, recv.id, call.func.attr, ','.join(sorted(str(o_) for o_, _ in given)) or 'no options'), not bad)
            if bad:
                o_, ln = bad[0]
                ctx.fail('A-CODEC', mq(ci, mname) if skip else '%s::%s' % (m.rel, mname), '%s.%s(..., %s=...)' % (recv.id, call.func.attr, o_),
                         '%s.%s passes %s= to %s.%s: the hook is applied to every object / number of the stored document, not only to the archive\'s own key -> value '
                         'table, so a stored result that contains such an item (a dict with numeral-looking keys, a float, a NaN) is read back - or written - as something '
                         'else than the function returned' % (lab, mname, o_, recv.id, call.func.attr), '%s:%d' % (m.rel, ln))
    if nopt < 4:
        raise AnalysisError('A-CODEC (options): fewer than four serializer calls found in klepto/_archives.py (dir_archive / file_archive readers and writers are anchors)')
    if n < 2:
        raise AnalysisError('A-CODEC (configuration-driven): fewer than two codec calls on a parameter found (hdf_archive._loadval / _dumpval are anchors)')


CODEC_SETTINGS = ('protocol', 'serialized', 'compression', 'fast', 'memmode', 'meta')


def rule_A_SETTINGS_EXPLICIT(ctx, repo):
    """A-CODEC (the format of a store is what the caller configured).  In the constructor of an archive class the settings that select the codec
    (protocol, serialized, compression, ...) come from the corresponding arguments (and their documented interplay) - never from the *location*:
    `if filename.endswith('.json'): protocol = 'json'` silently writes JSON into what the caller configured as a pickle archive (tuples come back as
    lists, non-string keys as strings).  The location may be adjusted to the settings (the '.py' suffix of an unserialised archive), not the reverse."""
    m = repo.mod('_archives')
    n = 0
    for lab, ci in sorted(m.classes.items()):
        init = ci.own_methods.get('__init__') if hasattr(ci, 'own_methods') else ci.methods.get('__init__')
        if 'archive' not in ci.name or init is None or len(init.node.args.args) < 2:
            continue
        fn = init.node
        loc = fn.args.args[1].arg
        locs = set([loc])
        changed = True
        while changed:
            changed = False
            for x in ast.walk(fn):
                if isinstance(x, ast.Assign) and len(x.targets) == 1 and isinstance(x.targets[0], ast.Name) and x.targets[0].id not in locs \
                        and x.targets[0].id not in CODEC_SETTINGS and any(isinstance(y, ast.Name) and y.id in locs for y in ast.walk(x.value)):
                    locs.add(x.targets[0].id)
                    changed = True
        parent = {}
        for x in ast.walk(fn):
            for c in ast.iter_child_nodes(x):
                parent[c] = x
        for x in ast.walk(fn):
            tgt = None
            if isinstance(x, (ast.Assign, ast.AugAssign)):
                for t in (x.targets if isinstance(x, ast.Assign) else [x.target]):
                    if isinstance(t, ast.Name) and t.id in CODEC_SETTINGS:
                        tgt = t.id
                    elif isinstance(t, ast.Subscript) and isinstance(t.slice, ast.Constant) and t.slice.value in CODEC_SETTINGS:
                        tgt = t.slice.value
            if tgt is None:
                continue
            n += 1
            guards = []
            cur = x
            while cur in parent and cur is not fn:
                p = parent[cur]
                if isinstance(p, ast.If):
                    guards.append(p.test)
                    # an elif / else arm is also decided by the tests of the arms before it
                    q = p
                    while q in parent and isinstance(parent[q], ast.If) and q in parent[q].orelse:
                        q = parent[q]
                        guards.append(q.test)
                cur = p
            # only the test that selects this assignment (its own arm) counts; earlier arms' tests are there because they were *false*
            own = [g for g in guards[:1]] if guards else []
            uses_loc = [g for g in own if any(isinstance(y, ast.Name) and y.id in locs for y in ast.walk(g))]
            from_loc = any(isinstance(y, ast.Name) and y.id in locs for y in ast.walk(x.value))
            ok = not uses_loc and not from_loc
            ctx.ob('A-CODEC', '%s.__init__: %s is set from the arguments, not from %s' % (lab, tgt, loc), ok)
            if not ok:
                ctx.fail('A-CODEC', mq(ci, '__init__'), 'setting %s derived from the location' % tgt,
                         '%s.__init__ sets %s %s: the format the archive is written in then follows the *name* the caller chose instead of the settings the caller '
                         'passed (or the documented defaults) - an archive configured as pickle is written as something else, and values come back changed (tuples '
                         'as lists, integer keys as strings)' % (lab, tgt, ('under `%s`' % unparse(uses_loc[0])[:60]) if uses_loc else 'from `%s`' % loc),
                         wh(ci, x.lineno))
    ctx.ob('A-CODEC', 'assignments of codec settings in constructors examined', True, n=max(n, 1))
    if n < 3:
        raise AnalysisError('A-CODEC (explicit settings): fewer than three assignments of codec settings found in the archive constructors')


def rule_A_RED_DERIVED(ctx, repo):
    """A-RED (nothing derived from the settings is remembered outside __state__).  The archive classes pickle as (class, a few constructor arguments,
    {'__state__': ...}): unpickling runs __init__ with those few arguments - every other setting at its default - and only then puts the real __state__
    back.  An attribute that __init__ computes from the settings (`self._file = 'output.json' if protocol is json ...`) is therefore computed from the
    *defaults* in the clone and never refreshed: the clone reads other file names / another format than the original.  Allowed: attributes that depend only
    on the constructor arguments __reduce__ passes."""
    m = repo.mod('_archives')
    n = 0
    for lab, ci in sorted(m.classes.items()):
        own = ci.own_methods if hasattr(ci, 'own_methods') else ci.methods
        init, red = own.get('__init__'), ci.methods.get('__reduce__')
        if 'archive' not in ci.name or init is None or red is None:
            continue
        rets = [r for r in ast.walk(red.node) if isinstance(r, ast.Return) and isinstance(r.value, ast.Tuple) and len(r.value.elts) >= 2 and isinstance(r.value.elts[1], ast.Tuple)]
        if not rets:
            continue
        k = min(len(r.value.elts[1].elts) for r in rets)
        fn = init.node
        selfn = fn.args.args[0].arg
        params = [a.arg for a in fn.args.args[1:]]
        passed = set(params[:k])
        allp = set(params) | set(a.arg for a in fn.args.kwonlyargs) | (set([fn.args.kwarg.arg]) if fn.args.kwarg else set()) | (set([fn.args.vararg.arg]) if fn.args.vararg else set())
        # which parameters each key of the __state__ literal comes from
        state_src = {}
        for x in ast.walk(fn):
            if isinstance(x, ast.Assign) and any(isinstance(t, ast.Attribute) and t.attr == '__state__' for t in x.targets) and isinstance(x.value, ast.Dict):
                for kk, vv in zip(x.value.keys, x.value.values):
                    if isinstance(kk, ast.Constant):
                        state_src[kk.value] = set(y.id for y in ast.walk(vv) if isinstance(y, ast.Name) and y.id in allp)
        parent = {}
        for x in ast.walk(fn):
            for c in ast.iter_child_nodes(x):
                parent[c] = x

        localdeps = {}

        def deps(expr):
            out = set()
            for y in ast.walk(expr):
                if isinstance(y, ast.Name) and y.id in allp:
                    out.add(y.id)
                elif isinstance(y, ast.Name) and y.id in localdeps:
                    out |= localdeps[y.id]
                if isinstance(y, ast.Subscript) and isinstance(y.value, ast.Attribute) and y.value.attr == '__state__' and isinstance(y.slice, ast.Constant):
                    out |= state_src.get(y.slice.value, set(['<state %s>' % y.slice.value]))
                # self._get_names() / self._file: a method or property of the class that reads the settings carries their dependences
                if isinstance(y, ast.Attribute) and isinstance(y.value, ast.Name) and y.value.id == selfn and isinstance(y.ctx, ast.Load):
                    bodies = []
                    if y.attr in ci.methods and y.attr != '__init__':
                        bodies.append(ci.methods[y.attr].node)
                    if y.attr in ci.properties and ci.properties[y.attr][0] is not None:
                        bodies.append(ci.properties[y.attr][0].node)
                    for b in bodies:
                        for z in ast.walk(b):
                            if isinstance(z, ast.Subscript) and isinstance(z.value, ast.Attribute) and z.value.attr == '__state__' and isinstance(z.slice, ast.Constant):
                                out |= state_src.get(z.slice.value, set(['<state %s>' % z.slice.value]))
            return out
        # locals computed from the arguments (protocol = kwds.get('protocol', None)) carry their dependences
        for _round in range(4):
            for x in ast.walk(fn):
                if isinstance(x, ast.Assign) and len(x.targets) == 1 and isinstance(x.targets[0], ast.Name) and x.targets[0].id not in allp:
                    localdeps[x.targets[0].id] = localdeps.get(x.targets[0].id, set()) | deps(x.value)
        for x in ast.walk(fn):
            if not isinstance(x, ast.Assign):
                continue
            names = []
            for t in x.targets:
                for e in (t.elts if isinstance(t, ast.Tuple) else [t]):
                    if isinstance(e, ast.Attribute) and isinstance(e.value, ast.Name) and e.value.id == selfn and e.attr != '__state__':
                        names.append(e.attr)
            if not names:
                continue
            n += 1
            d = deps(x.value)
            cur = x
            while cur in parent and cur is not fn:
                p = parent[cur]
                if isinstance(p, ast.If):
                    d |= deps(p.test)
                    q = p
                    while q in parent and isinstance(parent[q], ast.If) and q in parent[q].orelse:
                        q = parent[q]
                        d |= deps(q.test)
                cur = p
            stale = sorted(d - passed)
            ctx.ob('A-RED', '%s.__init__: self.%s depends only on what __reduce__ hands back to the constructor' % (lab, '/'.join(names)), not stale)
            if stale:
                ctx.fail('A-RED', mq(ci, '__init__'), 'self.%s derived from %s, which __reduce__ does not pass' % ('/'.join(names), ', '.join(stale)),
                         '%s.__init__ computes self.%s from %s, but %s.__reduce__ rebuilds the archive from (%s) only and restores __state__ afterwards: in an unpickled '
                         'archive (a pickled cached function, a copy) the attribute keeps the value computed from the defaults - the clone then looks for other file '
                         'names / uses another format than the original and misses what the original finds' % (lab, '/'.join(names), ', '.join(stale), lab, ', '.join(params[:k])),
                         wh(ci, x.lineno))
    ctx.ob('A-RED', 'instance attributes besides __state__ set by the constructors of pickled archive classes', True, n=n)


def rule_A_ZSTREAM(ctx, repo):
    """A-CODEC (zlib streaming protocol).  `Decompress.decompress(data, max_length)` returns at most max_length bytes and parks the input it did not consume in
    `unconsumed_tail`; a loop that passes a max_length and never feeds `unconsumed_tail` back drops compressed input as soon as one block expands beyond the
    cap - the stream position is lost and a larger compressed entry can no longer be read (dir_archive turns the error into KeyError: the stored result is gone).
    One-shot `zlib.decompress(data, wbits, bufsize)` (today's form) is not affected: its third argument is a buffer size hint, not a cap."""
    n = 0
    for name in ('_pickle', '_archives'):
        m = repo.mod(name)
        for fn in [x for x in ast.walk(m.tree) if isinstance(x, ast.FunctionDef)]:
            objs = set()
            for x in ast.walk(fn):
                if isinstance(x, ast.Assign) and len(x.targets) == 1 and isinstance(x.targets[0], ast.Name) and isinstance(x.value, ast.Call):
                    f = x.value.func
                    nm = f.attr if isinstance(f, ast.Attribute) else f.id if isinstance(f, ast.Name) else ''
                    if nm == 'decompressobj':
                        objs.add(x.targets[0].id)
            for x in ast.walk(fn):
                if isinstance(x, ast.Call) and isinstance(x.func, ast.Attribute) and x.func.attr == 'decompress' and isinstance(x.func.value, ast.Name) and x.func.value.id in objs:
                    n += 1
                    capped = len(x.args) >= 2 or any(k.arg == 'max_length' for k in x.keywords)
                    feeds = any(isinstance(y, ast.Attribute) and y.attr == 'unconsumed_tail' for y in ast.walk(fn))
                    ok = not capped or feeds
                    ctx.ob('A-CODEC', '%s::%s streaming decompress keeps its input' % (m.rel, fn.name), ok)
                    if not ok:
                        ctx.fail('A-CODEC', '%s::%s' % (m.rel, fn.name), 'decompress(data, max_length) without unconsumed_tail',
                                 '%s calls %s.decompress(%s) with an output cap and never reads unconsumed_tail: compressed input beyond what fits the cap is dropped, the next '
                                 'block is fed at the wrong stream position, and an entry whose compressed form is longer than one block cannot be read back'
                                 % (fn.name, x.func.value.id, ', '.join(unparse(a)[:20] for a in x.args)), '%s:%d' % (m.rel, x.lineno))
    ctx.ob('A-CODEC', 'streaming decompress calls examined (none today: read_zfile decompresses in one shot)', True, n=max(n, 1))
    # ... and the reader refuses nothing the writer accepted: no raise / assert on the read path of klepto/_pickle.py is conditioned on a caller-supplied
    # option (a parameter with a default - a size limit, a strictness flag - or an attribute a constructor filled from one).  The writer has no such
    # limit, dir_archive turns every read failure into KeyError, and the wrappers take KeyError for "not archived": an entry over the limit is stored
    # without complaint and can never be read back
    m = repo.mod('_pickle')
    funcs = {}
    classes = {}
    for x in ast.walk(m.tree):
        if isinstance(x, ast.ClassDef):
            classes[x.name] = x
    for x in ast.walk(m.tree):
        if isinstance(x, ast.FunctionDef):
            funcs.setdefault(x.name, []).append(x)
    if 'load' not in funcs:
        raise AnalysisError('anchor vanished: klepto/_pickle.py::load')
    reach, todo = set(), list(funcs['load']) + list(funcs.get('read_zfile', []))
    while todo:
        fn = todo.pop()
        if id(fn) in reach:
            continue
        reach.add(id(fn))
        for c in ast.walk(fn):
            if isinstance(c, ast.Call):
                nm = c.func.attr if isinstance(c.func, ast.Attribute) else c.func.id if isinstance(c.func, ast.Name) else None
                if nm in classes:
                    todo.extend(y for y in ast.walk(classes[nm]) if isinstance(y, ast.FunctionDef))
                    for b in classes[nm].bases:
                        if isinstance(b, ast.Name) and b.id in classes:
                            todo.extend(y for y in ast.walk(classes[b.id]) if isinstance(y, ast.FunctionDef))
                elif nm in funcs and nm not in ('dump',):
                    todo.extend(funcs[nm])
    opt_attrs = set()
    readers = [fn for fl in funcs.values() for fn in fl if id(fn) in reach]
    for fn in readers:
        a = fn.args
        opts = set(x.arg for x in a.args[len(a.args) - len(a.defaults):]) | set(x.arg for x, d in zip(a.kwonlyargs, a.kw_defaults) if d is not None)
        for x in ast.walk(fn):
            if isinstance(x, ast.Assign) and isinstance(x.value, ast.Name) and x.value.id in opts:
                for t in x.targets:
                    if isinstance(t, ast.Attribute) and isinstance(t.value, ast.Name) and t.value.id == 'self':
                        opt_attrs.add(t.attr)
    nr = 0
    for fn in readers:
        a = fn.args
        opts = set(x.arg for x in a.args[len(a.args) - len(a.defaults):]) | set(x.arg for x, d in zip(a.kwonlyargs, a.kw_defaults) if d is not None)
        opts -= set(['mmap_mode'])       # where the data is mapped, not whether it is accepted
        parent = {}
        for x in ast.walk(fn):
            for c in ast.iter_child_nodes(x):
                parent[c] = x
        for x in ast.walk(fn):
            if not isinstance(x, (ast.Raise, ast.Assert)):
                continue
            nr += 1
            tests = [x.test] if isinstance(x, ast.Assert) else []
            cur = x
            while cur in parent and cur is not fn:
                p_ = parent[cur]
                if isinstance(p_, ast.If) and cur is not p_.test:
                    tests.append(p_.test)
                cur = p_
            hit = None
            for t in tests:
                for y in ast.walk(t):
                    if (isinstance(y, ast.Name) and y.id in opts) or (isinstance(y, ast.Attribute) and isinstance(y.value, ast.Name) and y.value.id == 'self' and y.attr in opt_attrs):
                        # ... in a comparison of magnitudes (a limit), not a mere presence test
                        if any(isinstance(c, ast.Compare) and any(isinstance(o, (ast.Gt, ast.GtE, ast.Lt, ast.LtE)) for o in c.ops) and any(z is y for z in ast.walk(c)) for c in ast.walk(t)):
                            hit = y
            ctx.ob('A-CODEC', '%s::%s line %d: the reader\'s refusal does not hang on a caller-supplied limit' % (m.rel, fn.name, x.lineno), hit is None)
            if hit is not None:
                ctx.fail('A-CODEC', '%s::%s' % (m.rel, fn.name), 'reader-side limit %s' % unparse(hit),
                         '%s refuses what it reads when it exceeds `%s`, an option of the reader that the writer does not apply: an entry over the limit is written without '
                         'complaint, the refusal is turned into KeyError by dir_archive._lookup and taken for "not archived" by cache.load - the stored result can never '
                         'be read back and is recomputed by every call and every later session' % (fn.name, unparse(hit)), '%s:%d' % (m.rel, x.lineno))
    ctx.ob('A-CODEC', 'raise / assert statements on the read path of klepto/_pickle.py examined', True, n=max(nr, 1))


def rule_A_PATHNORM(ctx, repo):
    """A-PATH (two paths are compared in one normal form).  An archive keeps its location as given or as os.path.abspath(...); a test that compares it (==, !=, in,
    startswith, commonpath) with a path that went through os.path.realpath - or the reverse - answers "different" whenever the location is reached through a
    symbolic link (a linked home, /tmp on macOS, a project checked out under a link), although both name the same directory.  Such tests guard removals and
    publications ("only remove what is an entry of this archive"), so with a linked root every key is refused, and the refusals end in the handlers that already
    swallow a failed publication: nothing reaches the archive and every call recomputes.  Both sides carry realpath, or neither does."""
    m = repo.mod('_archives')
    n = 0

    def osfn(call):
        f = call.func
        if isinstance(f, ast.Attribute) and isinstance(f.value, ast.Attribute) and f.value.attr == 'path':
            return f.attr
        if isinstance(f, ast.Name) and f.id in ('realpath', 'abspath', 'dirname', 'normpath', 'join', 'basename', 'expanduser', 'commonpath', 'commonprefix'):
            return f.id
        return None

    def sig(e, fn, ci, depth=0, seen=()):
        """{'real'} / {'abs'} / {'raw'} / {'const'}: the normal forms the path expression can be in"""
        if depth > 6:
            return set(['raw'])
        if isinstance(e, ast.Constant):
            return set(['const'])
        if isinstance(e, ast.Call):
            nm = osfn(e)
            if nm == 'realpath':
                return set(['real'])
            if nm == 'abspath' and e.args:
                s0 = sig(e.args[0], fn, ci, depth + 1, seen)
                return set(['real']) if s0 == set(['real']) else set(['abs'])
            if nm in ('dirname', 'normpath', 'join', 'expanduser') and e.args:
                return sig(e.args[0], fn, ci, depth + 1, seen)
            if nm in ('commonpath', 'commonprefix') and e.args and isinstance(e.args[0], (ast.List, ast.Tuple)):
                out = set()
                for x in e.args[0].elts:
                    out |= sig(x, fn, ci, depth + 1, seen)
                return out
            if isinstance(e.func, ast.Attribute) and e.func.attr in ('rstrip', 'lstrip', 'strip', 'replace', 'format'):
                return sig(e.func.value, fn, ci, depth + 1, seen)
            if isinstance(e.func, ast.Attribute) and isinstance(e.func.value, ast.Name) and e.func.value.id == 'self' and ci is not None \
                    and e.func.attr in ci.methods and e.func.attr not in seen:
                out = set()
                f2 = ci.methods[e.func.attr].node
                for r in ast.walk(f2):
                    if isinstance(r, ast.Return) and r.value is not None:
                        out |= sig(r.value, f2, ci, depth + 1, seen + (e.func.attr,))
                return out or set(['raw'])
            return set(['raw'])
        if isinstance(e, ast.Subscript):
            if isinstance(e.slice, ast.Slice):
                return sig(e.value, fn, ci, depth + 1, seen)
            src = unparse(e)
            if src.startswith('self.__state__[') and ci is not None and isinstance(e.slice, ast.Constant):
                key = e.slice.value
                out = set()
                for mname, fi2 in ci.methods.items():
                    for x in ast.walk(fi2.node):
                        if isinstance(x, ast.Assign):
                            for t in x.targets:
                                if unparse(t) == src:
                                    out |= sig(x.value, fi2.node, ci, depth + 1, seen)
                                if unparse(t) == 'self.__state__' and isinstance(x.value, ast.Dict):
                                    for kk, vv in zip(x.value.keys, x.value.values):
                                        if isinstance(kk, ast.Constant) and kk.value == key:
                                            out |= sig(vv, fi2.node, ci, depth + 1, seen)
                return out or set(['raw'])
            return set(['raw'])
        if isinstance(e, ast.Name):
            out = set()
            for x in ast.walk(fn):
                if isinstance(x, ast.Assign) and x.value is not e:
                    for t in x.targets:
                        if isinstance(t, ast.Name) and t.id == e.id and not any(y is e for y in ast.walk(x.value)):
                            out |= sig(x.value, fn, ci, depth + 1, seen)
            return out or set(['raw'])
        if isinstance(e, ast.BinOp):
            return sig(e.left, fn, ci, depth + 1, seen)
        if isinstance(e, ast.IfExp):
            return sig(e.body, fn, ci, depth + 1, seen) | sig(e.orelse, fn, ci, depth + 1, seen)
        return set(['raw'])
    units = []
    for lab, ci in sorted(m.classes.items()):
        for mname, fi in sorted(ci.own_methods.items() if hasattr(ci, 'own_methods') else ci.methods.items()):
            units.append((lab, ci, mname, fi))
    for fname, fi in sorted(m.functions.items()):
        units.append((m.rel, None, fname, fi))
    for lab, ci, mname, fi in units:
        fn = fi.node
        for x in ast.walk(fn):
            pairs = []
            if isinstance(x, ast.Compare) and len(x.ops) == 1 and isinstance(x.ops[0], (ast.Eq, ast.NotEq, ast.In, ast.NotIn)):
                pairs.append((x.left, x.comparators[0]))
            elif isinstance(x, ast.Call) and isinstance(x.func, ast.Attribute) and x.func.attr in ('startswith', 'endswith') and x.args:
                pairs.append((x.func.value, x.args[0]))
            elif isinstance(x, ast.Call) and osfn(x) in ('commonpath', 'commonprefix') and x.args and isinstance(x.args[0], (ast.List, ast.Tuple)) and len(x.args[0].elts) == 2:
                pairs.append(tuple(x.args[0].elts))
            for a, b in pairs:
                sa, sb = sig(a, fn, ci), sig(b, fn, ci)
                if 'real' not in (sa | sb) or sa == set(['const']) or sb == set(['const']):
                    continue
                sa, sb = sa - set(['const']), sb - set(['const'])
                n += 1
                ok = sa == set(['real']) and sb == set(['real'])
                ctx.ob('A-PATH', '%s.%s: %s and %s are compared in one normal form' % (lab, mname, unparse(a)[:40], unparse(b)[:40]), ok)
                if not ok:
                    ctx.fail('A-PATH', mq(ci, mname) if ci is not None else '%s::%s' % (m.rel, mname), 'realpath compared with %s' % '/'.join(sorted((sa | sb) - set(['real']))),
                             '%s.%s compares `%s` (%s) with `%s` (%s): one side resolves symbolic links and the other does not, so for an archive whose location is reached '
                             'through a link the two never agree - the guarded operation (a removal before an entry is replaced, a publication) is refused for every key, '
                             'and where the refusal lands in a handler that ignores failures the entry silently never reaches the archive'
                             % (lab, mname, unparse(a)[:60], '/'.join(sorted(sa)), unparse(b)[:60], '/'.join(sorted(sb))), '%s:%d' % (m.rel, x.lineno))
    ctx.ob('A-PATH', 'path comparisons involving realpath examined', True, n=max(n, 1))


def rule_A_UPDATE_ARG(ctx, repo):
    """A-EQ (update takes what dict.update takes): a mapping, an object with keys(), or any iterable of pairs, plus keywords.  `self.__asdict__() | adict`
    and `{**adict}` accept mappings only: update() with a list / zip / generator of pairs - legal for a dict, and what the library's own from_frame hands
    over - raises TypeError and stores nothing."""
    m = repo.mod('_archives')
    n = 0
    for lab, ci in sorted(m.classes.items()):
        if 'archive' not in ci.name:
            continue
        own = ci.own_methods if hasattr(ci, 'own_methods') else ci.methods
        fi = own.get('update')
        if fi is None or len(fi.node.args.args) < 2:
            continue
        n += 1
        p = fi.node.args.args[1].arg
        hit = None
        for x in ast.walk(fi.node):
            if isinstance(x, ast.BinOp) and isinstance(x.op, ast.BitOr) and any(isinstance(y, ast.Name) and y.id == p for y in (x.left, x.right)):
                hit = x
            elif isinstance(x, ast.AugAssign) and isinstance(x.op, ast.BitOr) and isinstance(x.value, ast.Name) and x.value.id == p:
                hit = x
            elif isinstance(x, ast.Dict) and any(k is None and isinstance(v, ast.Name) and v.id == p for k, v in zip(x.keys, x.values)):
                hit = x
        ctx.ob('A-EQ', '%s.update merges its argument the way dict.update does' % lab, hit is None)
        if hit is not None:
            ctx.fail('A-EQ', mq(ci, 'update'), 'update merges with %s' % unparse(hit)[:40],
                     '%s.update combines its argument with `%s`: the | operator and ** unpacking take mappings only, dict.update also takes any iterable of (key, value) '
                     'pairs - update(zip(keys, values)), update(list_of_pairs) and the generator klepto\'s own from_frame passes raise TypeError and store nothing'
                     % (lab, ' '.join(unparse(hit).split())[:60]), wh(ci, hit.lineno))
    if n < 3:
        raise AnalysisError('instance count below confirmed minimum: %d archive classes with an update() of their own' % n)


def rule_A_LOCATION_VERBATIM(ctx, repo):
    """A-FNAME (the location is the text the caller gave).  The sqlite archives take everything after `sqlite:///` as the database file.  Parsing the
    location as a URL (urllib.parse.urlsplit / urlparse / unquote) cuts it at `?` and `#` and decodes `%xx`: `results#1.db` and `results#2.db` become the one
    file `results` - two archives share their entries, and the files the caller named are never created."""
    m = repo.mod('_archives')
    hits = [x for x in ast.walk(m.tree) if isinstance(x, ast.Call) and ((isinstance(x.func, ast.Name) and x.func.id in ('urlsplit', 'urlparse', 'unquote', 'url2pathname'))
                                                                         or (isinstance(x.func, ast.Attribute) and x.func.attr in ('urlsplit', 'urlparse', 'unquote', 'url2pathname')))]
    ctx.ob('A-FNAME', 'archive locations are not parsed as URLs', not hits)
    for x in hits:
        ctx.fail('A-FNAME', '%s:%d' % (m.rel, x.lineno), 'location parsed with %s' % unparse(x.func),
                 '`%s` treats an archive location as a URL: the path ends at the first `?` or `#` and %%xx sequences are decoded, so two different locations '
                 '(results#1.db, results#2.db) name one database file - a fresh handle on one sees what was written to the other' % ' '.join(unparse(x).split())[:60],
                 '%s:%d' % (m.rel, x.lineno))
