"""A tiny partial evaluator over the AST for straight-line 'builder' methods (__reduce__ and friends).

Concrete python constants (tuples of strings, ints, None, ...) are computed; everything that depends on the instance is a symbol:
  self.__state__[<const>] -> Sym('state', <const>)      self.__class__ -> Sym('class')      self.<attr> -> Sym('attr', <attr>)
so that a table-driven  tuple(state[n] for n in _NAMES)  evaluates to the same tuple of symbols as the spelled-out form.
Module-level helper functions are inlined.  Anything else raises Unknown (the caller falls back / reports ANALYSIS-ERROR).
Nothing from klepto is executed: this interprets syntax trees only."""
import ast


class Unknown(Exception):
    pass


class Sym(object):
    def __init__(self, *key):
        self.key = tuple(key)

    def __eq__(self, o):
        return isinstance(o, Sym) and self.key == o.key

    def __hash__(self):
        return hash(self.key)

    def __repr__(self):
        return 'Sym%r' % (self.key,)


class SelfObj(object):
    pass


class StateMap(object):
    pass


class _Return(Exception):
    def __init__(self, v):
        self.v = v


class PEval(object):
    def __init__(self, module, self_name=None, max_depth=4, cls=None):
        self.module = module
        self.self_name = self_name
        self.max_depth = max_depth
        self.cls = cls          # class attributes read through self are evaluated (its own win over inherited ones)

    def run(self, fnode, args=None, depth=0, kwargs=None, module=None):
        env = {}
        a = fnode.args
        names = [x.arg for x in a.posonlyargs + a.args]
        kwargs = dict(kwargs or {})
        if args is None:
            if names:
                env[names[0]] = SelfObj()
            names = names[1:]
            args = []
        if len(args) > len(names) and not a.vararg:
            raise Unknown('argument binding')
        for n, v in zip(names, args):
            env[n] = v
        if a.vararg:
            env[a.vararg.arg] = tuple(args[len(names):])
        defaults = dict(zip(names[len(names) - len(a.defaults):], a.defaults))
        for x, dv in zip(a.kwonlyargs, a.kw_defaults):
            names.append(x.arg)
            if dv is not None:
                defaults[x.arg] = dv
        for n in names[len(args):] if len(args) <= len(names) else []:
            if n in kwargs:
                env[n] = kwargs.pop(n)
                continue
            if n in env:
                continue
            if n not in defaults:
                raise Unknown('missing argument')
            env[n] = self.ev(defaults[n], {}, depth)
        if kwargs:
            if not a.kwarg:
                raise Unknown('unexpected keyword')
        if a.kwarg:
            env[a.kwarg.arg] = kwargs
        if module is not None and module is not self.module:
            # a helper of a sibling module is evaluated against its own module-level names
            sub = PEval(module, self.self_name, self.max_depth, None)
            try:
                sub.block(fnode.body, env, depth)
            except _Return as r:
                return r.v
            except Unknown:
                raise
            except RecursionError:
                raise Unknown('recursion')
            except Exception as e:
                raise Unknown('%s: %s' % (type(e).__name__, e))
            return None
        try:
            self.block(fnode.body, env, depth)
        except _Return as r:
            return r.v
        except Unknown:
            raise
        except RecursionError:
            raise Unknown('recursion')
        except Exception as e:       # an operation applied to a symbolic value (tuple(Sym), len(Sym), ...)
            raise Unknown('%s: %s' % (type(e).__name__, e))
        return None

    def block(self, stmts, env, depth):
        for st in stmts:
            if isinstance(st, ast.Return):
                raise _Return(self.ev(st.value, env, depth) if st.value is not None else None)
            elif isinstance(st, ast.Expr):
                if isinstance(st.value, ast.Constant):
                    continue
                self.ev(st.value, env, depth)
            elif isinstance(st, ast.Assign):
                v = self.ev(st.value, env, depth)
                for t in st.targets:
                    self.assign(t, v, env)
            elif isinstance(st, ast.If):
                t = self.ev(st.test, env, depth)
                if isinstance(t, (Sym, SelfObj, StateMap)):
                    raise Unknown('symbolic branch')
                self.block(st.body if t else st.orelse, env, depth)
            elif isinstance(st, ast.For):
                it = self.ev(st.iter, env, depth)
                if not isinstance(it, (tuple, list)):
                    raise Unknown('loop over non-constant')
                for x in it:
                    self.assign(st.target, x, env)
                    self.block(st.body, env, depth)
            elif isinstance(st, ast.Pass):
                continue
            else:
                raise Unknown(type(st).__name__)

    def assign(self, t, v, env):
        if isinstance(t, ast.Name):
            env[t.id] = v
        elif isinstance(t, (ast.Tuple, ast.List)) and isinstance(v, (tuple, list)) and len(v) == len(t.elts):
            for a, b in zip(t.elts, v):
                self.assign(a, b, env)
        else:
            raise Unknown('assignment target')

    def ev(self, n, env, depth):
        if isinstance(n, ast.Constant):
            return n.value
        if isinstance(n, ast.Name):
            if n.id in env:
                return env[n.id]
            c = self.module.consts.get(n.id)
            if c is not None:
                return self.ev(c, {}, depth)
            if n.id in self.module.functions:
                return ('func', n.id)
            origin = getattr(self.module, 'imports', {}).get(n.id)
            repo = getattr(self.module, 'repo', None)
            if origin and repo is not None:
                parts = origin.lstrip('.').split('.')
                for cand in reversed(parts[:-1]):
                    m2 = repo.modules.get(cand)
                    if m2 is not None and parts[-1] in m2.functions:
                        return ('xfunc', cand, parts[-1])
            if n.id in ('tuple', 'list', 'len', 'range', 'reversed', 'sorted'):
                return ('builtin', n.id)
            if n.id in ('True', 'False', 'None'):
                return {'True': True, 'False': False, 'None': None}[n.id]
            raise Unknown('name %s' % n.id)
        if isinstance(n, ast.Attribute):
            b = self.ev(n.value, env, depth)
            if isinstance(b, SelfObj):
                if n.attr == '__state__':
                    return StateMap()
                if n.attr == '__class__':
                    return Sym('class')
                if self.cls is not None and n.attr in self.cls.attrs and n.attr not in self.cls.methods:
                    return self.ev(self.cls.attrs[n.attr], {}, depth)
                return Sym('attr', n.attr)
            if isinstance(b, StateMap) and n.attr == 'get':
                return ('stateget',)
            if isinstance(b, Sym) and b.key and b.key[0] == 'attr':
                return Sym(*(b.key + (n.attr,)))
            if isinstance(b, list) and n.attr == 'append':
                return ('append', b)
            raise Unknown('attribute %s' % n.attr)
        if isinstance(n, ast.Subscript):
            b = self.ev(n.value, env, depth)
            if isinstance(n.slice, ast.Slice):
                lo = self.ev(n.slice.lower, env, depth) if n.slice.lower is not None else None
                hi = self.ev(n.slice.upper, env, depth) if n.slice.upper is not None else None
                stp = self.ev(n.slice.step, env, depth) if n.slice.step is not None else None
                if isinstance(b, (tuple, list, str)) and all(x is None or isinstance(x, int) for x in (lo, hi, stp)):
                    return b[lo:hi:stp]
                raise Unknown('slice')
            k = self.ev(n.slice, env, depth)
            if isinstance(b, StateMap):
                if isinstance(k, str):
                    return Sym('state', k)
                raise Unknown('state key')
            if isinstance(b, (tuple, list, str)) and isinstance(k, int) and not isinstance(k, bool):
                try:
                    return b[k]
                except IndexError:
                    raise Unknown('index')
            if isinstance(b, dict):
                try:
                    return b[k]
                except Exception:
                    raise Unknown('key')
            raise Unknown('subscript')
        if isinstance(n, ast.Tuple):
            out = []
            for e in n.elts:
                if isinstance(e, ast.Starred):
                    v = self.ev(e.value, env, depth)
                    if not isinstance(v, (tuple, list)):
                        raise Unknown('star')
                    out.extend(v)
                else:
                    out.append(self.ev(e, env, depth))
            return tuple(out)
        if isinstance(n, ast.List):
            return [self.ev(e, env, depth) for e in n.elts]
        if isinstance(n, ast.Dict):
            if any(k is None for k in n.keys):
                raise Unknown('dict unpack')
            try:
                return dict((self.ev(k, env, depth), self.ev(v, env, depth)) for k, v in zip(n.keys, n.values))
            except TypeError:
                raise Unknown('dict key')
        if isinstance(n, ast.BinOp) and isinstance(n.op, ast.Add):
            a, b = self.ev(n.left, env, depth), self.ev(n.right, env, depth)
            if isinstance(a, tuple) and isinstance(b, tuple):
                return a + b
            if isinstance(a, list) and isinstance(b, list):
                return a + b
            if isinstance(a, (int, str)) and type(a) is type(b) and not isinstance(a, bool):
                return a + b
            raise Unknown('+')
        if isinstance(n, ast.UnaryOp):
            v = self.ev(n.operand, env, depth)
            if isinstance(v, (Sym, SelfObj, StateMap)):
                raise Unknown('symbolic operand')
            if isinstance(n.op, ast.USub) and isinstance(v, int):
                return -v
            if isinstance(n.op, ast.Not):
                return not v
            raise Unknown('unary')
        if isinstance(n, ast.IfExp):
            t = self.ev(n.test, env, depth)
            if isinstance(t, (Sym, SelfObj, StateMap)):
                raise Unknown('symbolic test')
            return self.ev(n.body if t else n.orelse, env, depth)
        if isinstance(n, (ast.GeneratorExp, ast.ListComp)):
            return self.comp(n, env, depth)
        if isinstance(n, ast.Call) and isinstance(n.func, ast.Name) and n.func.id == 'getattr' and len(n.args) == 3 and not n.keywords \
                and isinstance(n.args[1], ast.Constant) and (isinstance(n.args[2], ast.Constant) or (isinstance(n.args[2], (ast.Tuple, ast.List)) and not n.args[2].elts)
                                                              or (isinstance(n.args[2], ast.Dict) and not n.args[2].keys)) and n.func.id not in env:
            # an optional attribute read with a constant default: the attribute exists only on objects built with an opt-in feature; every object an
            # existing caller builds answers with the default (new optional features are judged at their defaults)
            return n.args[2].value if isinstance(n.args[2], ast.Constant) else (() if isinstance(n.args[2], ast.Tuple) else [] if isinstance(n.args[2], ast.List) else {})
        if isinstance(n, ast.Call):
            f = self.ev(n.func, env, depth)
            kwargs = {}
            for k in n.keywords:
                if k.arg is None:
                    d_ = self.ev(k.value, env, depth)
                    if not isinstance(d_, dict):
                        raise Unknown('** of non-constant')
                    kwargs.update(d_)
                else:
                    kwargs[k.arg] = self.ev(k.value, env, depth)
            if kwargs and not (isinstance(f, tuple) and f and f[0] in ('func', 'xfunc')):
                raise Unknown('keyword call')
            args = []
            for a in n.args:
                if isinstance(a, ast.Starred):
                    v_ = self.ev(a.value, env, depth)
                    if not isinstance(v_, (tuple, list)):
                        raise Unknown('star')
                    args.extend(v_)
                else:
                    args.append(self.ev(a, env, depth))
            if f == ('builtin', 'tuple') and len(args) <= 1:
                return tuple(args[0]) if args else ()
            if f == ('builtin', 'list') and len(args) <= 1:
                return list(args[0]) if args else []
            if f == ('builtin', 'len') and len(args) == 1 and isinstance(args[0], (tuple, list, str)):
                return len(args[0])
            if f == ('builtin', 'reversed') and len(args) == 1 and isinstance(args[0], (tuple, list)):
                return list(reversed(args[0]))
            if f == ('builtin', 'range') and all(isinstance(a, int) for a in args):
                return list(range(*args))
            if f == ('stateget',) and len(args) == 1 and isinstance(args[0], str):
                return Sym('state', args[0])
            if isinstance(f, tuple) and f and f[0] == 'append' and len(args) == 1:
                f[1].append(args[0])
                return None
            if isinstance(f, tuple) and f and f[0] == 'func':
                if depth >= self.max_depth:
                    raise Unknown('depth')
                return self.run(self.module.functions[f[1]].node, args, depth + 1, kwargs)
            if isinstance(f, tuple) and f and f[0] == 'xfunc':
                if depth >= self.max_depth:
                    raise Unknown('depth')
                m2 = self.module.repo.modules[f[1]]
                return self.run(m2.functions[f[2]].node, args, depth + 1, kwargs, module=m2)
            raise Unknown('call')
        if isinstance(n, ast.Compare) and len(n.ops) == 1:
            a, b = self.ev(n.left, env, depth), self.ev(n.comparators[0], env, depth)
            if any(isinstance(x, (Sym, SelfObj, StateMap)) for x in (a, b)):
                raise Unknown('symbolic compare')
            op = n.ops[0]
            try:
                if isinstance(op, ast.Eq):
                    return a == b
                if isinstance(op, ast.NotEq):
                    return a != b
                if isinstance(op, ast.In):
                    return a in b
                if isinstance(op, ast.NotIn):
                    return a not in b
                if isinstance(op, ast.Is):
                    return a is b
                if isinstance(op, ast.IsNot):
                    return a is not b
            except Exception:
                pass
            raise Unknown('compare')
        raise Unknown(type(n).__name__)

    def comp(self, n, env, depth):
        out = []

        def go(i, e):
            if i == len(n.generators):
                out.append(self.ev(n.elt, e, depth))
                return
            g = n.generators[i]
            it = self.ev(g.iter, e, depth)
            if not isinstance(it, (tuple, list)):
                raise Unknown('comprehension over non-constant')
            for x in it:
                e2 = dict(e)
                self.assign(g.target, x, e2)
                ok = True
                for c in g.ifs:
                    t = self.ev(c, e2, depth)
                    if isinstance(t, (Sym, SelfObj, StateMap)):
                        raise Unknown('symbolic filter')
                    if not t:
                        ok = False
                        break
                if ok:
                    go(i + 1, e2)
        go(0, dict(env))
        return out
