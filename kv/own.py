"""K-OWN / K-MEMO: ownership of objects mutated in place on the key path, and sufficiency of memo keys.

Flow-sensitive may-alias tags per function (branches joined by union, loops run twice), interprocedural through
position-sensitive return summaries; nested functions have their own scope (free variables read the enclosing one).

K-OWN   an object that is an *element* of module-level mutable state (a memo table, a registry) must not be mutated in place
        by the key computation: the mutation would survive the call and change the keys of later calls.  Writing to the
        module-level container itself (filling a memo) is allowed.
K-MEMO  a value memoised in module-level state must be stored under a key that contains, whole, every parameter the value was
        computed from (memoising signature(func) under func.__code__ serves one function's defaults to its siblings)."""
import ast

from .src import AnalysisError, unparse

MUTATORS = ('update', 'append', 'extend', 'pop', 'popitem', '__delitem__', '__setitem__', 'clear', 'insert', 'remove',
            'add', 'discard', 'setdefault', 'sort', 'reverse')
COPIERS = set(['dict', 'list', 'tuple', 'set', 'frozenset', 'sorted', 'copy', 'deepcopy', 'str', 'repr', 'int', 'float', 'bool', 'len',
               'zip', 'enumerate', 'map', 'filter', 'isinstance', 'hasattr', 'type', 'bytes', 'sum', 'min', 'max', 'any', 'all',
               'OrderedDict', 'Counter', 'defaultdict', 'range', 'id', 'hash'])
ELEMENT_GETTERS = ('get', 'pop', 'setdefault', '__getitem__', 'values', 'items', 'popitem', 'keys')
CONTAINER_CTORS = ('dict', 'list', 'set', 'OrderedDict', 'defaultdict', 'deque', 'WeakKeyDictionary', 'WeakValueDictionary', 'Counter', 'ChainMap')


def shared_containers(module):
    """module-level names bound to a mutable container"""
    out = {}
    for name, node in module.consts.items():
        if name in ('__all__', '__slots__', '__path__', '__version__', '__author__'):
            continue
        if isinstance(node, (ast.Dict, ast.List, ast.Set, ast.DictComp, ast.ListComp, ast.SetComp)):
            out[name] = node
        elif isinstance(node, ast.Call):
            f = node.func
            nm = f.id if isinstance(f, ast.Name) else f.attr if isinstance(f, ast.Attribute) else ''
            if nm in CONTAINER_CTORS:
                out[name] = node
    return out


def is_constant_key(node):
    if isinstance(node, ast.Constant):
        return True
    if isinstance(node, ast.Tuple):
        return all(is_constant_key(e) for e in node.elts)
    if isinstance(node, ast.UnaryOp) and isinstance(node.operand, ast.Constant):
        return True
    return False


def none_test(test):
    """`X is None` -> (X, True) ; `X is not None` -> (X, False) ; else None"""
    if isinstance(test, ast.Compare) and len(test.ops) == 1 and isinstance(test.left, ast.Name) \
            and isinstance(test.comparators[0], ast.Constant) and test.comparators[0].value is None:
        if isinstance(test.ops[0], ast.Is):
            return test.left.id, True
        if isinstance(test.ops[0], ast.IsNot):
            return test.left.id, False
    return None


def merge_pos(lists):
    n = max(len(p) for p in lists)
    out = [set() for _ in range(n)]
    for p in lists:
        for a, b in zip(out, p):
            a |= b
    return out


class Env(object):
    def __init__(self, parent=None):
        self.tags = {}
        self.pos = {}       # name -> per-position tags or None (unknown structure)
        self.defs = {}      # name -> defining expression (strong update) for K-MEMO expansion; None = several
        self.parent = parent

    def copy(self):
        e = Env(self.parent)
        e.tags = dict((k, set(v)) for k, v in self.tags.items())
        e.pos = dict((k, (None if v is None else [set(x) for x in v])) for k, v in self.pos.items())
        e.defs = dict(self.defs)
        return e

    def join(self, other):
        for k, v in other.tags.items():
            self.tags.setdefault(k, set()).update(v)
        for k in set(self.pos) | set(other.pos):
            a, b = self.pos.get(k, 'absent'), other.pos.get(k, 'absent')
            if a == 'absent':
                self.pos[k] = b if b != 'absent' else None
            elif b == 'absent':
                pass
            elif a is None or b is None:
                self.pos[k] = None
            else:
                self.pos[k] = merge_pos([a, b])
        for k, v in other.defs.items():
            if k in self.defs and self.defs[k] is not v:
                # several reaching definitions: keep all of them (a value computed on either branch)
                a, b = self.defs[k], v
                if a is None or b is None:
                    self.defs[k] = None
                else:
                    la = a if isinstance(a, list) else [a]
                    lb = b if isinstance(b, list) else [b]
                    self.defs[k] = la + [x for x in lb if not any(x is y for y in la)]
            else:
                self.defs.setdefault(k, v)

    def lookup(self, name):
        e = self
        while e is not None:
            if name in e.tags:
                return e.tags[name]
            e = e.parent
        return None

    def lookup_pos(self, name):
        e = self
        while e is not None:
            if name in e.pos or name in e.tags:
                return e.pos.get(name)
            e = e.parent
        return None

    def lookup_def(self, name):
        e = self
        while e is not None:
            if name in e.defs:
                return e.defs[name]
            if name in e.tags:
                return None
            e = e.parent
        return None


class FnTags(object):
    def __init__(self, module, fnode, shared, summaries, summaries_pos, parent_env=None, qual=''):
        self.module = module
        self.fn = fnode
        self.qual = qual or getattr(fnode, 'name', '<lambda>')
        self.shared = shared
        self.summ = summaries
        self.summ_pos = summaries_pos
        self.ret = set()
        self.ret_pos_seen = []
        self.sites = []          # (node, receiver source, tags)
        self.memo_stores = []    # (node, container name, key expr, value expr, env snapshot)
        self.unpack_sources = {}  # name -> call expr it was tuple-unpacked from
        self.handler_memos = []   # (node, container, key expr, names used by the guarded body, env)
        self.nested = []
        self.params = set()
        a = fnode.args
        for x in list(getattr(a, 'posonlyargs', [])) + list(a.args) + list(a.kwonlyargs):
            self.params.add(x.arg)
        if a.vararg:
            self.params.add(a.vararg.arg)
        if a.kwarg:
            self.params.add(a.kwarg.arg)
        env = Env(parent_env)
        for p in self.params:
            env.tags[p] = set(['param:' + p])
        if a.vararg:
            env.tags[a.vararg.arg] = set(['pcont:' + a.vararg.arg])      # the tuple/dict is fresh, its elements are the caller's
        if a.kwarg:
            env.tags[a.kwarg.arg] = set(['pcont:' + a.kwarg.arg])
        self.order = [x.arg for x in list(getattr(a, 'posonlyargs', [])) + list(a.args)]
        self.calls = []          # (node, callee name, [arg tags])
        self.final_env = self.block(fnode.body, env)

    # ------------------------------------------------------------- expressions
    def elem(self, tags):
        out = set()
        for t in tags:
            if t.startswith('shared:'):
                out.add('sharedelem:' + t.split(':', 1)[1])
            elif t.startswith('pcont:'):
                out.add('param:' + t.split(':', 1)[1])
            elif t.startswith('in:'):
                out.add(t[3:])
            else:
                out.add(t)
        return out

    def iter_tags(self, it, env):
        """tags of the elements produced by iterating an expression"""
        if isinstance(it, ast.Call):
            f = it.func
            if isinstance(f, ast.Name) and f.id in ('enumerate', 'zip', 'reversed', 'sorted', 'list', 'tuple', 'iter', 'set', 'frozenset'):
                out = set()
                for a in it.args:
                    out |= self.iter_tags(a.value if isinstance(a, ast.Starred) else a, env)
                return out
            if isinstance(f, ast.Attribute) and f.attr in ('items', 'values', 'keys'):
                return self.elem(self.tags(f.value, env))
        return self.elem(self.tags(it, env))

    def tags(self, n, env):
        if n is None:
            return set()
        if isinstance(n, ast.Name):
            t = env.lookup(n.id)
            if t is not None:
                return set(t)
            if n.id in self.shared:
                return set(['shared:' + n.id])
            return set()
        if isinstance(n, ast.Call):
            f = n.func
            if isinstance(f, ast.Name):
                if f.id == 'getattr' and n.args:
                    # an attribute of an object belongs to whoever owns the object (spec.kwonlydefaults of a memoised spec)
                    out = set(self.tags(n.args[0], env))
                    if len(n.args) > 2:
                        out |= self.tags(n.args[2], env)
                    return out
                if f.id in COPIERS:
                    return set()
                if f.id in self.summ:
                    return set(self.summ[f.id])
                return set()
            if isinstance(f, ast.Attribute):
                if f.attr in ('copy', '__copy__', '__deepcopy__'):
                    return set()
                if f.attr in ELEMENT_GETTERS:
                    return self.elem(self.tags(f.value, env))
                return set()
            return set()
        if isinstance(n, ast.Subscript):
            return self.elem(self.tags(n.value, env))
        if isinstance(n, ast.Attribute):
            # a sub-object reached through an attribute of a shared element is shared state as well
            return set(t for t in self.tags(n.value, env) if t.startswith('sharedelem:'))
        if isinstance(n, (ast.Tuple, ast.List)):
            out = set()
            for e in n.elts:
                out |= self.tags(e, env)
            return set('in:' + t for t in out)      # a fresh container whose elements alias
        if isinstance(n, ast.IfExp):
            nn = none_test(n.test)
            if nn is not None:
                name, is_none_in_body = nn
                e2 = env.copy()
                e2.tags[name] = set()       # in that branch the name is None: it aliases nothing
                return (self.tags(n.body, e2) | self.tags(n.orelse, env)) if is_none_in_body else \
                    (self.tags(n.body, env) | self.tags(n.orelse, e2))
            return self.tags(n.body, env) | self.tags(n.orelse, env)
        if isinstance(n, ast.BoolOp):
            out = set()
            for v in n.values:
                out |= self.tags(v, env)
            return out
        if isinstance(n, (ast.Starred, ast.NamedExpr)):
            return self.tags(n.value, env)
        return set()

    def positional(self, value, env):
        if isinstance(value, (ast.Tuple, ast.List)) and not any(isinstance(e, ast.Starred) for e in value.elts):
            return [self.tags(e, env) for e in value.elts]
        if isinstance(value, ast.Call) and isinstance(value.func, ast.Name) and self.summ_pos.get(value.func.id) is not None:
            return [set(x) for x in self.summ_pos[value.func.id]]
        if isinstance(value, ast.Name):
            p = env.lookup_pos(value.id)
            if p is not None:
                return [set(x) for x in p]
            return None
        if isinstance(value, ast.IfExp):
            a, b = self.positional(value.body, env), self.positional(value.orelse, env)
            if a is not None and b is not None:
                return merge_pos([a, b])
        return None

    # ------------------------------------------------------------- statements
    def assign(self, target, value, env, weak=False):
        if isinstance(target, (ast.Tuple, ast.List)) and not any(isinstance(e, ast.Starred) for e in target.elts):
            for t in target.elts:
                if isinstance(t, ast.Name):
                    self.unpack_sources[t.id] = value
            pos = self.positional(value, env)
            if pos is not None and len(pos) >= len(target.elts):
                for t, tg in zip(target.elts, pos):
                    self.bind(t, tg, env, None, weak)
                return
            tg = self.elem(self.tags(value, env))
            for t in target.elts:
                self.bind(t, tg, env, None, weak)
            return
        pos = self.positional(value, env)
        self.bind(target, self.tags(value, env), env, value, weak)
        if isinstance(target, ast.Name):
            env.pos[target.id] = pos if not weak else None

    def bind(self, target, tags, env, value=None, weak=False):
        if isinstance(target, ast.Name):
            if weak:
                env.tags.setdefault(target.id, set()).update(tags)
                env.defs[target.id] = None
            else:
                env.tags[target.id] = set(tags)
                env.defs[target.id] = value
            env.pos[target.id] = None
        elif isinstance(target, (ast.Tuple, ast.List)):
            for e in target.elts:
                self.bind(e, tags, env, None, weak)
        elif isinstance(target, ast.Starred):
            self.bind(target.value, tags, env, None, weak)

    def scan_expr(self, node, env):
        """mutation sites and memo stores inside an expression (not descending into nested functions)"""
        stack = [node]
        while stack:
            n = stack.pop()
            if isinstance(n, (ast.FunctionDef, ast.Lambda)):
                continue
            if isinstance(n, ast.Call) and isinstance(n.func, ast.Name):
                self.calls.append((n, n.func.id, [self.tags(a.value if isinstance(a, ast.Starred) else a, env) for a in n.args]))
            if isinstance(n, ast.Call) and isinstance(n.func, ast.Attribute) and n.func.attr in MUTATORS:
                recv = n.func.value
                self.sites.append((n, unparse(recv), self.tags(recv, env)))
                if n.func.attr == 'setdefault' and isinstance(recv, ast.Name) and recv.id in self.shared and len(n.args) == 2 \
                        and env.lookup(recv.id) is None:
                    self.memo_stores.append((n, recv.id, n.args[0], n.args[1], env.copy()))
            stack.extend(ast.iter_child_nodes(n))

    def block(self, stmts, env):
        for s in stmts:
            env = self.stmt(s, env)
        return env

    def stmt(self, s, env):
        if isinstance(s, ast.FunctionDef):
            self.nested.append((s, env))
            env.tags[s.name] = set()
            return env
        if isinstance(s, ast.Assign):
            self.scan_expr(s.value, env)
            for t in s.targets:
                if isinstance(t, ast.Subscript):
                    self.sites.append((s, unparse(t.value), self.tags(t.value, env)))
                    if isinstance(t.value, ast.Name) and t.value.id in self.shared and env.lookup(t.value.id) is None \
                            and not is_constant_key(t.slice):
                        # (a store under a constant key is a settings cell - `_TRACE[0] = bool(on)` - not a memo table)
                        self.memo_stores.append((s, t.value.id, t.slice, s.value, env.copy()))
                elif isinstance(t, ast.Attribute) and not _rooted_at_self(t.value):
                    # obj.attr = value changes obj in place (a keymap handed in by the caller whose `typed` flag is overwritten)
                    self.sites.append((s, unparse(t.value), self.tags(t.value, env)))
                else:
                    self.assign(t, s.value, env)
            return env
        if isinstance(s, ast.AnnAssign):
            if s.value is not None:
                self.scan_expr(s.value, env)
                self.assign(s.target, s.value, env)
            return env
        if isinstance(s, ast.AugAssign):
            self.scan_expr(s.value, env)
            if isinstance(s.target, ast.Subscript):
                self.sites.append((s, unparse(s.target.value), self.tags(s.target.value, env)))
            elif isinstance(s.target, ast.Name):
                # x |= y, x -= y, x &= y, x ^= y change the object x names in place when it is a set / dict (for numbers the tags are empty)
                # (+= is left out: on the numbers, strings and tuples it is mostly used with it re-binds)
                if isinstance(s.op, (ast.BitOr, ast.BitAnd, ast.BitXor, ast.Sub)):
                    cur = env.lookup(s.target.id)
                    if cur:
                        self.sites.append((s, s.target.id, set(cur)))
                env.tags.setdefault(s.target.id, set()).update(self.tags(s.value, env))
                env.pos[s.target.id] = None
                env.defs[s.target.id] = None
            return env
        if isinstance(s, ast.Delete):
            for t in s.targets:
                if isinstance(t, ast.Subscript):
                    self.sites.append((s, unparse(t.value), self.tags(t.value, env)))
            return env
        if isinstance(s, ast.Return):
            if s.value is not None:
                self.scan_expr(s.value, env)
                self.ret |= self.tags(s.value, env)
                self.ret_pos_seen.append(self.positional(s.value, env))
            return env
        if isinstance(s, ast.Expr):
            self.scan_expr(s.value, env)
            return env
        if isinstance(s, ast.If):
            self.scan_expr(s.test, env)
            ea, eb = env.copy(), env.copy()
            nn = none_test(s.test)
            if nn is not None:
                (ea if nn[1] else eb).tags[nn[0]] = set()
            a = self.block(s.body, ea)
            b = self.block(s.orelse, eb)
            a.join(b)
            return a
        if isinstance(s, (ast.For, ast.While)):
            if isinstance(s, ast.For):
                self.scan_expr(s.iter, env)
                self.bind(s.target, self.iter_tags(s.iter, env), env, None, weak=True)
            else:
                self.scan_expr(s.test, env)
            e1 = self.block(s.body, env.copy())
            e1.join(env)
            e2 = self.block(s.body, e1.copy())
            e2.join(e1)
            e3 = self.block(s.orelse, e2.copy())
            e3.join(e2)
            return e3
        if isinstance(s, ast.Try):
            # a fact recorded in module-level state from inside a handler depends on everything the guarded body used
            used = set()
            for st_ in s.body:
                for n_ in ast.walk(st_):
                    if isinstance(n_, ast.Name) and isinstance(n_.ctx, ast.Load):
                        used.add(n_.id)
            for h in s.handlers:
                for n_ in ast.walk(h):
                    if isinstance(n_, ast.Call) and isinstance(n_.func, ast.Attribute) and n_.func.attr in ('add', 'append') \
                            and isinstance(n_.func.value, ast.Name) and n_.func.value.id in self.shared and env.lookup(n_.func.value.id) is None and n_.args:
                        self.handler_memos.append((n_, n_.func.value.id, n_.args[0], set(used), env.copy()))
            b = self.block(s.body, env.copy())
            out = self.block(s.orelse, b.copy())
            for h in s.handlers:
                start = env.copy()      # a handler may start from any point of the body: join of before and after
                start.join(b)
                if h.name:
                    start.tags[h.name] = set()
                out.join(self.block(h.body, start))
            if s.finalbody:
                out = self.block(s.finalbody, out)
            return out
        if isinstance(s, ast.With):
            for it in s.items:
                self.scan_expr(it.context_expr, env)
                if it.optional_vars is not None:
                    self.bind(it.optional_vars, self.tags(it.context_expr, env), env)
            return self.block(s.body, env)
        if isinstance(s, (ast.Import, ast.ImportFrom)):
            for a in s.names:
                env.tags[a.asname or a.name.split('.')[0]] = set()
            return env
        if isinstance(s, (ast.Raise, ast.Assert)):
            for c in ast.iter_child_nodes(s):
                self.scan_expr(c, env)
            return env
        return env

    def ret_pos(self):
        seen = self.ret_pos_seen
        if not seen or any(p is None for p in seen):
            return None
        return merge_pos(seen)


MEMOISERS = ('functools.lru_cache', 'functools.cache', 'functools.cached_property')


def is_memoised(module, fnode):
    """the function is wrapped by a memoising decorator of the standard library (possibly imported under another name): whatever it returns is
    kept in a hidden table and handed out again to every later caller with equal arguments"""
    for dec in getattr(fnode, 'decorator_list', []):
        f = dec.func if isinstance(dec, ast.Call) else dec
        if isinstance(f, ast.Name):
            origin = module.imports.get(f.id, f.id)
        elif isinstance(f, ast.Attribute) and isinstance(f.value, ast.Name):
            origin = module.imports.get(f.value.id, f.value.id) + '.' + f.attr
        else:
            continue
        if origin in MEMOISERS or origin.split('.')[-1] in ('lru_cache',):
            return True
    return False


def analyse_module(module):
    shared = shared_containers(module)
    fns = dict((name, fi.node) for name, fi in module.functions.items())
    summaries = dict((n, set()) for n in fns)
    summaries_pos = {}
    top = {}
    memoised = set(n for n, node in fns.items() if is_memoised(module, node))
    for _ in range(5):
        changed = False
        for name, node in fns.items():
            ft = FnTags(module, node, shared, summaries, summaries_pos, None, name)
            top[name] = ft
            rp = ft.ret_pos()
            if name in memoised:
                # the result (and each element of a returned tuple) lives on in the decorator's table: an element of shared state
                tag = 'sharedelem:@memo(%s)' % name
                ft.ret = set(ft.ret) | set([tag])
                if rp is not None:
                    rp = [set(x) | set([tag]) for x in rp]
            if ft.ret != summaries[name] or summaries_pos.get(name, 'unset') != rp:
                summaries[name] = set(ft.ret)
                summaries_pos[name] = rp
                changed = True
        if not changed:
            break
    results = {}

    def add(ft):
        results[ft.qual] = ft
        for node, env in ft.nested:
            add(FnTags(module, node, shared, summaries, summaries_pos, env, '%s.%s' % (ft.qual, node.name)))
    for name, ft in top.items():
        add(ft)
    for ci in module.classes.values():
        for mname, fi in ci.methods.items():
            add(FnTags(module, fi.node, shared, summaries, summaries_pos, None, '%s.%s' % (ci.label, mname)))
    return shared, results


# ---------------------------------------------------------------------------------------------
# K-MEMO helpers
def expand(expr, env, depth=0):
    """substitute single-definition locals by their defining expressions"""
    if depth > 6 or expr is None:
        return expr
    if isinstance(expr, ast.Name):
        d = env.lookup_def(expr.id)
        if d is not None and not isinstance(d, list) and d is not expr:
            return expand(d, env, depth + 1)
    return expr


def whole_names(expr, env, depth=0):
    """names that occur WHOLE in a key expression (the key itself or an element of a key tuple)"""
    expr = expand(expr, env, depth)
    out = set()
    # a bound method's __func__ carries everything inspection reads (code, defaults, annotations): keying a memo of inspection
    # results by it keeps every fact the value was computed from; __code__ does not (defaults live on the function object)
    if isinstance(expr, ast.Attribute) and expr.attr == '__func__':
        return whole_names(expr.value, env, depth + 1)
    if isinstance(expr, ast.Call) and isinstance(expr.func, ast.Name) and expr.func.id == 'getattr' and len(expr.args) == 3 \
            and isinstance(expr.args[1], ast.Constant) and expr.args[1].value == '__func__' \
            and isinstance(expr.args[0], ast.Name) and isinstance(expr.args[2], ast.Name) and expr.args[0].id == expr.args[2].id:
        return whole_names(expr.args[0], env, depth + 1)
    if isinstance(expr, ast.Name):
        out.add(expr.id)
    elif isinstance(expr, (ast.Tuple, ast.List)):
        for e in expr.elts:
            out |= whole_names(e, env, depth + 1)
    return out


def arg_names(expr, env, ft, depth=0):
    """names passed whole as arguments to the call(s) that compute a memoised value"""
    out = set()
    if depth > 6 or expr is None:
        return out
    if isinstance(expr, ast.Name):
        d = env.lookup_def(expr.id)
        if d is None and expr.id in ft.unpack_sources:
            d = ft.unpack_sources[expr.id]
        if isinstance(d, list):
            for x in d:
                if x is not expr:
                    out |= arg_names(x, env, ft, depth + 1)
            return out
        if d is not None and d is not expr:
            return arg_names(d, env, ft, depth + 1)
        return out
    if isinstance(expr, ast.Call):
        for a in list(expr.args) + [k.value for k in expr.keywords]:
            a2 = a.value if isinstance(a, ast.Starred) else a
            if isinstance(a2, ast.Name):
                out.add(a2.id)
    elif isinstance(expr, (ast.Tuple, ast.List)):
        for e in expr.elts:
            out |= arg_names(e, env, ft, depth + 1)
    return out


def _rooted_at_self(e):
    """self, self.a, self.a.b ...: state of the object under construction / the method's own instance"""
    while isinstance(e, ast.Attribute):
        e = e.value
    return isinstance(e, ast.Name) and e.id in ('self', 'cls')


def param_mutations(results, private=()):
    """[(qualname, node, receiver source, param, via)] in-place mutations of caller-owned objects at the module's entry points: direct ones,
    plus calls that hand a caller-owned object to a function that (transitively) mutates that parameter.  `private` names module-level helper
    functions that are only called from inside the module: mutating their own parameter is judged at their call sites (a helper may well
    fill a dict its caller just created)."""
    direct = {}
    for q, ft in results.items():
        for node, recv, tags in ft.sites:
            for t in tags:
                if t.startswith('param:'):
                    direct.setdefault(q, []).append((node, recv, t.split(':', 1)[1]))
    # which positional parameters does each function mutate (by simple name), transitively through helpers
    mutates = {}
    for q, lst in direct.items():
        ft = results[q]
        short = q.split('.')[-1]
        for node, recv, pname in lst:
            if pname in ft.order:
                mutates.setdefault(short, set()).add(ft.order.index(pname))
    changed = True
    while changed:
        changed = False
        for q, ft in results.items():
            short = q.split('.')[-1]
            for node, callee, argtags in ft.calls:
                for i, tg in enumerate(argtags):
                    if i in mutates.get(callee, ()):
                        for t in tg:
                            if t.startswith('param:') and t.split(':', 1)[1] in ft.order:
                                idx = ft.order.index(t.split(':', 1)[1])
                                if idx not in mutates.setdefault(short, set()):
                                    mutates[short].add(idx)
                                    changed = True
    out = []
    for q, lst in direct.items():
        if q.split('.')[0] in private or q in private:
            continue
        for node, recv, pname in lst:
            out.append((q, node, recv, pname, None))
    for q, ft in results.items():
        if q.split('.')[0] in private or q in private:
            continue
        for node, callee, argtags in ft.calls:
            for i, tg in enumerate(argtags):
                if i in mutates.get(callee, ()) and any(t.startswith('param:') for t in tg):
                    out.append((q, node, unparse(node.args[i]), sorted(t for t in tg if t.startswith('param:'))[0].split(':', 1)[1], callee))
    return out
