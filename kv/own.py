"""K-OWN: ownership of objects mutated in place on the key path (may-alias tags, flow-insensitive per function,
interprocedural through return summaries).

An object that is an *element* of module-level mutable state (a memo table, a registry) must not be mutated in place by
the key computation: the mutation would survive the call and change the keys of later calls.  Writing to the module-level
container itself (filling a memo) is allowed; handing out its elements and then `.update()`-ing them is not."""
import ast

from .src import AnalysisError, unparse

MUTATORS = ('update', 'append', 'extend', 'pop', 'popitem', '__delitem__', '__setitem__', 'clear', 'insert', 'remove',
            'add', 'discard', 'setdefault', 'sort', 'reverse')
COPIERS = set(['dict', 'list', 'tuple', 'set', 'frozenset', 'sorted', 'copy', 'deepcopy', 'str', 'repr', 'int', 'float', 'bool', 'len',
               'zip', 'enumerate', 'map', 'filter', 'isinstance', 'hasattr', 'getattr', 'type', 'bytes', 'sum', 'min', 'max', 'any', 'all',
               'OrderedDict', 'Counter', 'defaultdict', 'range'])
ELEMENT_GETTERS = ('get', 'pop', 'setdefault', '__getitem__', 'values', 'items', 'popitem', 'keys')
CONTAINER_CTORS = ('dict', 'list', 'set', 'OrderedDict', 'defaultdict', 'deque', 'WeakKeyDictionary', 'WeakValueDictionary', 'Counter', 'ChainMap')


def shared_containers(module):
    """module-level names bound to a mutable container"""
    out = {}
    for name, node in module.consts.items():
        if isinstance(node, (ast.Dict, ast.List, ast.Set, ast.DictComp, ast.ListComp, ast.SetComp)):
            out[name] = node
        elif isinstance(node, ast.Call):
            f = node.func
            nm = f.id if isinstance(f, ast.Name) else f.attr if isinstance(f, ast.Attribute) else ''
            if nm in CONTAINER_CTORS:
                out[name] = node
    return out


def merge_pos(lists):
    """position-wise union of tag lists of possibly different lengths (position i = union over the lists that have it)"""
    n = max(len(p) for p in lists)
    out = [set() for _ in range(n)]
    for p in lists:
        for a, b in zip(out, p):
            a |= b
    return out


class FnTags(object):
    def __init__(self, module, fnode, shared, summaries, summaries_pos=None):
        self.module = module
        self.fn = fnode
        self.shared = shared
        self.summ = summaries
        self.env = {}
        self.env_pos = {}
        self.poison = set()
        self.summ_pos = summaries_pos if summaries_pos is not None else {}
        self.ret_pos_seen = []
        self.ret = set()
        self.sites = []      # (node, receiver source, tags)
        # iterate assignments to a local fixpoint (flow-insensitive)
        for _ in range(4):
            before = dict((k, set(v)) for k, v in self.env.items())
            self.ret_pos_seen = []
            self.visit_body(fnode)
            if before == self.env:
                break
        self.collect_sites(fnode)

    def ret_pos(self):
        """per-position return tags when every return is a tuple of one length (or a call to such a function)"""
        seen = self.ret_pos_seen
        if not seen or any(p is None for p in seen):
            return None
        return merge_pos(seen)

    def elem(self, tags):
        return set('sharedelem:' + t.split(':', 1)[1] if t.startswith('shared:') else t for t in tags)

    def tags(self, n):
        if n is None:
            return set()
        if isinstance(n, ast.Name):
            if n.id in self.env:
                return set(self.env[n.id])
            if n.id in self.shared:
                return set(['shared:' + n.id])
            return set()
        if isinstance(n, ast.Call):
            f = n.func
            if isinstance(f, ast.Name):
                if f.id in COPIERS:
                    return set()
                if f.id in self.summ:
                    return set(self.summ[f.id])
                return set()
            if isinstance(f, ast.Attribute):
                if f.attr in ('copy', '__copy__', '__deepcopy__'):
                    return set()
                if f.attr in ELEMENT_GETTERS:
                    return self.elem(self.tags(f.value))
                return set()
            return set()
        if isinstance(n, ast.Subscript):
            return self.elem(self.tags(n.value))
        if isinstance(n, (ast.Tuple, ast.List)):
            out = set()
            for e in n.elts:
                out |= self.tags(e)
            return out
        if isinstance(n, ast.IfExp):
            return self.tags(n.body) | self.tags(n.orelse)
        if isinstance(n, ast.BoolOp):
            out = set()
            for v in n.values:
                out |= self.tags(v)
            return out
        if isinstance(n, ast.Starred):
            return self.tags(n.value)
        if isinstance(n, ast.NamedExpr):
            return self.tags(n.value)
        return set()

    def positional(self, value):
        """per-position tags of a tuple-valued expression, or None"""
        if isinstance(value, (ast.Tuple, ast.List)) and not any(isinstance(e, ast.Starred) for e in value.elts):
            return [self.tags(e) for e in value.elts]
        if isinstance(value, ast.Call) and isinstance(value.func, ast.Name) and value.func.id in self.summ_pos \
                and self.summ_pos[value.func.id] is not None:
            return [set(x) for x in self.summ_pos[value.func.id]]
        if isinstance(value, ast.Name) and value.id in self.env_pos and value.id not in self.poison:
            return [set(x) for x in self.env_pos[value.id]]
        if isinstance(value, ast.IfExp):
            a, b = self.positional(value.body), self.positional(value.orelse)
            if a is not None and b is not None:
                return merge_pos([a, b])
        return None

    def assign(self, target, value):
        if isinstance(target, (ast.Tuple, ast.List)) and not any(isinstance(e, ast.Starred) for e in target.elts):
            pos = self.positional(value)
            if pos is not None and len(pos) >= len(target.elts):
                for t, tg in zip(target.elts, pos):
                    self.bind(t, tg)
                return
        if isinstance(target, ast.Name):
            pos = self.positional(value)
            if pos is None and not (isinstance(value, ast.Constant) and value.value is None):
                self.poison.add(target.id)      # also bound to something whose structure is unknown
            if pos is not None:
                old = self.env_pos.get(target.id)
                if old is None or len(old) != len(pos):
                    self.env_pos[target.id] = [set(x) for x in pos]
                else:
                    for a, b in zip(old, pos):
                        a |= b
        self.bind(target, self.tags(value))

    def bind(self, target, tags):
        if isinstance(target, ast.Name):
            self.env.setdefault(target.id, set()).update(tags)
        elif isinstance(target, (ast.Tuple, ast.List)):
            for e in target.elts:
                self.bind(e, tags)
        elif isinstance(target, ast.Starred):
            self.bind(target.value, tags)

    def visit_body(self, fn):
        for n in ast.walk(fn):
            if isinstance(n, (ast.FunctionDef, ast.Lambda)) and n is not fn:
                continue
            if isinstance(n, ast.Assign):
                for tg in n.targets:
                    self.assign(tg, n.value)
            elif isinstance(n, ast.AnnAssign) and n.value is not None:
                self.bind(n.target, self.tags(n.value))
            elif isinstance(n, ast.For):
                self.bind(n.target, self.elem(self.tags(n.iter)))
            elif isinstance(n, ast.With):
                for it in n.items:
                    if it.optional_vars is not None:
                        self.bind(it.optional_vars, self.tags(it.context_expr))
            elif isinstance(n, ast.Return) and n.value is not None:
                self.ret |= self.tags(n.value)
                self.ret_pos_seen.append(self.positional(n.value))
            elif isinstance(n, ast.NamedExpr):
                self.bind(n.target, self.tags(n.value))

    def collect_sites(self, fn):
        for n in ast.walk(fn):
            recv = None
            if isinstance(n, ast.Call) and isinstance(n.func, ast.Attribute) and n.func.attr in MUTATORS:
                recv = n.func.value
            elif isinstance(n, (ast.Assign, ast.AugAssign, ast.Delete)):
                tgts = n.targets if isinstance(n, (ast.Assign, ast.Delete)) else [n.target]
                for t in tgts:
                    if isinstance(t, ast.Subscript):
                        self.sites.append((n, unparse(t.value), self.tags(t.value)))
                    elif isinstance(n, ast.AugAssign) and isinstance(t, ast.Name) and isinstance(n.op, (ast.Add, ast.BitOr)):
                        # x += [...] mutates lists/sets in place
                        pass
            if recv is not None:
                self.sites.append((n, unparse(recv), self.tags(recv)))


def analyse_module(module):
    shared = shared_containers(module)
    fns = {}
    for name, fi in module.functions.items():
        fns[name] = fi.node
    # nested functions of module-level functions are analysed as part of their parent (ast.walk covers them for sites)
    summaries = dict((n, set()) for n in fns)
    summaries_pos = {}
    results = {}
    for _ in range(5):
        changed = False
        for name, node in fns.items():
            ft = FnTags(module, node, shared, summaries, summaries_pos)
            results[name] = ft
            rp = ft.ret_pos()
            if ft.ret != summaries[name] or summaries_pos.get(name, 'unset') != rp:
                summaries[name] = set(ft.ret)
                summaries_pos[name] = rp
                changed = True
        if not changed:
            break
    # methods of classes (keymaps)
    for ci in module.classes.values():
        for mname, fi in ci.methods.items():
            results['%s.%s' % (ci.label, mname)] = FnTags(module, fi.node, shared, summaries, summaries_pos)
    return shared, results
