"""Dependence / provenance engine for straight value-computing functions (klepto/_inspect.py: signature, _keygen, validate).

A flow-sensitive, path-insensitive abstract interpretation of one function (module-local callees are inlined) over this domain:

  AV.d      may-dependences: every source label the value may depend on, through data flow AND control flow (implicit flows from
            enclosing tests, from tests that guard an early exit, from handlers).  Over-approximate: a label that is NOT in d proves
            independence, which is what the must-depend rules (G-DEP, V-FIELDS) report.
  AV.v      explicit value provenance: the source labels whose *values* the value may carry (copies, container construction,
            element access, concatenation; unknown calls carry their arguments).  Tests, dict keys and lengths do not carry.
  AV.elts   element values of a tuple/list literal of known arity (tuple unpacking, multi-value returns)
  AV.alts   for dict-like values: the set of possible *layerings*; a layering is the ordered tuple of Layer(v, d) that were written
            into the mapping, later layers overriding earlier ones (dict(...) / {..} / .update / d[k]=v / {**a, **b} / dict(a, **b)),
            setdefault-style writes are prepended.  Used by the precedence rule G-PREC.
  AV.const  python constant when known (prunes branches on constant flags after inlining)

Sources are introduced by the caller: parameter labels, and FIELD_ROOTS - labels whose attribute reads get their own label
('SPEC' + '.varargs').  Nothing is executed; the interpretation is over the AST only.
"""
import ast

from .src import AnalysisError, unparse

NOCONST = ('<noconst>',)
MAXALTS = 24

PURE_VALUE_FUNCS = ('dict', 'list', 'tuple', 'set', 'frozenset', 'sorted', 'reversed', 'iter', 'next', 'copy', 'deepcopy',
                    'OrderedDict', 'odict', 'chain', 'filter', 'map')
PURE_SCALAR_FUNCS = ('len', 'isinstance', 'issubclass', 'hasattr', 'callable', 'bool', 'any', 'all', 'id', 'type', 'repr', 'str',
                     'int', 'float', 'range', 'hash', 'ismethod', 'isfunction', 'isbuiltin', 'isclass', 'isroutine')
PURE_PICK_FUNCS = ('max', 'min', 'sum', 'abs')
VIEW_METHODS = ('items', 'values', 'copy', 'get', '__getitem__')
KEY_METHODS = ('keys',)
SET_METHODS = ('intersection', 'union', 'difference', 'symmetric_difference', 'issubset', 'issuperset')
STR_METHODS = ('strip', 'lstrip', 'rstrip', 'startswith', 'endswith', 'format', 'join', 'split', 'replace', 'lower', 'upper')
MUTATORS = ('update', 'append', 'extend', 'insert', 'add', 'discard', 'remove', 'pop', 'popitem', 'clear', 'setdefault',
            'sort', 'reverse', '__setitem__', '__delitem__', 'intersection_update', 'difference_update')


class Layer(object):
    __slots__ = ('v', 'd', 'where')

    def __init__(self, v, d, where=0):
        self.v = frozenset(v)
        self.d = frozenset(d)
        self.where = where

    def key(self):
        return (self.v, self.d, self.where)

    def __eq__(self, o):
        return isinstance(o, Layer) and self.key() == o.key()

    def __hash__(self):
        return hash(self.key())

    def __repr__(self):
        return 'L%d{%s}' % (self.where, ','.join(sorted(self.v)))


class AV(object):
    __slots__ = ('d', 'v', 'elts', 'alts', 'const')

    def __init__(self, d=(), v=(), elts=None, alts=None, const=NOCONST):
        self.d = frozenset(d)
        self.v = frozenset(v)
        self.elts = elts
        self.alts = alts
        self.const = const

    def with_ctx(self, ctx):
        if not ctx or ctx <= self.d:
            return self
        return AV(self.d | ctx, self.v, self.elts, self.alts, self.const)

    def layers_or_self(self, where=0):
        if self.alts is not None:
            return self.alts
        if self.const is None or self.const == {} or self.const == ():
            return frozenset([()])
        return frozenset([(Layer(self.v, self.d, where),)])

    def __repr__(self):
        return 'AV(d=%s v=%s%s)' % (sorted(self.d), sorted(self.v), ' alts=%d' % len(self.alts) if self.alts else '')


EMPTY = AV()


def join(a, b):
    if a is b:
        return a
    if a is None:
        return b
    if b is None:
        return a
    elts = None
    if a.elts is not None and b.elts is not None and len(a.elts) == len(b.elts):
        elts = tuple(join(x, y) for x, y in zip(a.elts, b.elts))
    alts = None
    if a.alts is not None or b.alts is not None:
        # a constant None / empty side contributes no layering of its own
        la = a.alts if a.alts is not None else (frozenset() if a.const is None else a.layers_or_self())
        lb = b.alts if b.alts is not None else (frozenset() if b.const is None else b.layers_or_self())
        alts = cap(la | lb)
    const = a.const if (a.const is not NOCONST and b.const is not NOCONST and _same_const(a.const, b.const)) else NOCONST
    return AV(a.d | b.d, a.v | b.v, elts, alts, const)


def _same_const(x, y):
    try:
        return type(x) is type(y) and x == y
    except Exception:
        return False


def cap(alts):
    if alts is None:
        return None
    if len(alts) > MAXALTS:
        return None
    return frozenset(alts)


class Site(object):
    """a recorded return / raise / call site"""

    def __init__(self, kind, node, func, ctx, ctx_local, val=None, exc=None, depth=0, callee=None, args=None):
        self.kind = kind
        self.node = node
        self.func = func          # qualname of the function the site is in
        self.ctx = frozenset(ctx)            # all control dependences (incl. early-exit guards, handlers)
        self.ctx_local = frozenset(ctx_local)  # enclosing tests only
        self.val = val
        self.exc = exc
        self.depth = depth
        self.callee = callee
        self.args = args

    @property
    def lineno(self):
        return getattr(self.node, 'lineno', 0)


class Env(object):
    def __init__(self, vars_=None, parent=None):
        self.vars = dict(vars_ or {})
        self.parent = parent
        self.alias = {}    # name -> set of names that may be the same object

    def copy(self):
        e = Env(self.vars, self.parent)
        e.alias = dict((k, set(v)) for k, v in self.alias.items())
        return e

    def get(self, name):
        e = self
        while e is not None:
            if name in e.vars:
                return e.vars[name]
            e = e.parent
        return None

    def set(self, name, av):
        self.vars[name] = av

    def join_from(self, other):
        for k in set(self.vars) | set(other.vars):
            a, b = self.vars.get(k), other.vars.get(k)
            self.vars[k] = join(a, b)
        for k, v in other.alias.items():
            self.alias.setdefault(k, set()).update(v)


class Frame(object):
    def __init__(self, qual, depth):
        self.qual = qual
        self.depth = depth
        self.returns = []
        self.touched = set()     # labels read inside a try body (for handler contexts)


class DepEngine(object):
    def __init__(self, module, field_roots=(), source_calls=None, inline=True, max_depth=4, other_modules=None):
        self.module = module
        self.field_roots = set(field_roots)
        self.source_calls = source_calls or {}    # callee name -> label for its result
        self.source_sites = []                    # (call node, argument values, function) of every source call met
        self.inline = inline
        self.max_depth = max_depth
        self.sites = []
        self.stack = []
        self.notes = []
        self.local_funcs = [{}]
        self.globals = {}        # module-level containers written by the analysed code: name -> join of what was stored (weak updates)

    # ------------------------------------------------------------------ entry
    def run(self, fnode, qual, params):
        """params: name -> AV.  Returns the joined return AV; sites in self.sites"""
        env = Env()
        a = fnode.args
        names = [x.arg for x in a.posonlyargs + a.args + a.kwonlyargs] + ([a.vararg.arg] if a.vararg else []) + ([a.kwarg.arg] if a.kwarg else [])
        for n in names:
            env.set(n, params.get(n, AV(['P:' + n], ['P:' + n])))
        # two passes: what a memo table hands back on the first pass is what the second pass stored into it
        out = None
        for _ in range(2):
            self.sites = []
            e2 = env.copy()
            out = self.call_body(fnode, qual, e2, frozenset(), 0)
            if not self.globals:
                break
        return out

    def call_body(self, fnode, qual, env, ctx, depth):
        fr = Frame(qual, depth)
        self.stack.append(fr)
        self.local_funcs.append({})
        try:
            self.block(fnode.body, env, ctx, ctx)
        finally:
            self.stack.pop()
            self.local_funcs.pop()
        out = None
        for r in fr.returns:
            out = join(out, r)
        if out is None:
            out = AV(ctx, (), const=None)
        return out

    # ------------------------------------------------------------------ statements
    def block(self, stmts, env, ctx, ctx_local):
        """returns (terminated, ctx) ; ctx may grow after guarded early exits"""
        for st in stmts:
            term, ctx = self.stmt(st, env, ctx, ctx_local)
            if term:
                return True, ctx
        return False, ctx

    def stmt(self, st, env, ctx, ctx_local):
        fr = self.stack[-1]
        if isinstance(st, ast.Return):
            v = self.ev(st.value, env, ctx) if st.value is not None else AV(const=None)
            v = v.with_ctx(ctx)
            fr.returns.append(v)
            self.sites.append(Site('return', st, fr.qual, ctx, ctx_local, val=v, depth=fr.depth))
            return True, ctx
        if isinstance(st, ast.Raise):
            exc = None
            val = EMPTY
            if st.exc is not None:
                e = st.exc
                if isinstance(e, ast.Call):
                    exc = unparse(e.func)
                    # raise _too_many(...): a module-level builder whose every return is <ExceptionClass>(...)
                    if isinstance(e.func, ast.Name) and env.get(e.func.id) is None and e.func.id in self.module.functions:
                        rets = [r for r in ast.walk(self.module.functions[e.func.id].node) if isinstance(r, ast.Return)]
                        classes = set(unparse(r.value.func) if isinstance(r.value, ast.Call) else '?' for r in rets)
                        if len(classes) == 1 and '?' not in classes:
                            exc = classes.pop()
                    val = self.ev(e, env, ctx)
                else:
                    exc = unparse(e)
                    val = self.ev(e, env, ctx)
            self.sites.append(Site('raise', st, fr.qual, ctx, ctx_local, val=val, exc=exc, depth=fr.depth))
            return True, ctx
        if isinstance(st, ast.Assert):
            t = self.ev(st.test, env, ctx)
            self.sites.append(Site('raise', st, fr.qual, ctx | t.d, ctx_local | t.d, val=t, exc='AssertionError', depth=fr.depth))
            return False, ctx | t.d
        if isinstance(st, (ast.Pass, ast.Global, ast.Nonlocal)):
            return False, ctx
        if isinstance(st, (ast.Continue, ast.Break)):
            return True, ctx
        if isinstance(st, ast.Expr):
            self.ev(st.value, env, ctx)
            return False, ctx
        if isinstance(st, ast.Assign):
            v = self.ev(st.value, env, ctx)
            for t in st.targets:
                self.assign(t, v, env, ctx, st.value)
            return False, ctx
        if isinstance(st, ast.AnnAssign):
            if st.value is not None:
                v = self.ev(st.value, env, ctx)
                self.assign(st.target, v, env, ctx, st.value)
            return False, ctx
        if isinstance(st, ast.AugAssign):
            cur = self.ev(st.target, env, ctx)
            v = self.ev(st.value, env, ctx)
            nv = AV(cur.d | v.d | ctx, cur.v | v.v)
            if isinstance(st.op, ast.BitOr) and (cur.alts is not None or v.alts is not None):
                nv.alts = cap(frozenset(a + b for a in cur.layers_or_self() for b in v.layers_or_self(st.lineno)))
            self.assign(st.target, nv, env, ctx, None)
            return False, ctx
        if isinstance(st, ast.Delete):
            for t in st.targets:
                if isinstance(t, ast.Subscript):
                    k = self.ev(t.slice, env, ctx)
                    self.mutate(t.value, env, AV(k.d | ctx), ctx, kind='remove')
                elif isinstance(t, ast.Name):
                    pass
            return False, ctx
        if isinstance(st, ast.If):
            return self.if_stmt(st, env, ctx, ctx_local)
        if isinstance(st, (ast.For, ast.While)):
            return self.loop(st, env, ctx, ctx_local)
        if isinstance(st, ast.Try):
            return self.try_stmt(st, env, ctx, ctx_local)
        if isinstance(st, ast.With):
            for it in st.items:
                v = self.ev(it.context_expr, env, ctx)
                if it.optional_vars is not None:
                    self.assign(it.optional_vars, v, env, ctx, None)
            return self.block(st.body, env, ctx, ctx_local)
        if isinstance(st, ast.FunctionDef):
            self.local_funcs[-1][st.name] = (st, env)
            env.set(st.name, AV(ctx, ['F:' + st.name]))
            return False, ctx
        if isinstance(st, (ast.Import, ast.ImportFrom)):
            for a in st.names:
                n = a.asname or a.name.split('.')[0]
                env.set(n, AV((), ['G:' + n]))
            return False, ctx
        if isinstance(st, ast.ClassDef):
            env.set(st.name, AV(ctx, ['F:' + st.name]))
            return False, ctx
        raise AnalysisError('deps: unmodelled statement %s at %s:%d' % (type(st).__name__, self.module.rel, getattr(st, 'lineno', 0)))

    def truth(self, av):
        if av.const is NOCONST:
            return None
        try:
            return bool(av.const)
        except Exception:
            return None

    def if_stmt(self, st, env, ctx, ctx_local):
        t = self.ev(st.test, env, ctx)
        tv = self.truth(t)
        if tv is True:
            return self.block(st.body, env, ctx, ctx_local)
        if tv is False:
            return self.block(st.orelse, env, ctx, ctx_local)
        c2 = ctx | t.d
        l2 = ctx_local | t.d
        e1 = env.copy()
        e2 = env.copy()
        self.refine(st.test, e1, True)
        self.refine(st.test, e2, False)
        t1, c1 = self.block(st.body, e1, c2, l2)
        t2, c3 = self.block(st.orelse, e2, c2, l2)
        if t1 and t2:
            env.vars = e1.vars
            return True, ctx
        if t1:
            env.vars = e2.vars
            env.alias = e2.alias
            return False, c3            # the rest runs only because the test was false (c3 >= ctx | t.d)
        if t2:
            env.vars = e1.vars
            env.alias = e1.alias
            return False, c1
        e1.join_from(e2)
        env.vars = e1.vars
        env.alias = e1.alias
        extra = (c1 | c3) - c2
        if extra:
            # an early exit nested deeper was reached under this test as well
            return False, ctx | extra | t.d
        return False, ctx

    def refine(self, test, env, positive):
        """`X is None` on the true branch pins X to the constant None (keeps layerings clean after inlined multi-returns)"""
        if isinstance(test, ast.UnaryOp) and isinstance(test.op, ast.Not):
            return self.refine(test.operand, env, not positive)
        if isinstance(test, ast.BoolOp):
            if (isinstance(test.op, ast.And) and positive) or (isinstance(test.op, ast.Or) and not positive):
                for v in test.values:
                    self.refine(v, env, positive)
            return
        if isinstance(test, ast.Compare) and len(test.ops) == 1 and isinstance(test.left, ast.Name) \
                and isinstance(test.comparators[0], ast.Constant) and test.comparators[0].value is None:
            isnone = isinstance(test.ops[0], (ast.Is, ast.Eq))
            isnot = isinstance(test.ops[0], (ast.IsNot, ast.NotEq))
            cur = env.get(test.left.id)
            if cur is None:
                return
            if (isnone and positive) or (isnot and not positive):
                env.set(test.left.id, AV(cur.d, (), const=None))

    def loop(self, st, env, ctx, ctx_local):
        if isinstance(st, ast.For):
            it = self.ev(st.iter, env, ctx)
            c2 = ctx | it.d
            l2 = ctx_local | it.d
        else:
            it = None
            t = self.ev(st.test, env, ctx)
            c2 = ctx | t.d
            l2 = ctx_local | t.d
        before = env.copy()
        exits = False
        extra = frozenset()
        for _ in range(3):
            e = env.copy()
            if it is not None:
                self.bind_iter(st.target, st.iter, it, e, c2)
            else:
                t = self.ev(st.test, e, c2)
                c2 = c2 | t.d
            term, cb = self.block(st.body, e, c2, l2)
            if term or (cb - c2):
                exits = True
                extra = extra | (cb - ctx)
            c2 = c2 | cb
            env.join_from(e)
        env.join_from(before)
        if st.orelse:
            self.block(st.orelse, env, c2, l2)
        if exits:
            return False, ctx | c2 | extra
        return False, ctx

    def try_stmt(self, st, env, ctx, ctx_local):
        fr = self.stack[-1]
        before = env.copy()
        saved = fr.touched
        fr.touched = set()
        tb, cb = self.block(st.body, env, ctx, ctx_local)
        touched = frozenset(fr.touched)
        fr.touched = saved | set(touched)
        allterm = tb
        outs = []
        if not tb:
            e0 = env.copy()
            t0, c0 = self.block(st.orelse, e0, cb, ctx_local)
            if not t0:
                outs.append((e0, c0))
            allterm = t0
        hctx = ctx | touched
        for h in st.handlers:
            eh = before.copy()
            eh.join_from(env)
            if h.type is not None:
                self.ev(h.type, eh, ctx)
            if h.name:
                eh.set(h.name, AV(frozenset(hctx) | frozenset(['EXC']), ['EXC']))
            th, ch = self.block(h.body, eh, hctx, ctx_local | touched)
            if not th:
                outs.append((eh, ch))
        if not outs:
            if st.finalbody:
                self.block(st.finalbody, env, ctx, ctx_local)
            return True, ctx
        e, c = outs[0]
        cj = c
        for e2, c2 in outs[1:]:
            e.join_from(e2)
            cj = cj | c2
        env.vars = e.vars
        env.alias = e.alias
        # whether the code after the try runs normally depends on what the body / handlers did
        if st.handlers and len(outs) < (1 + len(st.handlers)):
            cj = cj | touched
        if st.finalbody:
            tf, cj = self.block(st.finalbody, env, cj, ctx_local)
            if tf:
                return True, cj
        return False, cj

    # ------------------------------------------------------------------ assignment / mutation
    def assign(self, target, v, env, ctx, value_node):
        v = v.with_ctx(ctx)
        if isinstance(target, ast.Name):
            env.set(target.id, v)
            env.alias.pop(target.id, None)
            if isinstance(value_node, ast.Name):
                env.alias.setdefault(target.id, set()).add(value_node.id)
                env.alias.setdefault(value_node.id, set()).add(target.id)
            elif isinstance(value_node, (ast.BoolOp, ast.IfExp)):
                for n in ast.walk(value_node):
                    if isinstance(n, ast.Name) and env.get(n.id) is not None:
                        env.alias.setdefault(target.id, set()).add(n.id)
                        env.alias.setdefault(n.id, set()).add(target.id)
            return
        if isinstance(target, (ast.Tuple, ast.List)):
            n = len(target.elts)
            if v.elts is not None and len(v.elts) == n and not any(isinstance(t, ast.Starred) for t in target.elts):
                for t, e in zip(target.elts, v.elts):
                    self.assign(t, e.with_ctx(v.d - e.d if False else ctx), env, ctx, None)
            else:
                for t in target.elts:
                    if isinstance(t, ast.Starred):
                        t = t.value
                    self.assign(t, AV(v.d, v.v), env, ctx, None)
            return
        if isinstance(target, ast.Subscript):
            k = self.ev(target.slice, env, ctx)
            self.mutate(target.value, env, AV(v.d | k.d | ctx, v.v, v.elts, None), ctx, kind='write', where=getattr(target, 'lineno', 0))
            return
        if isinstance(target, ast.Attribute):
            self.mutate(target.value, env, AV(v.d | ctx, v.v), ctx, kind='attr')
            return
        if isinstance(target, ast.Starred):
            return self.assign(target.value, AV(v.d, v.v), env, ctx, None)
        raise AnalysisError('deps: unmodelled assignment target %s' % type(target).__name__)

    def root_name(self, node):
        while isinstance(node, (ast.Subscript, ast.Attribute)):
            node = node.value
        if isinstance(node, ast.Name):
            return node.id
        return None

    def mutate(self, recv, env, w, ctx, kind='write', where=0):
        """in-place change of the object named by recv: w is what is written (an AV; its layerings are appended)"""
        name = self.root_name(recv)
        if name is None:
            return
        if env.get(name) is None and name in self.module.consts:
            # a module-level container (memo table): remember what is stored in it
            cur = self.globals.get(name)
            self.globals[name] = join(cur, AV(w.d | ctx, w.v, w.elts, None)) if cur is not None else AV(w.d | ctx, w.v, w.elts, None)
            return
        names = set([name]) | env.alias.get(name, set())
        direct = isinstance(recv, ast.Name)
        for n in names:
            cur = env.get(n)
            if cur is None:
                continue
            nd = cur.d | w.d | ctx
            if kind in ('remove', 'clear'):
                nv = AV(nd, cur.v, None, cur.alts, NOCONST)
            elif kind == 'prepend' and direct:
                alts = cap(frozenset(b + a for a in cur.layers_or_self() for b in w.layers_or_self(where)))
                nv = AV(nd, cur.v | w.v, None, alts, NOCONST)
            elif direct and kind in ('write', 'update'):
                # a layer remembers under which conditions it is written (its control context) and where
                wl = frozenset(tuple(Layer(l.v, l.d | ctx, l.where or where) for l in b) for b in w.layers_or_self(where))
                alts = cap(frozenset(a + b for a in cur.layers_or_self() for b in wl))
                nv = AV(nd, cur.v | w.v, None, alts, NOCONST)
            else:
                nv = AV(nd, cur.v | w.v, None, None if not direct else cur.alts, NOCONST)
            e = env
            # write where the variable lives (closures of inlined helpers write to their own env copy only)
            while e is not None and n not in e.vars:
                e = e.parent
            (e or env).vars[n] = nv

    # ------------------------------------------------------------------ expressions
    def ev(self, node, env, ctx):
        v = self._ev(node, env, ctx)
        if self.stack:
            self.stack[-1].touched |= v.d
        return v

    def lookup_global(self, name):
        m = self.module
        if name in self.globals:
            g = self.globals[name]
            return AV(g.d, g.v | frozenset(['G:' + name]), (g,) if g.elts is not None else None)
        if name in m.functions:
            return AV((), ['F:' + name])
        if name in m.consts:
            c = m.consts[name]
            if isinstance(c, ast.Constant):
                return AV((), ['G:' + name], const=c.value)
            return AV((), ['G:' + name])
        if name in ('True', 'False', 'None'):
            return AV(const={'True': True, 'False': False, 'None': None}[name])
        return AV((), ['G:' + name])

    def field(self, base, attr):
        d = set(base.d)
        v = set()
        for L in base.d:
            if L in self.field_roots:
                d.add(L + '.' + attr)
        for L in base.v:
            if L in self.field_roots:
                v.add(L + '.' + attr)
                d.add(L + '.' + attr)
            else:
                v.add(L)
        nv = AV(d, v)
        # a field of a field root may itself be a root (partial.func)
        return nv

    def _ev(self, node, env, ctx):
        if node is None:
            return AV(const=None)
        if isinstance(node, ast.Constant):
            return AV((), ['CONST'] if node.value is not None else (), const=node.value)
        if isinstance(node, ast.Name):
            v = env.get(node.id)
            if v is None:
                v = self.lookup_global(node.id)
            return v
        if isinstance(node, ast.Attribute):
            if isinstance(node.value, ast.Name) and env.get(node.value.id) is None and (
                    node.value.id in self.module.imports or node.value.id in ('inspect', 'os', 'sys', 'copy', 'functools', 'itertools', 'collections')):
                return AV((), ['LIBF:' + node.attr])        # a library function taken as a value (getspec = inspect.getfullargspec)
            b = self.ev(node.value, env, ctx)
            return self.field(b, node.attr)
        if isinstance(node, ast.Subscript):
            b = self.ev(node.value, env, ctx)
            k = self.ev(node.slice, env, ctx)
            if b.elts is not None and isinstance(k.const, int) and not isinstance(k.const, bool) and -len(b.elts) <= k.const < len(b.elts):
                e = b.elts[k.const]
                return AV(e.d | k.d | (b.d - frozenset().union(*[x.d for x in b.elts]) if b.elts else b.d), e.v, e.elts, e.alts, e.const)
            return AV(b.d | k.d, b.v)
        if isinstance(node, ast.Slice):
            out = EMPTY
            for p in (node.lower, node.upper, node.step):
                if p is not None:
                    out = AV(out.d | self.ev(p, env, ctx).d)
            return out
        if isinstance(node, (ast.Tuple, ast.List, ast.Set)):
            elts = []
            d, v = set(), set()
            star = False
            for e in node.elts:
                if isinstance(e, ast.Starred):
                    star = True
                    x = self.ev(e.value, env, ctx)
                else:
                    x = self.ev(e, env, ctx)
                elts.append(x)
                d |= x.d
                v |= x.v
            const = NOCONST
            if not node.elts:
                const = () if isinstance(node, ast.Tuple) else NOCONST
            return AV(d, v, None if (star or isinstance(node, ast.Set)) else tuple(elts), None, const)
        if isinstance(node, ast.Dict):
            return self.dict_literal(node, env, ctx)
        if isinstance(node, ast.BinOp):
            a = self.ev(node.left, env, ctx)
            b = self.ev(node.right, env, ctx)
            out = AV(a.d | b.d, a.v | b.v)
            if isinstance(node.op, ast.BitOr) and (a.alts is not None or b.alts is not None):
                out.alts = cap(frozenset(x + y for x in a.layers_or_self() for y in b.layers_or_self(node.lineno)))
            if isinstance(node.op, ast.Add) and a.elts is not None and b.elts is not None:
                out.elts = tuple(a.elts) + tuple(b.elts)
            return out
        if isinstance(node, ast.UnaryOp):
            a = self.ev(node.operand, env, ctx)
            if isinstance(node.op, ast.Not):
                tv = self.truth(a)
                return AV(a.d, (), const=(not tv) if tv is not None else NOCONST)
            return AV(a.d, a.v)
        if isinstance(node, ast.BoolOp):
            vals = [self.ev(x, env, ctx) for x in node.values]
            # constant folding (flags of inlined helpers)
            known = [self.truth(x) for x in vals]
            if isinstance(node.op, ast.And):
                if any(k is False for k in known):
                    first_false = known.index(False)
                    if all(k is True for k in known[:first_false]):
                        return vals[first_false]
                if all(k is True for k in known):
                    return vals[-1]
            else:
                if known and known[0] is True:
                    return vals[0]
                if all(k is False for k in known):
                    return vals[-1]
                # `x or {}`: drop constant-falsy alternatives that carry nothing
            out = None
            for x in vals:
                out = join(out, x)
            dd = frozenset().union(*[x.d for x in vals])
            return AV(dd, out.v, None, out.alts, NOCONST)
        if isinstance(node, ast.Compare):
            d = set(self.ev(node.left, env, ctx).d)
            cs = [self.ev(c, env, ctx) for c in node.comparators]
            for c in cs:
                d |= c.d
            if len(node.ops) == 1 and isinstance(node.ops[0], (ast.In, ast.NotIn)) and self.stack:
                self.sites.append(Site('member', node, self.stack[-1].qual, ctx, ctx, val=cs[0], depth=self.stack[-1].depth))
            # comparisons against short string markers ('*', '**', '!') are recorded as test features
            for x in [node.left] + list(node.comparators):
                if isinstance(x, ast.Constant) and isinstance(x.value, str) and 0 < len(x.value) <= 3:
                    d.add('TEST:' + x.value)
            const = NOCONST
            if len(node.ops) == 1:
                l = self.ev(node.left, env, ctx)
                r = cs[0]
                if l.const is not NOCONST and r.const is not NOCONST and isinstance(node.ops[0], (ast.Is, ast.IsNot, ast.Eq, ast.NotEq)):
                    try:
                        same = (l.const is r.const) if isinstance(node.ops[0], (ast.Is, ast.IsNot)) else (l.const == r.const)
                        if isinstance(l.const, (bool, int, str, type(None))) and isinstance(r.const, (bool, int, str, type(None))):
                            const = same if isinstance(node.ops[0], (ast.Is, ast.Eq)) else (not same)
                    except Exception:
                        const = NOCONST
            return AV(d, (), const=const)
        if isinstance(node, ast.IfExp):
            t = self.ev(node.test, env, ctx)
            tv = self.truth(t)
            if tv is True:
                return self.ev(node.body, env, ctx)
            if tv is False:
                return self.ev(node.orelse, env, ctx)
            a = self.ev(node.body, env, ctx)
            b = self.ev(node.orelse, env, ctx)
            j = join(a, b)
            return AV(j.d | t.d, j.v, j.elts, j.alts, NOCONST)
        if isinstance(node, ast.Call):
            return self.call(node, env, ctx)
        if isinstance(node, (ast.ListComp, ast.SetComp, ast.GeneratorExp)):
            e = Env(parent=env)
            c = self.comp_bind(node.generators, e, ctx)
            x = self.ev(node.elt, e, c)
            return AV(x.d | c, x.v, (x,) if x.elts is not None else None)    # elts=(pair,) marks "iterable of pairs"
        if isinstance(node, ast.DictComp):
            e = Env(parent=env)
            c = self.comp_bind(node.generators, e, ctx)
            k = self.ev(node.key, e, c)
            x = self.ev(node.value, e, c)
            src = self.comp_source_layers(node.generators, node.value, e, env)
            lay = Layer(x.v, x.d | k.d | c, node.lineno)
            return AV(x.d | k.d | c, x.v, None, src if src is not None else frozenset([(lay,)]))
        if isinstance(node, ast.Lambda):
            return AV((), ['F:lambda'])
        if isinstance(node, ast.JoinedStr):
            d = set()
            for x in node.values:
                if isinstance(x, ast.FormattedValue):
                    d |= self.ev(x.value, env, ctx).d
            return AV(d)
        if isinstance(node, ast.FormattedValue):
            return AV(self.ev(node.value, env, ctx).d)
        if isinstance(node, ast.Starred):
            return self.ev(node.value, env, ctx)
        if isinstance(node, ast.NamedExpr):
            v = self.ev(node.value, env, ctx)
            self.assign(node.target, v, env, ctx, node.value)
            return v
        raise AnalysisError('deps: unmodelled expression %s at %s:%d' % (type(node).__name__, self.module.rel, getattr(node, 'lineno', 0)))

    def comp_source_layers(self, gens, value_node, e, outer):
        """{k: v for k, v in X.items() if ...} keeps X's layering (a filtered / re-keyed copy)"""
        if len(gens) != 1:
            return None
        g = gens[0]
        it = g.iter
        if isinstance(it, ast.Call) and isinstance(it.func, ast.Attribute) and it.func.attr == 'items' and not it.args:
            src = self.ev(it.func.value, outer, frozenset())
            if isinstance(g.target, ast.Tuple) and len(g.target.elts) == 2 and isinstance(g.target.elts[1], ast.Name) \
                    and isinstance(value_node, ast.Name) and value_node.id == g.target.elts[1].id:
                return src.layers_or_self()
        return None

    def comp_bind(self, gens, e, ctx):
        c = ctx
        for g in gens:
            it = self.ev(g.iter, e, c)
            c = c | it.d
            self.bind_iter(g.target, g.iter, it, e, c)
            for cond in g.ifs:
                c = c | self.ev(cond, e, c).d
        return c

    def bind_iter(self, target, iter_node, it, e, ctx):
        """bind loop targets: keys / indices carry no values; .items() / enumerate / zip split positions"""
        def keyav():
            return AV(it.d | ctx, ())

        def valav(src=None):
            s = src or it
            return AV(s.d | ctx, s.v)
        fn = None
        if isinstance(iter_node, ast.Call):
            f = iter_node.func
            fn = f.attr if isinstance(f, ast.Attribute) else f.id if isinstance(f, ast.Name) else None
        if isinstance(target, (ast.Tuple, ast.List)) and len(target.elts) == 2 and fn in ('items', 'enumerate'):
            self.assign(target.elts[0], keyav(), e, frozenset(), None)
            self.assign(target.elts[1], valav(), e, frozenset(), None)
            return
        if isinstance(target, (ast.Tuple, ast.List)) and fn == 'zip' and len(iter_node.args) == len(target.elts):
            for t, a in zip(target.elts, iter_node.args):
                x = self.ev(a, e, ctx)
                self.assign(t, AV(x.d | it.d | ctx, x.v), e, frozenset(), None)
            return
        if fn == 'keys' or (isinstance(iter_node, ast.Name) and it.alts is not None):
            # iterating a mapping yields its keys
            self.assign(target, keyav(), e, frozenset(), None)
            return
        if it.elts is not None and len(it.elts) == 1 and it.elts[0].elts is not None and isinstance(target, (ast.Tuple, ast.List)) \
                and len(target.elts) == len(it.elts[0].elts):
            for t, x in zip(target.elts, it.elts[0].elts):
                self.assign(t, AV(x.d | it.d | ctx, x.v), e, frozenset(), None)
            return
        if isinstance(target, (ast.Tuple, ast.List)):
            for t in target.elts:
                self.assign(t, valav(), e, frozenset(), None)
            return
        self.assign(target, valav(), e, frozenset(), None)

    def dict_literal(self, node, env, ctx):
        alts = frozenset([()])
        d, v = set(), set()
        cur_d, cur_v = set(), set()
        have = False

        def flush(alts):
            if have:
                return frozenset(a + (Layer(cur_v, cur_d, node.lineno),) for a in alts)
            return alts
        for k, x in zip(node.keys, node.values):
            xv = self.ev(x, env, ctx)
            if k is None:
                alts = flush(alts)
                have = False
                cur_d, cur_v = set(), set()
                alts = cap(frozenset(a + b for a in alts for b in xv.layers_or_self(node.lineno)))
                if alts is None:
                    alts = frozenset([(Layer(v | xv.v, d | xv.d, node.lineno),)])
            else:
                kv = self.ev(k, env, ctx)
                cur_d |= kv.d | xv.d
                cur_v |= xv.v
                have = True
            d |= xv.d
            v |= xv.v
            if k is not None:
                d |= kv.d
        alts = flush(alts)
        return AV(d, v, None, alts, {} if not node.keys else NOCONST)

    # ------------------------------------------------------------------ calls
    def call(self, node, env, ctx):
        fr = self.stack[-1]
        f = node.func
        args = [self.ev(a.value if isinstance(a, ast.Starred) else a, env, ctx) for a in node.args]
        kws = [(k.arg, self.ev(k.value, env, ctx)) for k in node.keywords]
        alld = frozenset().union(*([a.d for a in args] + [k[1].d for k in kws])) if (args or kws) else frozenset()
        allv = frozenset().union(*([a.v for a in args] + [k[1].v for k in kws])) if (args or kws) else frozenset()
        fname = f.id if isinstance(f, ast.Name) else f.attr if isinstance(f, ast.Attribute) else None
        # ---- method call
        if isinstance(f, ast.Attribute):
            recv = self.ev(f.value, env, ctx)
            fav = self.field(recv, f.attr)
            # the object that is called is a bound method of the receiver: it is "the function" only as <root>.<attr> (func.__call__)
            called = AV(fav.d, [L + '.' + f.attr for L in recv.v if L in self.field_roots])
            self.sites.append(Site('call', node, fr.qual, ctx, ctx, val=called, depth=fr.depth, callee=unparse(f), args=args))
            mod_call = isinstance(f.value, ast.Name) and env.get(f.value.id) is None and (f.value.id in self.module.imports or f.value.id in ('inspect', 'os', 'sys', 'copy', 'functools', 'itertools', 'collections'))
            if mod_call:
                return self.named_call(node, f.attr, args, kws, alld, allv, env, ctx, recv)
            m = f.attr
            if m == 'update':
                w = None
                for a in args:
                    w = a if w is None else AV(w.d | a.d, w.v | a.v, None, cap(frozenset(x + y for x in w.layers_or_self() for y in a.layers_or_self(node.lineno))))
                if kws:
                    kl = AV(frozenset().union(*[k[1].d for k in kws]), frozenset().union(*[k[1].v for k in kws]))
                    for k in kws:
                        if k[0] is None:
                            kl = AV(kl.d, kl.v, None, k[1].alts)
                    w = kl if w is None else AV(w.d | kl.d, w.v | kl.v, None, cap(frozenset(x + y for x in w.layers_or_self() for y in kl.layers_or_self(node.lineno))))
                if w is not None:
                    if w.alts is None:
                        w = AV(w.d, w.v, None, w.layers_or_self(node.lineno))
                    self.mutate(f.value, env, w, ctx, kind='update', where=node.lineno)
                return AV(ctx, (), const=None)
            if m == 'setdefault':
                w = AV(alld, args[1].v if len(args) > 1 else ())
                self.mutate(f.value, env, w, ctx, kind='prepend', where=node.lineno)
                return AV(recv.d | alld, recv.v | w.v)
            if m in ('pop', 'popitem', 'remove', 'discard', 'clear', '__delitem__', 'difference_update', 'intersection_update'):
                self.sites.append(Site('remove', node, fr.qual, ctx, ctx, val=AV(alld | ctx, recv.v), depth=fr.depth, callee=m, args=args))
                self.mutate(f.value, env, AV(alld), ctx, kind='remove')
                dflt = args[1].v if (m == 'pop' and len(args) > 1) else frozenset()
                return AV(recv.d | alld, recv.v | dflt)
            if m in ('append', 'extend', 'insert', 'add', '__setitem__', 'appendleft'):
                self.mutate(f.value, env, AV(alld, allv), ctx, kind='write', where=node.lineno)
                return AV(ctx, (), const=None)
            if m in ('sort', 'reverse'):
                self.mutate(f.value, env, AV(alld), ctx, kind='remove')
                return AV(ctx, (), const=None)
            if m == 'copy' and not args:
                return AV(recv.d, recv.v, recv.elts, recv.alts)
            if m in ('items', 'values'):
                return AV(recv.d, recv.v, None, recv.alts)
            if m == 'keys':
                return AV(recv.d, ())
            if m == 'get':
                dv = args[1].v if len(args) > 1 else frozenset()
                return AV(recv.d | alld, recv.v | dv)
            if m in SET_METHODS:
                return AV(recv.d | alld, recv.v | allv)
            if m in STR_METHODS:
                return AV(recv.d | alld, recv.v | allv)
            if m in ('count', 'index', 'isdisjoint'):
                return AV(recv.d | alld, ())
            # unknown method: the result carries receiver and arguments; the receiver may have been changed by the arguments
            if isinstance(f.value, ast.Name) and env.get(f.value.id) is not None and m not in ('bind', 'bind_partial'):
                self.mutate(f.value, env, AV(alld, allv), ctx, kind='attr')
            return AV(fav.d | alld, fav.v | allv)
        # ---- plain call
        if isinstance(f, ast.Name):
            fav = self.ev(f, env, ctx)
            self.sites.append(Site('call', node, fr.qual, ctx, ctx, val=fav, depth=fr.depth, callee=f.id, args=args))
            # local nested def
            for scope in reversed(self.local_funcs):
                if f.id in scope and env.get(f.id) is not None and 'F:' + f.id in env.get(f.id).v:
                    fn, fenv = scope[f.id]
                    return self.inline_call(fn, '%s.%s' % (fr.qual, f.id), node, args, kws, Env(parent=fenv), ctx)
            if env.get(f.id) is None and f.id in self.module.functions and self.inline:
                fi = self.module.functions[f.id]
                return self.inline_call(fi.node, fi.qual, node, args, kws, Env(), ctx)
            if env.get(f.id) is None:
                return self.named_call(node, f.id, args, kws, alld, allv, env, ctx, None)
            # calling a value held in a variable
            out = None
            for L in fav.v:
                if L.startswith('LIBF:'):
                    out = join(out, self.named_call(node, L[5:], args, kws, alld | fav.d, allv, env, ctx, None))
            if out is not None:
                return out
            return AV(fav.d | alld, allv | (fav.v - frozenset(x for x in fav.v if x.startswith('F:'))))
        fav = self.ev(f, env, ctx)
        self.sites.append(Site('call', node, fr.qual, ctx, ctx, val=fav, depth=fr.depth, callee=unparse(f), args=args))
        return AV(fav.d | alld, fav.v | allv)

    def named_call(self, node, name, args, kws, alld, allv, env, ctx, recv):
        if name not in self.source_calls and recv is None and name in getattr(self.module, 'consts', {}):
            # a module-level alias of a source call: _getargspec = getattr(inspect, 'getfullargspec', None) or inspect.getargspec
            for x in ast.walk(self.module.consts[name]):
                nm = x.attr if isinstance(x, ast.Attribute) else x.id if isinstance(x, ast.Name) else \
                    x.value if isinstance(x, ast.Constant) and isinstance(x.value, str) else None
                if nm in self.source_calls:
                    name = nm
                    break
        if name in self.source_calls:
            L = self.source_calls[name]
            self.source_sites.append((node, args, self.stack[-1].qual if self.stack else None))
            return AV(alld | set([L]), [L])
        if name in ('getattr',) and len(args) >= 2 and isinstance(node.args[1], ast.Constant) and isinstance(node.args[1].value, str):
            out = self.field(args[0], node.args[1].value)
            if len(args) > 2:
                out = AV(out.d | args[2].d, out.v | args[2].v)
            return out
        if name == 'dict':
            return self.dict_call(node, args, kws, alld, allv, env, ctx)
        if name == 'zip':
            return AV(alld, allv, (AV(alld, allv, tuple(AV(a.d, a.v) for a in args)),))
        if name == 'enumerate':
            return AV(alld, allv, (AV(alld, allv, (AV(alld, ()), AV(alld, allv))),))
        if name in PURE_VALUE_FUNCS:
            a0 = args[0] if args else EMPTY
            alts = a0.alts if name in ('copy', 'deepcopy', 'OrderedDict', 'odict') else None
            elts = a0.elts if name in ('tuple', 'list', 'copy', 'sorted', 'iter', 'reversed') and a0.elts is not None and len(args) == 1 else None
            const = NOCONST
            if not args and not kws and name in ('dict', 'list', 'tuple', 'set', 'frozenset'):
                const = {'dict': {}, 'list': (), 'tuple': (), 'set': (), 'frozenset': ()}[name]
            return AV(alld, allv, elts, alts, const)
        if name == 'isinstance' and len(node.args) == 2:
            names = [n_.id for n_ in ast.walk(node.args[1]) if isinstance(n_, ast.Name)] + [n_.attr for n_ in ast.walk(node.args[1]) if isinstance(n_, ast.Attribute)]
            return AV(alld | set('TEST:isinstance:' + n_ for n_ in names), ())
        if name in PURE_SCALAR_FUNCS:
            return AV(alld, ())
        if name in PURE_PICK_FUNCS:
            return AV(alld, allv)
        if name in ('TypeError', 'ValueError', 'KeyError', 'AttributeError', 'Exception', 'RuntimeError', 'AssertionError', 'NotImplementedError', 'IndexError'):
            return AV(frozenset(alld) | frozenset(['EXC']), ['EXC'])
        # unknown library call: carries everything it was given; may mutate its (named, mutable) arguments
        for a_node in node.args:
            if isinstance(a_node, ast.Name) and env.get(a_node.id) is not None:
                cur = env.get(a_node.id)
                if cur.alts is not None or cur.elts is None:
                    pass
        base = recv.d if recv is not None else frozenset()
        return AV(alld | base | set(['LIB:' + name]), allv)

    def dict_call(self, node, args, kws, alld, allv, env, ctx):
        alts = frozenset([()])
        d = set(alld)
        v = set()
        if args:
            a0 = args[0]
            an = node.args[0]
            if a0.alts is not None:
                alts = a0.alts
                v |= a0.v
            else:
                vv = a0.v
                # dict(zip(K, V)) / dict((k, v) for ...) / dict([(k, v) ...]) / dict(enumerate(X)): values come from the 2nd position
                if a0.elts is not None and len(a0.elts) == 1 and a0.elts[0].elts is not None and len(a0.elts[0].elts) == 2:
                    vv = a0.elts[0].elts[1].v
                src = None
                if isinstance(an, (ast.GeneratorExp, ast.ListComp)) and isinstance(an.elt, ast.Tuple) and len(an.elt.elts) == 2:
                    src = self.comp_source_layers(an.generators, an.elt.elts[1], None, env)
                if src is not None:
                    alts = src
                elif a0.const is NOCONST or a0.const:
                    alts = frozenset([(Layer(vv, a0.d, node.lineno),)])
                v |= vv
        if kws:
            for name, kv in kws:
                if name is None:
                    alts = cap(frozenset(a + b for a in alts for b in kv.layers_or_self(node.lineno)))
                    if alts is None:
                        alts = frozenset([(Layer(v | kv.v, d, node.lineno),)])
                else:
                    alts = frozenset(a + (Layer(kv.v, kv.d, node.lineno),) for a in alts)
                v |= kv.v
        const = {} if (not args and not kws) else NOCONST
        return AV(d, v, None, alts, const)

    def inline_call(self, fnode, qual, node, args, kws, env, ctx):
        depth = self.stack[-1].depth + 1
        if depth > self.max_depth or any(fr.qual == qual for fr in self.stack):
            alld = frozenset().union(*([a.d for a in args] + [k[1].d for k in kws])) if (args or kws) else frozenset()
            allv = frozenset().union(*([a.v for a in args] + [k[1].v for k in kws])) if (args or kws) else frozenset()
            return AV(alld | ctx, allv)
        a = fnode.args
        pos = [x.arg for x in a.posonlyargs + a.args]
        defaults = dict(zip(pos[len(pos) - len(a.defaults):], a.defaults)) if a.defaults else {}
        for k, dv in zip(a.kwonlyargs, a.kw_defaults):
            if dv is not None:
                defaults[k.arg] = dv
        bound = {}
        extra = []
        star_seen = False
        for i, (an, av) in enumerate(zip(node.args, args)):
            if isinstance(an, ast.Starred):
                star_seen = True
                extra.append(av)
                continue
            if i < len(pos) and not star_seen:
                bound[pos[i]] = av
            else:
                extra.append(av)
        kwextra = []
        for name, kv in kws:
            if name is None:
                kwextra.append(kv)
            elif name in pos or name in [k.arg for k in a.kwonlyargs]:
                bound[name] = kv
            else:
                kwextra.append(kv)
        for p in pos + [k.arg for k in a.kwonlyargs]:
            if p in bound:
                env.set(p, bound[p])
            elif star_seen or kwextra:
                # may be supplied through *args / **kwds of the call
                j = None
                for x in extra + kwextra:
                    j = join(j, AV(x.d, x.v))
                if p in defaults:
                    j = join(j, self.ev(defaults[p], Env(), frozenset()))
                env.set(p, j or EMPTY)
            elif p in defaults:
                env.set(p, self.ev(defaults[p], Env(), frozenset()))
            else:
                env.set(p, EMPTY)
        if a.vararg:
            j = None
            for x in extra:
                # f(*xs) hands xs itself over; f(a, b) builds a tuple
                j = join(j, AV(x.d, x.v))
            env.set(a.vararg.arg, j or AV(const=()))
        if a.kwarg:
            j = None
            for x in kwextra:
                j = join(j, AV(x.d, x.v, None, x.alts))
            env.set(a.kwarg.arg, j or AV(const={}))
        return self.call_body(fnode, qual, env, ctx, depth)
