"""Archive model: storage-primitive events for the archive classes of _archives.py (DESIGN 3.3 table),
interprocedural through self-method inlining, with typed exception edges for the library calls."""
import ast

from .src import AnalysisError, unparse
from .paths import (Model, Engine, R, C, NONE, is_const, render, subterms, contains_term, GENERIC, BASEONLY, RETURN, RAISE, St)
from .wmodel import SELF, libname

STATE = ('attr', SELF, '__state__')

ARCHIVE_CLASSES = ['dict_archive', 'null_archive', 'dir_archive', 'file_archive', 'sqltable_archive[sql]', 'sqltable_archive[!sql]',
                   'sql_archive[sql]', 'hdf_archive[hdf]', 'hdfdir_archive[hdf]']
PERSISTENT = ['dir_archive', 'file_archive', 'sqltable_archive[sql]', 'sqltable_archive[!sql]', 'sql_archive[sql]',
              'hdf_archive[hdf]', 'hdfdir_archive[hdf]']

# frozen primitive table (printed into the evidence): resolved library name -> primitive
PRIMITIVES = {
    'READ': ['open(p,"r"/"rb") + json/dill.load', '_pickle.load(p)', 'exec("from <module> import memo")', 'execute(select ...)',
             'session.query(...).count()', 'h5py.File(p,"r") + item access'],
    'LIST': ['pox.walk(root, patterns=...)', 'inspector.get_table_names()', 'select argstr from ...', 'iteration over an open hdf file'],
    'EXISTS': ['os.path.exists(p)'],
    'WRITE': ['open(p,"w"/"wb") + json/dill.dump / f.write', '_pickle.dump(v,p)', 'execute(insert/update ...)', 'table.insert()/update()',
              'h5py.File(p,"a"/"w") + item assignment'],
    'REMOVE': ['pox.rmtree(p, self=True)', 'os.remove(p)', 'shutil.rmtree(p)', 'execute(delete ... where ...)', 'sql.delete(t).where(...)', 'table.drop(...)',
               'del / pop on an open hdf file'],
    'CLEARALL': ['pox.rmtree(root, self=False)', 'table.delete() without where', '__save__({})'],
    'MKDIR': ['pox.mkdir', 'os.mkdir', 'os.makedirs'], 'RENAME': ['os.rename', 'os.renames', 'os.replace', 'shutil.move'], 'COPY': ['shutil.copy2', 'shutil.copytree', 'shutil.copy', 'shutil.copyfile'],
    'COMMIT': ['self._conn.commit()'],
}

IO_TOKENS = ['OSError']
ENC_TOKENS = ['TypeError', GENERIC]
DICT_READ_METHS = ('__getitem__', 'get', 'keys', 'values', 'items', '__contains__', '__len__', '__iter__', 'copy')


def str_typed(t):
    if is_const(t):
        return isinstance(t[1], str)
    if t[0] == 'bin' and t[1] == '+':
        return str_typed(t[2]) or str_typed(t[3])
    return False


def on_self_store(t):
    """does a path / connection term derive from this archive's own location"""
    return contains_term(t, lambda x: x == ('state', 'id') or x == ('state', 'root') or
                         (x[0] == 'attr' and x[1] == SELF and x[2] in ('_conn', '_engine', '_metadata')))


def sql_kind(term):
    """classify a statement term: select/insert/update/delete/create/drop/other ; (kind, has_where)"""
    for t in subterms(term):
        if is_const(t) and isinstance(t[1], str) and t[1].strip():
            w = t[1].strip().split()[0].lower()
            if w in ('select', 'insert', 'update', 'delete', 'create', 'drop', 'use'):
                return w, ('where' in t[1].lower())
    kind = None
    where = False
    for t in subterms(term):
        if t[0] == 'call':
            f = t[1]
            nm = None
            if f[0] == 'lib':
                nm = f[1].split('.')[-1]
            elif f[0] == 'attr':
                nm = f[2]
            if nm == 'where':
                where = True
            if nm in ('select', 'insert', 'update', 'delete') and kind is None:
                kind = nm
            if nm == 'text':
                pass
    # outermost statement constructor wins: walk again preferring constructors not nested in where()
    return (kind or 'other'), where


class AModel(Model):
    inline_lambdas = True      # callbacks handed to private helpers are expanded where they are called
    def __init__(self, repo, ci, exc=True):
        Model.__init__(self)
        self.repo = repo
        self.ci = ci
        self.module = ci.module
        self.exc = exc
        self.n = 0
        self.base = repo.mod('_abc').classes.get('archive')
        if self.base is None:
            raise AnalysisError('anchor vanished: class archive in klepto/_abc.py')

    def newid(self):
        self.n += 1
        return self.n

    # ---------------------------------------------------------------- names
    def global_name(self, name, st):
        m = self.module
        if name in ('sql', 'hdf', 'pandas') and name in m.consts:
            return ('lib', {'sql': 'sqlalchemy', 'hdf': 'h5py', 'pandas': 'pandas'}[name])
        if name in m.imports:
            return ('lib', m.imports[name])
        if name in m.classes_by_name:
            return ('lib', 'class:%s' % name)
        if name in m.functions:
            return ('lib', 'func:%s' % name)
        if name in m.consts:
            node = m.consts[name]
            if isinstance(node, ast.Constant):
                return C(node.value)
            if isinstance(node, ast.Call) and isinstance(node.func, ast.Name) and node.func.id == 'object' and not node.args:
                return ('sentinel', name)      # a private marker object
            # module-level tables of constants (e.g. SQL statement templates keyed by name)
            if isinstance(node, ast.Dict) and all(isinstance(k, ast.Constant) and isinstance(v, ast.Constant) for k, v in zip(node.keys, node.values)):
                return ('dict', tuple((C(k.value), C(v.value)) for k, v in zip(node.keys, node.values)))
            if isinstance(node, (ast.Tuple, ast.List)) and all(isinstance(e, ast.Constant) for e in node.elts):
                return ('tuple', tuple(C(e.value) for e in node.elts))
        return None

    def find_method(self, name):
        if name in self.ci.methods:
            return self.ci.methods[name], self.ci
        if self.base is not None and name in self.base.methods and 'archive' in self.ci.base_names():
            return self.base.methods[name], self.base
        return None, None

    def find_property(self, name):
        if name in self.ci.properties:
            return self.ci.properties[name]
        if self.base is not None and name in self.base.properties and 'archive' in self.ci.base_names():
            return self.base.properties[name]
        return None

    # ---------------------------------------------------------------- attributes
    def attr_load(self, obj, attr, st, node):
        if obj == SELF:
            if attr == '__state__':
                return [R(st, STATE)]
            if attr == '__class__':
                return [R(st, ('attr', SELF, '__class__'))]
            p = self.find_property(attr)
            if p is not None:
                if p[0] is None:
                    return [R(st, ('attr', SELF, attr))]
                return self.engine.inline(p[0].node, 'prop:' + attr, {}, (), (), st, node, self_val=SELF)
            fi, _ = self.find_method(attr)
            if fi is not None:
                return [R(st, ('method', attr))]
            if attr in ('_conn', '_engine', '_metadata', '_key', '_val', '__module__'):
                return [R(st, ('attr', SELF, attr))]
            # a class-level table of constants read through self (e.g. SQL statement templates keyed by name)
            cv = self.ci.attrs.get(attr)
            if isinstance(cv, ast.Constant):
                return [R(st, C(cv.value))]
            if isinstance(cv, ast.Dict) and cv.keys and all(isinstance(k, ast.Constant) and isinstance(v, ast.Constant) for k, v in zip(cv.keys, cv.values)):
                return [R(st, ('dict', tuple((C(k.value), C(v.value)) for k, v in zip(cv.keys, cv.values))))]
            if isinstance(cv, (ast.Tuple, ast.List)) and cv.elts and all(isinstance(e, ast.Constant) for e in cv.elts):
                return [R(st, ('tuple', tuple(C(e.value) for e in cv.elts)))]
            if hasattr(dict, attr):
                return [R(st, ('dictmeth', attr))]
            return [R(st, ('attr', SELF, attr))]
        if obj[0] == 'lib' and obj[1] == 'dict':
            return [R(st, ('lib', 'dict.' + attr))]
        return None

    def attr_store(self, obj, attr, val, st, node):
        line = getattr(node, 'lineno', 0)
        if obj == SELF:
            p = self.find_property(attr)
            if p is not None and p[1] is not None:
                return self.engine.inline(p[1].node, 'propset:' + attr, {}, (val,), (), st, node, self_val=SELF)
            st.emit('SELFSET', (C(attr), val), line)
            return [R(st, NONE)]
        return None

    # ---------------------------------------------------------------- subscripts
    def sub_load(self, obj, idx, st, node):
        line = getattr(node, 'lineno', 0)
        if obj == STATE and is_const(idx):
            return [R(st, ('state', idx[1]))]
        if obj == SELF:
            fi, _ = self.find_method('__getitem__')
            if fi is not None:
                return self.engine.inline(fi.node, '__getitem__', {}, (idx,), (), st, node, self_val=SELF)
            st.emit('BASE', (C('__getitem__'),), line)
            return [R(st, ('ev', 'base', self.newid()))]
        if self.is_hdf(obj):
            return self.hdf_op(obj, 'get', (idx,), st, line)
        if self.is_unknown_dict(obj):
            outs = [R(st, ('sub', obj, idx))]
            if self.exc:
                outs.append(R(st.fork(), None, 'KeyError', line))
            return outs
        if obj[0] == 'dict':
            return self.literal_dict_op(obj, '__getitem__', (idx,), st, line)
        if obj[0] == 'attr' and obj[1] == SELF and not on_self_store(obj) and not is_const(idx):
            # a container hanging on the instance (a handle-local table): the key may be missing
            outs = [R(st, ('sub', obj, idx))]
            if self.exc:
                outs.append(R(st.fork(), None, 'KeyError', line))
            return outs
        return None

    def sub_store(self, obj, idx, val, st, node):
        line = getattr(node, 'lineno', 0)
        if obj == STATE:
            st.emit('SELFSET', (C('__state__'), idx, val), line)
            return [R(st, NONE)]
        if obj == SELF:
            fi, _ = self.find_method('__setitem__')
            if fi is not None:
                return self.engine.inline(fi.node, '__setitem__', {}, (idx, val), (), st, node, self_val=SELF)
            st.emit('BASE', (C('__setitem__'),), line)
            return [R(st, NONE)]
        if self.is_hdf(obj):
            return self.hdf_op(obj, 'set', (idx, val), st, line)
        if obj[0] == 'inst':
            return self.inst_op(obj, '__setitem__', (idx, val), st, line)
        if obj[0] == 'attr' and obj[1] == SELF and not on_self_store(obj):
            # filling a container that hangs on the instance (self._keys[name] = key) is handle-local state as well
            st.emit('SELFSET', (C(obj[2] + '[...]'), idx, val), line)
            return [R(st, NONE)]
        st.facts.setdefault('notnone', set()).add(obj)
        return None

    def sub_del(self, obj, idx, st, node):
        line = getattr(node, 'lineno', 0)
        if obj == SELF:
            fi, _ = self.find_method('__delitem__')
            if fi is not None:
                return self.engine.inline(fi.node, '__delitem__', {}, (idx,), (), st, node, self_val=SELF)
            st.emit('BASE', (C('__delitem__'),), line)
            return [R(st, NONE)]
        if self.is_hdf(obj):
            return self.hdf_op(obj, 'del', (idx,), st, line)
        if self.is_unknown_dict(obj):
            outs = [R(st, NONE)]
            if self.exc:
                outs.append(R(st.fork(), None, 'KeyError', line))
            return outs
        if obj[0] == 'dict':
            return self.literal_dict_op(obj, '__delitem__', (idx,), st, line)
        return None

    def contains(self, item, container, st, node):
        line = getattr(node, 'lineno', 0)
        if container == SELF:
            fi, _ = self.find_method('__contains__')
            if fi is not None:
                return self.engine.inline(fi.node, '__contains__', {}, (item,), (), st, node, self_val=SELF)
            st.emit('BASE', (C('__contains__'),), line)
            return [R(st, ('ev', 'base', self.newid()))]
        if self.is_hdf(container):
            return self.hdf_op(container, 'has', (item,), st, line)
        return None

    def iterate(self, itval, st, node):
        if self.is_hdf(itval) or contains_term(itval, lambda t: t[0] == 'hdfview'):
            st.emit('LIST', (self.hdf_path(itval),), getattr(node, 'lineno', 0), extra={'via': 'hdf iteration'})
        return None

    def with_exit(self, val, st, node):
        # leaving `with open(p, mode) as f:` closes (and flushes) the file
        for t in subterms(val):
            if t[0] == 'fh':
                st.emit('FCLOSE', (t[1], C(t[2])), getattr(node, 'lineno', 0))
                return

    # ---------------------------------------------------------------- value classes
    def is_hdf(self, v):
        if v[0] == 'phi':
            return any(self.is_hdf(x) for x in v[1])
        return contains_term(v, lambda t: t[0] == 'hdf') and v[0] in ('hdf', 'attr', 'ctx') and not (v[0] == 'attr' and v[2] not in ('attrs',))

    def hdf_path(self, v):
        for t in subterms(v):
            if t[0] == 'hdf':
                return t[1]
        return ('opaque', 'nopath')

    def hdf_mode(self, v):
        for t in subterms(v):
            if t[0] == 'hdf':
                return t[2]
        return None

    def is_unknown_dict(self, v):
        """a dict whose contents come from storage / a caller / were mutated: lookups may fail"""
        if v[0] in ('mut',):
            return True
        if v[0] == 'ev' and v[1] in ('read', 'base'):
            return True
        if v[0] == 'call' and v[1][0] in ('method',) and v[1][1] in ('__asdict__', '_keydict'):
            return True
        return False

    def literal_dict_op(self, d, m, args, st, line):
        keys = [k for k, v in d[1] if k is not None]
        has_star = any(k is None for k, v in d[1])
        if m == 'popitem':
            if d[1]:
                return [R(st, ('tuple', (d[1][0][0], d[1][0][1])))]
            return [R(st, None, 'KeyError', line)]
        k = args[0] if args else None
        present = k in keys
        if present:
            val = [v for kk, v in d[1] if kk == k][0]
            return [R(st, val if m in ('pop', '__getitem__', 'get') else NONE)]
        if has_star:
            return [R(st, ('sub', d, k)), R(st.fork(), None, 'KeyError', line)]
        # definitely absent
        if m in ('pop', 'get') and len(args) >= 2:
            dflt = args[1]
            if dflt[0] == 'star':
                # *value: default present or not is unknown
                return [R(st, ('sub', dflt[1], C(0))), R(st.fork(), None, 'KeyError', line)] if m == 'pop' else [R(st, ('sub', dflt[1], C(0)))]
            return [R(st, dflt)]
        if m == 'get':
            return [R(st, NONE)]
        return [R(st, None, 'KeyError', line)]

    # ---------------------------------------------------------------- primitives
    def prim(self, st, kind, args, line, tokens=(), val=None, extra=None):
        """emit a primitive event; returns list of R (normal + one per exception token)"""
        outs = []
        if self.exc:
            for tok in tokens:
                s2 = st.fork()
                s2.emit(kind + '!', tuple(args) + (C(tok),), line, extra=extra)
                outs.append(R(s2, None, tok, line))
        st.emit(kind, tuple(args), line, val=val, extra=extra)
        outs.append(R(st, val if val is not None else NONE))
        return outs

    def hdf_op(self, h, op, args, st, line):
        path = self.hdf_path(h)
        if op in ('get', 'has', 'len', 'items'):
            v = ('ev', 'read', self.newid())
            return self.prim(st, 'READ', (path,), line, ['KeyError', GENERIC] if op == 'get' else [GENERIC], val=v, extra={'via': 'hdf ' + op})
        if op == 'set':
            return self.prim(st, 'WRITE', (path, args[1] if len(args) > 1 else NONE), line, ENC_TOKENS, extra={'via': 'hdf item assignment', 'mode': self.hdf_mode(h)})
        if op in ('del', 'pop', 'popitem'):
            toks = ['KeyError', GENERIC]
            if op == 'pop' and len(args) >= 2 and args[1][0] != 'star':
                toks = [GENERIC]
            v = ('ev', 'read', self.newid())
            return self.prim(st, 'REMOVE', (path,) + tuple(args[:1]), line, toks, val=v, extra={'via': 'hdf ' + op, 'entry': True})
        return [R(st, ('ev', 'hdfop', self.newid()))]

    def inst_op(self, inst, m, args, st, line):
        """operation on a locally constructed archive object (delegate) -> effect on the path it was built on"""
        path = inst[2]
        if m in ('__setitem__', 'update', 'setdefault'):
            return self.prim(st, 'WRITE', (path,) + tuple(args[1:2]), line, ENC_TOKENS + IO_TOKENS, extra={'via': 'delegate %s.%s' % (inst[1], m)})
        if m in ('__asdict__', '__getitem__', 'get', 'values', 'items', 'keys', '__len__', '__contains__'):
            v = ('ev', 'read', self.newid())
            return self.prim(st, 'READ', (path,), line, [GENERIC], val=v, extra={'via': 'delegate %s.%s' % (inst[1], m)})
        if m in ('pop', '__delitem__', 'popitem', 'clear', 'popkeys'):
            return self.prim(st, 'REMOVE', (path,), line, [GENERIC], extra={'via': 'delegate %s.%s' % (inst[1], m)})
        return [R(st, ('call', ('attr', inst, m), tuple(args), ()))]

    def mode_of(self, args, kws, pos=1, default='r'):
        m = None
        if len(args) > pos:
            m = args[pos]
        for k in kws:
            if k[0] == 'kw' and k[1] == 'mode':
                m = k[2]
        if m is None:
            return default
        if is_const(m) and isinstance(m[1], str):
            return m[1]
        return None

    def kwval(self, kws, name):
        for k in kws:
            if k[0] == 'kw' and k[1] == name:
                return k[2]
        return None

    def call(self, f, args, kws, st, node):
        line = getattr(node, 'lineno', 0)
        # self.__state__.get('<key>', <constant>) for a key the constructor's state literal does not list: a setting that exists only on archives
        # built with an opt-in option (readonly=True) - every archive an existing caller builds answers with the default
        if f[0] == 'attr' and f[1] == STATE and f[2] == 'get' and len(args) == 2 and not kws and is_const(args[0]) and is_const(args[1]):
            if args[0][1] not in self._state_literal_keys():
                return [R(st, args[1])]
        if f[0] == 'attr' and f[1][0] not in ('lib', 'self'):
            st.facts.setdefault('notnone', set()).add(f[1])     # a method was looked up on it
        # ---- methods of self
        if f[0] == 'method':
            fi, owner = self.find_method(f[1])
            return self.engine.inline(fi.node, f[1], {}, args, kws, st, node, self_val=SELF)
        if f[0] == 'dictmeth':
            st.emit('BASE', (C(f[1]),) + tuple(args), line)
            return [R(st, ('ev', 'base', self.newid()))]
        if f[0] == 'lib' and f[1].startswith('dict.') and args and args[0] == SELF:
            m = f[1][5:]
            if m not in ('__init__',):
                st.emit('BASE', (C(m),) + tuple(args[1:]), line)
                return [R(st, ('ev', 'base', self.newid()))]
            st.emit('BASEINIT', tuple(args[1:]) + tuple(kws), line)
            return [R(st, NONE)]
        if f[0] == 'lib' and f[1] == 'dict.fromkeys':
            return [R(st, ('mut', ('dict', ()), self.newid()))]
        ln = libname(f)
        full = f[1] if f[0] == 'lib' else ''
        # ---- views and builtins that call back into self
        if f[0] == 'lib' and args and args[0] == SELF:
            cb = {'collections.abc.KeysView': ['__iter__'], 'collections.abc.ItemsView': ['__iter__', '__getitem__'],
                  'collections.abc.ValuesView': ['__iter__', '__getitem__'], 'len': ['__len__'], 'iter': ['__iter__'],
                  'list': ['__iter__'], 'tuple': ['__iter__'], 'set': ['__iter__'], 'sorted': ['__iter__'],
                  'dict': ['keys', '__getitem__']}.get(full)
            if cb:
                results = [R(st, None)]
                for mname in cb:
                    nxt = []
                    fi, _ = self.find_method(mname)
                    for r in results:
                        if r.exc is not None:
                            nxt.append(r)
                            continue
                        if fi is None:
                            r.st.emit('BASE', (C(mname),), line)
                            nxt.append(r)
                            continue
                        a = (('iter', ('call', ('method', '__iter__'), (), ()), 'view'),) if mname == '__getitem__' else ()
                        for r2 in self.engine.inline(fi.node, mname, {}, a, (), r.st, node, self_val=SELF):
                            nxt.append(r2)
                    results = nxt
                out = []
                for r in results:
                    if r.exc is not None:
                        out.append(r)
                    else:
                        out.append(R(r.st, ('call', f, args, kws)))
                return out
        # ---- file system
        if full == 'open':
            mode = self.mode_of(args, kws)
            p = args[0] if args else ('opaque', 'nopath')
            h = ('fh', p, mode, self.newid())
            kind = 'OPENR' if (mode or 'r').startswith('r') else 'OPENW'
            return self.prim(st, kind, (p, C(mode)), line, IO_TOKENS, val=h)
        if f[0] == 'attr' and f[2] in ('write', 'writelines') and contains_term(f[1], lambda t: t[0] == 'fh'):
            fh = [t for t in subterms(f[1]) if t[0] == 'fh'][0]
            return self.prim(st, 'WRITE', (fh[1],) + tuple(args[:1]), line, IO_TOKENS, extra={'via': 'file.write'})
        if f[0] == 'attr' and f[2] in ('read', 'readlines') and contains_term(f[1], lambda t: t[0] == 'fh'):
            fh = [t for t in subterms(f[1]) if t[0] == 'fh'][0]
            return self.prim(st, 'READ', (fh[1],), line, IO_TOKENS, val=('ev', 'read', self.newid()))
        if f[0] == 'lib' and ln in ('load', 'loads') and full.split('.')[0] in ('json', 'dill', 'pickle', '', '_pickle') or full in ('._pickle.load',):
            src = args[0] if args else ('opaque', 'nosrc')
            fhs = [t for t in subterms(src) if t[0] == 'fh']
            p = fhs[0][1] if fhs else src
            if ln == 'loads':
                return None
            return self.prim(st, 'READ', (p,), line, IO_TOKENS + [GENERIC], val=('ev', 'read', self.newid()), extra={'via': full})
        if f[0] == 'lib' and ln == 'dump' and (full.split('.')[0] in ('json', 'dill', 'pickle', '_pickle') or full == '._pickle.dump'):
            dst = args[1] if len(args) > 1 else ('opaque', 'nodst')
            fhs = [t for t in subterms(dst) if t[0] == 'fh']
            p = fhs[0][1] if fhs else dst
            return self.prim(st, 'WRITE', (p, args[0] if args else NONE), line, ENC_TOKENS + IO_TOKENS, extra={'via': full})
        # a serializer object kept on the instance or chosen at run time (self._pik.dump(memo, f)): anything.dump(obj, <open file handle>) writes the encoding of obj
        if f[0] == 'attr' and f[2] == 'dump' and len(args) >= 2 and contains_term(args[1], lambda t: t[0] == 'fh'):
            fhs = [t for t in subterms(args[1]) if t[0] == 'fh']
            return self.prim(st, 'WRITE', (fhs[0][1], args[0]), line, ENC_TOKENS + IO_TOKENS, extra={'via': 'serializer.dump'})
        if f[0] == 'attr' and f[2] == 'load' and len(args) >= 1 and contains_term(args[0], lambda t: t[0] == 'fh'):
            fhs = [t for t in subterms(args[0]) if t[0] == 'fh']
            return self.prim(st, 'READ', (fhs[0][1],), line, IO_TOKENS + [GENERIC], val=('ev', 'read', self.newid()), extra={'via': 'serializer.load'})
        if full in ('dill.source.getimportable',):
            return self.prim(st, 'ENCODE', tuple(args[:1]), line, ['AttributeError'] + ENC_TOKENS, val=('call', f, args, kws))
        if full == 'exec':
            src = args[0] if args else NONE
            if contains_term(src, lambda t: is_const(t) and isinstance(t[1], str) and 'import' in t[1]):
                return self.prim(st, 'READ', (('opaque', 'import'), src), line, [GENERIC], val=NONE, extra={'via': 'exec(import)'})
            return None
        if full == 'os.path.exists':
            v = ('ev', 'exists', self.newid())
            st.emit('EXISTS', tuple(args[:1]), line, val=v)
            st.facts.setdefault('existsof', {})[v] = args[0] if args else None
            return [R(st, v)]
        if full in ('os.path.isdir', 'os.path.isfile', 'os.path.lexists') and args:
            # "is there (a directory / a file) at p": the same question as exists for the rules that ask whether absence was established
            p_ = args[0]
            if p_[0] == 'call' and p_[1] == ('lib', 'os.path.join') and len(p_[2]) == 2 and p_[2][1] == C(''):
                p_ = p_[2][0]          # join(p, '') is p (resolving a link at p)
            v = ('ev', 'exists', self.newid())
            st.emit('EXISTS', (p_,), line, val=v)
            st.facts.setdefault('existsof', {})[v] = p_
            return [R(st, v)]
        if full in ('os.listdir', 'os.scandir') and args:
            # every name in the directory (no pattern): a listing of the store when the directory is the archive root.  fnmatch on an element narrows it
            v = ('ev', 'list', self.newid())
            st.emit('LIST', (args[0],), line, val=v, extra={'via': full})
            return [R(st, v)]
        if full in ('fnmatch.fnmatch', 'fnmatch.fnmatchcase') and len(args) == 2:
            # for entry in os.scandir(root): if fnmatch(entry.name, pattern): ...   is the listing of root by that pattern
            ids = [t[1] for t in subterms(args[0]) if t[0] == 'iter' and isinstance(t[1], tuple) and t[1][:2] == ('ev', 'list')]
            if ids:
                evs = list(st.events)
                for i_, e_ in enumerate(evs):
                    if e_.kind == 'LIST' and e_.val == ids[0] and len(e_.args) == 1:
                        evs[i_] = type(e_)(e_.kind, e_.args + (args[1],), e_.line, e_.loop, e_.val, e_.depth, dict(e_.extra or {}, via='scandir+fnmatch'))
                st.events = tuple(evs)
            return None
        if full in ('os.remove', 'os.unlink'):
            return self.prim(st, 'UNLINK', tuple(args[:1]), line, IO_TOKENS)
        if full in ('os.rename', 'os.renames', 'os.replace', 'shutil.move'):
            return self.prim(st, 'RENAME', tuple(args[:2]) + (C(full),), line, IO_TOKENS)
        if full in ('shutil.copy2', 'shutil.copytree', 'shutil.copy', 'shutil.copyfile'):
            return self.prim(st, 'COPY', tuple(args[:2]) + (C(full),), line, IO_TOKENS)
        if full == 'shutil.rmtree':
            ig = self.kwval(kws, 'ignore_errors')
            return self.prim(st, 'RMTREE', tuple(args[:1]) + (C(True),), line, [] if ig == C(True) else IO_TOKENS)
        if full == 'pox.rmtree':
            ig = self.kwval(kws, 'ignore_errors')
            sf = self.kwval(kws, 'self')
            selfflag = C(True) if sf is None else sf
            return self.prim(st, 'RMTREE', tuple(args[:1]) + (selfflag,), line, [] if ig == C(True) else IO_TOKENS)
        if full == 'pox.mkdir':
            root = self.kwval(kws, 'root')
            name = args[0] if args else ('opaque', 'noname')
            p = ('call', ('lib', 'os.path.join'), (root, name), ()) if root is not None else name
            # pox.mkdir returns the absolute path of what it created
            rv = p if root is not None else ('call', ('lib', 'os.path.abspath'), (p,), ())
            return self.prim(st, 'MKDIR', (p,), line, IO_TOKENS, val=rv)
        if full in ('tempfile.mkdtemp', 'tempfile.mkstemp'):
            d_ = self.kwval(kws, 'dir')
            pre_ = self.kwval(kws, 'prefix') or C('tmp')
            fresh_ = ('bin', '+', pre_, ('call', ('lib', 'tempfile.random'), (), ()))
            p_ = ('call', ('lib', 'os.path.join'), (d_, fresh_), ()) if d_ is not None and d_ != NONE else \
                ('call', ('lib', 'os.path.join'), (('call', ('lib', 'tempfile.gettempdir'), (), ()), fresh_), ())
            return self.prim(st, 'MKDIR' if full.endswith('mkdtemp') else 'OPENW', (p_,) if full.endswith('mkdtemp') else (p_, C('wb')), line, IO_TOKENS, val=p_)
        if full in ('os.mkdir', 'os.makedirs') and args:
            return self.prim(st, 'MKDIR', (args[0],), line, IO_TOKENS, val=NONE)
        if full in ('os.rmdir', 'os.removedirs') and args:
            return self.prim(st, 'RMTREE', (args[0], C(True)), line, IO_TOKENS)
        if full in ('glob.glob', 'glob.iglob') and args:
            # glob(os.path.join(root, pattern)): a listing of root by pattern (the root itself is part of the glob expression: see A-GLOBROOT)
            a0 = args[0]
            root, pat = a0, None
            if a0[0] == 'call' and a0[1] == ('lib', 'os.path.join') and len(a0[2]) >= 2:
                root, pat = a0[2][0], a0[2][-1]
            v = ('ev', 'list', self.newid())
            st.emit('LIST', (root,) + ((pat,) if pat is not None else ()), line, val=v, extra={'via': 'glob'})
            return [R(st, v)]
        if full == 'pox.walk':
            pat = self.kwval(kws, 'patterns')
            v = ('ev', 'list', self.newid())
            st.emit('LIST', tuple(args[:1]) + ((pat,) if pat is not None else ()), line, val=v)
            return [R(st, v)]
        if full in ('os.chdir',):
            st.emit('CHDIR', tuple(args[:1]), line)
            return [R(st, NONE)]
        # ---- sqlite / sqlalchemy
        if f[0] == 'attr' and f[2] in ('execute', 'executescript', 'executemany') and on_self_store(f[1]):
            stmt = args[0] if args else NONE
            kind, where = sql_kind(stmt)
            v = ('ev', 'sqlres', self.newid()) if kind != 'select' else ('ev', 'read', self.newid())
            return self.prim(st, 'SQL', (C(kind), C(where), f[1]), line, [GENERIC], val=v)
        if f[0] == 'attr' and f[2] == 'rollback' and on_self_store(f[1]):
            st.emit('ROLLBACK', (f[1],), line)
            return [R(st, NONE)]
        if f[0] == 'attr' and f[2] == 'commit' and on_self_store(f[1]):
            st.emit('COMMIT', (f[1],), line)
            return [R(st, NONE)]
        if f[0] == 'attr' and f[2] == 'get_table_names':
            v = ('ev', 'list', self.newid())
            st.emit('LIST', (('attr', SELF, '_engine'),), line, val=v)
            return [R(st, v)]
        if f[0] == 'attr' and f[2] == 'count' and contains_term(f[1], lambda t: t == ('attr', SELF, '_engine')):
            v = ('ev', 'read', self.newid())
            return self.prim(st, 'SQL', (C('select'), C(False), ('attr', SELF, '_engine')), line, [GENERIC], val=v)
        if f[0] == 'attr' and f[2] == 'drop' and args and on_self_store(args[0]):
            return self.prim(st, 'SQL', (C('drop'), C(False), args[0]), line, [GENERIC])
        if f[0] == 'attr' and f[2] == 'create_all' and args and on_self_store(args[0]):
            return self.prim(st, 'SQL', (C('create'), C(False), args[0]), line, [GENERIC])
        if full in ('sqlite3.connect',) or (f[0] == 'attr' and f[2] == 'connect' and contains_term(f[1], lambda t: t[0] == 'lib' and 'sqlite3' in t[1])):
            st.emit('CONNECT', tuple(args[:1]), line)
            return [R(st, ('call', f, args, kws))]
        # ---- hdf5
        if full == 'h5py.File':
            mode = self.mode_of(args, kws)
            p = args[0] if args else ('opaque', 'nopath')
            h = ('hdf', p, mode, self.newid())
            kind = 'OPENR' if (mode or 'r').startswith('r') else 'OPENW'
            return self.prim(st, kind, (p, C(mode)), line, IO_TOKENS, val=h)
        if f[0] == 'attr' and self.is_hdf(f[1]):
            m = f[2]
            if m in ('pop', 'popitem', '__delitem__'):
                return self.hdf_op(f[1], {'__delitem__': 'del'}.get(m, m), args, st, line)
            if m in ('items', 'keys', 'values'):
                v = ('hdfview', f[1], m)
                return [R(st, v)]
            if m in ('__getitem__', 'get'):
                return self.hdf_op(f[1], 'get', args, st, line)
            if m == '__setitem__':
                return self.hdf_op(f[1], 'set', args, st, line)
            if m == 'update':
                return self.hdf_op(f[1], 'set', (NONE,) + tuple(args), st, line)
            if m == 'close':
                st.emit('CLOSE', (self.hdf_path(f[1]),), line)
                return [R(st, NONE)]
            return None
        if full == 'len' and args and self.is_hdf(args[0]):
            return self.hdf_op(args[0], 'len', (), st, line)
        # ---- construction of another archive object
        if f[0] == 'lib' and full.startswith('class:') and full[6:].endswith('_archive'):
            cls = full[6:]
            p = args[0] if args else (self.kwval(kws, 'filename') or self.kwval(kws, 'dirname') or self.kwval(kws, 'database') or ('opaque', 'default'))
            inst = ('inst', cls, p, self.newid())
            st.emit('CONSTRUCT', (C(cls), p) + tuple(kws), line, val=inst)
            return [R(st, inst)]
        if f[0] == 'attr' and f[1][0] == 'inst':
            return self.inst_op(f[1], f[2], args, st, line)
        if f[0] == 'attr' and f[1][0] == 'call' and f[1][1][0] == 'attr' and f[1][1][1][0] == 'inst':
            # e.g. inst.__asdict__().values()
            return None
        # ---- local dict semantics (for KeyError reachability)
        if f[0] == 'attr' and f[2] in ('__delitem__', 'pop', 'popitem', '__getitem__'):
            d = f[1]
            if d[0] == 'dict':
                return self.literal_dict_op(d, f[2], args, st, line)
            if self.is_unknown_dict(d):
                outs = [R(st, ('call', f, args, kws))]
                tolerant = f[2] == 'pop' and len(args) >= 2 and args[1][0] != 'star'
                if self.exc and not tolerant:
                    outs.append(R(st.fork(), None, 'KeyError', line))
                return outs
        if f[0] == 'attr' and f[2] in ('startswith', 'endswith') and args and args[0] in (('lib', 'pickle.PROTO'), ('lib', 'pickle.STOP')) \
                and str_typed(f[1]):
            # str.startswith(bytes) raises TypeError: a text key is never taken for a pickle
            return [R(st, None, 'TypeError', line)]
        if full == 'hasattr' and len(args) == 2 and args[0][0] in ('dict',) and is_const(args[1]):
            return [R(st, C(hasattr(dict, args[1][1])))]
        if f[0] == 'attr' and f[2] == 'copy' and not args and f[1][0] == 'dict':
            return [R(st, f[1])]
        if full == 'dict' and len(args) == 1 and not kws and args[0][0] == 'dict':
            return [R(st, args[0])]
        if full == 'dict' and len(args) <= 1 and all(a[0] == 'dict' for a in args) and kws and all(k[0] == 'dstar' and k[1][0] == 'dict' for k in kws):
            # dict(adict, **kwds) of literal dicts is the merged literal
            items = list(args[0][1]) if args else []
            for k in kws:
                items.extend(k[1][1])
            return [R(st, ('dict', tuple(items)))]
        if full == 'next' and args:
            outs = [R(st, ('call', f, args, kws))]
            if self.exc and len(args) == 1:
                outs.append(R(st.fork(), None, 'StopIteration', line))
            return outs
        # ---- a helper function imported from a sibling module of the package (self-contained: it refers to nothing but its parameters)
        if f[0] == 'lib' and any(a == SELF for a in args):
            parts = f[1].lstrip('.').split('.')
            if len(parts) >= 2 and parts[-2] in self.repo.modules and parts[-2] != self.module.rel.split('/')[-1][:-3]:
                om = self.repo.modules[parts[-2]]
                ofi = om.functions.get(parts[-1])
                if ofi is not None:
                    import builtins as _b
                    bound = set(x.arg for x in ofi.node.args.args + ofi.node.args.kwonlyargs)
                    if ofi.node.args.vararg:
                        bound.add(ofi.node.args.vararg.arg)
                    if ofi.node.args.kwarg:
                        bound.add(ofi.node.args.kwarg.arg)
                    for n_ in ast.walk(ofi.node):
                        if isinstance(n_, ast.Name) and isinstance(n_.ctx, ast.Store):
                            bound.add(n_.id)
                    free = [n_.id for n_ in ast.walk(ofi.node) if isinstance(n_, ast.Name) and isinstance(n_.ctx, ast.Load)
                            and n_.id not in bound and not hasattr(_b, n_.id)]
                    if not free:
                        return self.engine.inline(ofi.node, parts[-1], {}, args, kws, st, node)
        # ---- module-level helper functions of _archives.py taking self
        if f[0] == 'lib' and full.startswith('func:'):
            fi = self.module.functions.get(full[5:])
            if fi is not None and (any(a == SELF for a in args) or full[5:] not in ('_to_frame', '_from_frame')):
                summ = self.storage_helper_summary(fi.node, args, kws, st, line)
                if summ is not None:
                    return summ
                # helper functions of the module are part of the code under analysis (e.g. a shared serializer/mode selector)
                return self.engine.inline(fi.node, full[5:], {}, args, kws, st, node)
        return None

    def _state_literal_keys(self):
        ks = getattr(self, '_slk', None)
        if ks is None:
            ks = set()
            fi, _ = self.find_method('__init__')
            if fi is not None:
                for x in ast.walk(fi.node):
                    if isinstance(x, ast.Assign) and any(isinstance(t, ast.Attribute) and t.attr == '__state__' for t in x.targets) and isinstance(x.value, ast.Dict):
                        ks |= set(k.value for k in x.value.keys if isinstance(k, ast.Constant))
                    if isinstance(x, ast.Assign):
                        for t in x.targets:
                            if isinstance(t, ast.Subscript) and isinstance(t.value, ast.Attribute) and t.value.attr == '__state__' and isinstance(t.slice, ast.Constant):
                                # set unconditionally at the top level of __init__?  (a store under `if <option>:` is the opt-in case)
                                if x in fi.node.body:
                                    ks.add(t.slice.value)
            self._slk = ks
        return ks

    def storage_helper_summary(self, fn, args, kws, st, line):
        """A module-level helper that wraps one storage primitive the way the pox functions do is that primitive (wrappers are recognised by what all their
        paths do, not by name):
          lister   - enumerates its first parameter with os.scandir / os.listdir and keeps the names that fnmatch its second parameter  -> LIST(root, pattern)
          remover  - shutil.rmtree of its first parameter, or (flag parameter `self` false) of every directory listed in it             -> RMTREE(path, self)
          maker    - os.makedirs / os.mkdir of join(<root parameter or cwd>, first parameter), returning the path                         -> MKDIR(join(root, path))
        Anything else is inlined as written."""
        a = fn.args
        pnames = [x.arg for x in a.posonlyargs + a.args]
        if not pnames or a.vararg or a.kwarg:
            return None
        calls = {}
        for x in ast.walk(fn):
            if isinstance(x, ast.Call):
                nm = x.func.attr if isinstance(x.func, ast.Attribute) else x.func.id if isinstance(x.func, ast.Name) else None
                calls.setdefault(nm, []).append(x)
        if any(isinstance(x, (ast.FunctionDef, ast.Lambda, ast.ClassDef)) for x in ast.walk(fn) if x is not fn):
            return None
        # bind the call's arguments to parameter names (defaults as written)
        bound = {}
        dflt = dict(zip(pnames[len(pnames) - len(a.defaults):], a.defaults))
        for i, v in enumerate(args):
            if v[0] == 'star' or i >= len(pnames):
                return None
            bound[pnames[i]] = v
        for k in kws:
            if k[0] != 'kw' or k[1] not in pnames:
                return None
            bound[k[1]] = k[2]
        for pn in pnames:
            if pn not in bound:
                dv = dflt.get(pn)
                if not isinstance(dv, ast.Constant):
                    return None
                bound[pn] = C(dv.value)
        first = pnames[0]

        def names_in(x):
            return set(y.id for y in ast.walk(x) if isinstance(y, ast.Name))
        writers = set(calls) & set(['rmtree', 'remove', 'unlink', 'rmdir', 'makedirs', 'mkdir', 'rename', 'replace', 'renames', 'open', 'copytree', 'move'])
        # ---- lister
        listing = calls.get('scandir', []) + calls.get('listdir', [])
        if listing and not writers and len(pnames) >= 2 and all(c.args and names_in(c.args[0]) == set([first]) and isinstance(c.args[0], ast.Name) for c in listing):
            fm = calls.get('fnmatch', []) + calls.get('fnmatchcase', [])
            if fm and all(len(c.args) == 2 and isinstance(c.args[1], ast.Name) and c.args[1].id == pnames[1] for c in fm):
                v = ('ev', 'list', self.newid())
                st.emit('LIST', (bound[first], bound[pnames[1]]), line, val=v, extra={'via': 'helper:%s' % fn.name})
                return [R(st, v)]
        # ---- remover
        if 'rmtree' in calls and not (writers - set(['rmtree'])) and all(c.args and first in names_in(c.args[0]) | self._derived_names(fn, first) for c in calls['rmtree']):
            flag = bound.get('self', C(True)) if 'self' in pnames else C(True)
            ig = all(any(k.arg == 'ignore_errors' and isinstance(k.value, ast.Constant) and k.value.value is True for k in c.keywords) for c in calls['rmtree'])
            return self.prim(st, 'RMTREE', (bound[first], flag), line, [] if ig else IO_TOKENS)
        # ---- maker
        mk = calls.get('makedirs', []) + calls.get('mkdir', [])
        if mk and not (writers - set(['makedirs', 'mkdir'])) and not listing and not any(isinstance(x, ast.Try) for x in ast.walk(fn)):
            # (a maker that handles the failure itself - try: mkdir ... except OSError: return abspath - is inlined as written)
            rets = [x for x in ast.walk(fn) if isinstance(x, ast.Return) and x.value is not None]
            root = bound.get('root') if 'root' in pnames else None
            p_ = ('call', ('lib', 'os.path.join'), (root, bound[first]), ()) if root is not None and root != NONE else bound[first]
            absolute = bool(calls.get('abspath') or calls.get('realpath'))
            parents = bool(calls.get('makedirs'))
            rv = NONE
            if rets:
                rv = p_ if (root is not None and root != NONE) or not absolute else ('call', ('lib', 'os.path.abspath'), (p_,), ())
                if not absolute and (root is None or root == NONE):
                    rv = p_
            return self.prim(st, 'MKDIR', (p_,), line, IO_TOKENS, val=rv, extra={'via': 'helper:%s' % fn.name, 'parents': parents})
        return None

    @staticmethod
    def _derived_names(fn, first):
        """names assigned (directly or through a loop over a listing) from expressions that mention `first`"""
        out = set([first])
        changed = True
        while changed:
            changed = False
            for x in ast.walk(fn):
                tgt, srcs = None, None
                if isinstance(x, ast.Assign) and len(x.targets) == 1 and isinstance(x.targets[0], ast.Name):
                    tgt, srcs = x.targets[0].id, x.value
                elif isinstance(x, ast.For) and isinstance(x.target, ast.Name):
                    tgt, srcs = x.target.id, x.iter
                if tgt and tgt not in out and any(isinstance(y, ast.Name) and y.id in out for y in ast.walk(srcs)):
                    out.add(tgt)
                    changed = True
        return out

    def truth(self, val, st, node):
        # `memo == None` on something that is certainly a dict
        if val[0] == 'cmp' and val[1] in ('==', 'is') and val[3] == NONE and (self.surely_dict(val[2]) or val[2] in st.facts.get('notnone', ())):
            return [(st, False)]
        # identity against a private sentinel (`_NOTFOUND = object()`): the sentinel is itself; nothing read from the store can be it
        if val[0] == 'cmp' and val[1] in ('is', 'is not') and (val[2][0] == 'sentinel' or val[3][0] == 'sentinel'):
            a, b = (val[2], val[3]) if val[3][0] == 'sentinel' else (val[3], val[2])
            same = None
            if a == b:
                same = True
            elif a[0] == 'sentinel' or is_const(a) or contains_term(a, lambda t: t[0] == 'ev' and t[1] in ('read', 'sqlres', 'list')):
                same = False
            if same is not None:
                return [(st, same if val[1] == 'is' else (not same))]
        return None

    def surely_dict(self, v):
        if v[0] in ('dict', 'mut'):
            return True
        if v[0] == 'ev' and v[1] == 'read':
            return True
        if v[0] == 'phi':
            return all(self.surely_dict(x) for x in v[1])
        return False


def run_method(repo, ci, name, unroll=1, exc=True, max_depth=7, params=None, facts=None, comp_unroll=1):
    model = AModel(repo, ci, exc=exc)
    fi, owner = model.find_method(name)
    if fi is None:
        return None, None, None
    eng = Engine(model, unroll=unroll, comp_unroll=comp_unroll, max_depth=max_depth, max_paths=400000)
    eng.collapse_pure = True
    a = fi.node.args
    p = {a.args[0].arg: SELF}
    p.update(params or {})
    st = St(env={}, facts=dict(facts or {}), frames=(name,))
    eng._bind_params_symbolic(fi.node, st, p)
    outs = eng.exec_block(fi.node.body, st)
    res = []
    from .paths import Out, NEXT
    for o in outs:
        if o.kind == NEXT:
            res.append(Out(RETURN, o.st, NONE, line=getattr(fi.node, 'end_lineno', 0)))
        elif o.kind in (RETURN, RAISE):
            res.append(o)
    return fi, res, eng


def archive_classes(repo, labels=None):
    m = repo.mod('_archives')
    out = []
    for lab in (labels or ARCHIVE_CLASSES):
        ci = m.classes.get(lab)
        if ci is None:
            raise AnalysisError('anchor vanished: class %s in klepto/_archives.py' % lab)
        out.append(ci)
    return out
