"""Source model: parse /repo/klepto/*.py with ast, index classes / functions / conditional arms.

Nothing from klepto is imported or executed.  Every check re-reads the working tree.
"""
import ast
import hashlib
import os

REPO = os.environ.get('KV_REPO', '/repo')
PKG = 'klepto'


class AnalysisError(Exception):
    """The analyser cannot recognise the code it is supposed to judge (exit 2)."""


class FuncInfo(object):
    __slots__ = ('node', 'module', 'qual', 'cls', 'parent', 'guard')

    def __init__(self, node, module, qual, cls=None, parent=None, guard=''):
        self.node = node
        self.module = module
        self.qual = qual
        self.cls = cls
        self.parent = parent
        self.guard = guard

    @property
    def name(self):
        return self.node.name

    @property
    def where(self):
        return '%s:%d' % (self.module.rel, self.node.lineno)

    def __repr__(self):
        return '<func %s>' % self.qual


class ClassInfo(object):
    def __init__(self, node, module, guard=''):
        self.node = node
        self.module = module
        self.guard = guard            # e.g. 'sql', '!sql', 'hdf', '!hdf', ''
        self.name = node.name
        self.label = node.name + ('[%s]' % guard if guard else '')
        self.qual = '%s::%s' % (module.rel, self.label)
        self.methods = {}             # name -> FuncInfo
        self.attrs = {}               # class-level simple assignments name -> ast expr
        self.properties = {}          # name -> (getter FuncInfo|None, setter FuncInfo|None)
        self.bases = [b for b in node.bases]
        deco_props = {}
        for st in node.body:
            if isinstance(st, (ast.FunctionDef,)):
                fi = FuncInfo(st, module, '%s.%s' % (self.qual, st.name), cls=self, guard=guard)
                # @property / @name.setter: the decorator spelling of name = property(getter, setter) - both functions carry the property's name
                kind = None
                for dec in st.decorator_list:
                    if isinstance(dec, ast.Name) and dec.id == 'property':
                        kind = 0
                    elif isinstance(dec, ast.Attribute) and dec.attr == 'setter' and isinstance(dec.value, ast.Name) and dec.value.id == st.name:
                        kind = 1
                    elif isinstance(dec, ast.Attribute) and dec.attr in ('deleter', 'getter') and isinstance(dec.value, ast.Name) and dec.value.id == st.name:
                        kind = 2 if dec.attr == 'deleter' else 0
                if kind is not None:
                    cur = deco_props.setdefault(st.name, [None, None])
                    if kind in (0, 1):
                        cur[kind] = fi
                    continue
                self.methods[st.name] = fi
            elif isinstance(st, ast.Assign) and len(st.targets) == 1 and isinstance(st.targets[0], ast.Name):
                self.attrs[st.targets[0].id] = st.value
        # properties: name = property(getter, setter)
        for k, v in list(self.attrs.items()):
            if isinstance(v, ast.Call) and isinstance(v.func, ast.Name) and v.func.id == 'property':
                names = [a.id if isinstance(a, ast.Name) else None for a in v.args]
                g = self.methods.get(self._unmangle(names[0])) if names and names[0] else None
                s = self.methods.get(self._unmangle(names[1])) if len(names) > 1 and names[1] else None
                self.properties[k] = (g, s)
        for k, (g, s_) in deco_props.items():
            self.properties[k] = (g, s_)

    def _unmangle(self, name):
        return name

    @property
    def where(self):
        return '%s:%d' % (self.module.rel, self.node.lineno)

    def direct_base_names(self):
        out = []
        for b in self.bases:
            if isinstance(b, ast.Name):
                out.append(b.id)
            elif isinstance(b, ast.Attribute):
                out.append(b.attr)
        return out

    def base_names(self):
        """names of all base classes, including those reached through private base classes / mixins defined in the same module"""
        return getattr(self, 'all_base_names', None) or self.direct_base_names()

    def ancestors(self):
        """base classes defined in the same module (same conditional arm or unconditional), nearest first"""
        out, todo = [], [(self.module, b) for b in self.direct_base_names()]
        while todo:
            mod, b = todo.pop(0)
            cands = list(mod.classes_by_name.get(b, []))
            if not cands and b in mod.imports and getattr(mod, 'repo', None) is not None:
                # a base class imported from a sibling module of the package (e.g. a private base shared by _cache.py and safe.py)
                parts = mod.imports[b].lstrip('.').split('.')
                if len(parts) >= 2 and parts[-2] in mod.repo.modules:
                    cands = list(mod.repo.modules[parts[-2]].classes_by_name.get(parts[-1], []))
            for c in cands:
                if c is self or c in out or (c.guard and self.guard and c.guard != self.guard):
                    continue
                out.append(c)
                todo.extend((c.module, x) for x in c.direct_base_names())
        return out

    def flatten(self):
        """methods, class attributes and properties inherited from same-module base classes become visible on the class (its own win)"""
        self.own_methods = dict(self.methods)
        names = list(self.direct_base_names())
        for anc in self.ancestors():
            for k, v in anc.methods.items():
                if not (k.startswith('__') and not k.endswith('__')):      # name-mangled privates stay with their class
                    self.methods.setdefault(k, v)
            for k, v in anc.attrs.items():
                self.attrs.setdefault(k, v)
            for k, v in anc.properties.items():
                self.properties.setdefault(k, v)
            for b in anc.direct_base_names():
                if b not in names:
                    names.append(b)
        self.all_base_names = names
        # name = property(base._getter, base._setter): accessor functions taken from a base class by qualified name
        for k, v in list(self.attrs.items()):
            if not (isinstance(v, ast.Call) and isinstance(v.func, ast.Name) and v.func.id == 'property'):
                continue
            cur = list(self.properties.get(k, (None, None)))
            for i, a in enumerate(v.args[:2]):
                if cur[i] is None and isinstance(a, ast.Attribute) and isinstance(a.value, ast.Name):
                    for anc in [self] + self.ancestors():
                        if anc.name == a.value.id and a.attr in anc.methods:
                            cur[i] = anc.methods[a.attr]
                            break
            if tuple(cur) != self.properties.get(k, (None, None)):
                self.properties[k] = tuple(cur)

    def __repr__(self):
        return '<class %s>' % self.qual


def _own_scope_nodes(fn):
    """nodes of the function's own scope (nested function / class bodies excluded, their decorators and defaults included)"""
    todo = list(fn.body)
    while todo:
        n = todo.pop()
        yield n
        if isinstance(n, (ast.FunctionDef, ast.AsyncFunctionDef, ast.Lambda, ast.ClassDef)):
            if not isinstance(n, ast.Lambda):
                todo.extend(n.decorator_list)
            if not isinstance(n, ast.ClassDef):
                todo.extend(n.args.defaults)
                todo.extend(d for d in n.args.kw_defaults if d is not None)
            continue
        todo.extend(ast.iter_child_nodes(n))


def _local_bindings(fn):
    """names the function binds in its own scope without a nonlocal/global declaration, and the names it declares nonlocal"""
    bound, declared = set(), set()
    a = fn.args
    for x in a.posonlyargs + a.args + a.kwonlyargs + [y for y in (a.vararg, a.kwarg) if y]:
        bound.add(x.arg)
    for n in _own_scope_nodes(fn):
        if isinstance(n, (ast.Nonlocal, ast.Global)):
            declared.update(n.names)
        elif isinstance(n, ast.Name) and isinstance(n.ctx, (ast.Store, ast.Del)):
            bound.add(n.id)
        elif isinstance(n, (ast.FunctionDef, ast.AsyncFunctionDef, ast.ClassDef)):
            bound.add(n.name)
        elif isinstance(n, (ast.Import, ast.ImportFrom)):
            for al in n.names:
                bound.add((al.asname or al.name).split('.')[0])
        elif isinstance(n, ast.ExceptHandler) and n.name:
            bound.add(n.name)
    return bound - declared, declared


NLVEC = '__nl__'


def desugar_table_setattr(tree):
    """Normal form for table-driven attribute initialisation:

        custom = {'sorted': sorted, 'tuple': tuple, ...}            # a dict literal with constant string keys, bound once
        for name, default in custom.items():
            setattr(self, '_' + name, kwds.pop(name, default))

    is the sequence  self._sorted = kwds.pop('sorted', sorted); self._tuple = kwds.pop('tuple', tuple); ...  (dict literals iterate in source order).
    The loop is replaced by those assignments when its body is exactly one setattr whose attribute name folds to a constant for every row."""
    import copy as _copy
    changed = 0
    for fn in [n for n in ast.walk(tree) if isinstance(n, ast.FunctionDef)]:
        tables = {}
        for st in fn.body:
            if isinstance(st, ast.Assign) and len(st.targets) == 1 and isinstance(st.targets[0], ast.Name) and isinstance(st.value, ast.Dict) \
                    and st.value.keys and all(isinstance(k, ast.Constant) and isinstance(k.value, str) for k in st.value.keys):
                tables[st.targets[0].id] = st.value
        stores = {}
        for x in ast.walk(fn):
            if isinstance(x, ast.Name) and isinstance(x.ctx, ast.Store):
                stores[x.id] = stores.get(x.id, 0) + 1
        for holder in [n for n in ast.walk(fn) if isinstance(getattr(n, 'body', None), list)]:
            for fld in ('body', 'orelse', 'finalbody'):
                blk = getattr(holder, fld, None)
                if not isinstance(blk, list):
                    continue
                out = []
                for st in blk:
                    rows = None
                    if isinstance(st, ast.For) and not st.orelse and isinstance(st.target, ast.Tuple) and len(st.target.elts) == 2 \
                            and all(isinstance(t, ast.Name) for t in st.target.elts) and len(st.body) == 1 and isinstance(st.iter, ast.Call) \
                            and isinstance(st.iter.func, ast.Attribute) and st.iter.func.attr == 'items' and not st.iter.args:
                        src_ = st.iter.func.value
                        d_ = src_ if isinstance(src_, ast.Dict) else tables.get(src_.id) if isinstance(src_, ast.Name) and stores.get(src_.id) == 1 else None
                        if d_ is not None and all(isinstance(k, ast.Constant) and isinstance(k.value, str) for k in d_.keys):
                            rows = list(zip(d_.keys, d_.values))
                    b = st.body[0] if rows else None
                    if rows and isinstance(b, ast.Expr) and isinstance(b.value, ast.Call) and isinstance(b.value.func, ast.Name) and b.value.func.id == 'setattr' \
                            and len(b.value.args) == 3 and not b.value.keywords:
                        kn, vn = st.target.elts[0].id, st.target.elts[1].id
                        new = []
                        for k, v in rows:
                            class Sub(ast.NodeTransformer):
                                def visit_Name(self, node):
                                    if isinstance(node.ctx, ast.Load) and node.id == kn:
                                        return ast.copy_location(ast.Constant(value=k.value), node)
                                    if isinstance(node.ctx, ast.Load) and node.id == vn:
                                        return ast.copy_location(_copy.deepcopy(v), node)
                                    return node

                                def visit_BinOp(self, node):
                                    self.generic_visit(node)
                                    if isinstance(node.op, ast.Add) and isinstance(node.left, ast.Constant) and isinstance(node.right, ast.Constant) \
                                            and isinstance(node.left.value, str) and isinstance(node.right.value, str):
                                        return ast.copy_location(ast.Constant(value=node.left.value + node.right.value), node)
                                    return node
                            obj_, attr_, val_ = [Sub().visit(_copy.deepcopy(a)) for a in b.value.args]
                            if not (isinstance(attr_, ast.Constant) and isinstance(attr_.value, str) and attr_.value.isidentifier()):
                                new = None
                                break
                            asg = ast.Assign(targets=[ast.Attribute(value=obj_, attr=attr_.value, ctx=ast.Store())], value=val_)
                            ast.copy_location(asg, st)
                            ast.fix_missing_locations(asg)
                            new.append(asg)
                        if new:
                            out.extend(new)
                            changed += 1
                            continue
                    out.append(st)
                setattr(holder, fld, out)
    return changed


def desugar_namespace_counters(tree):
    """Normal form for closure state, second spelling: `stats = SimpleNamespace(hit=0, miss=0, load=0)` updated with `stats.hit += 1` is the list
    `stats = [0, 0, 0]` updated with `stats[0] += 1`.  The constructor call (integer keyword arguments only) becomes the list literal in keyword
    order, every `stats.<field>` in the function and its nested functions the subscript with that field's index.  A use of the namespace as a whole
    (passed on, returned, vars(stats)) disqualifies the rewrite - the object is then left as written."""
    changed = 0
    for outer in [n for n in ast.walk(tree) if isinstance(n, ast.FunctionDef)]:
        for st in list(outer.body):
            if not (isinstance(st, ast.Assign) and len(st.targets) == 1 and isinstance(st.targets[0], ast.Name) and isinstance(st.value, ast.Call)):
                continue
            f = st.value.func
            fname = f.id if isinstance(f, ast.Name) else f.attr if isinstance(f, ast.Attribute) else None
            if fname != 'SimpleNamespace' or st.value.args or not st.value.keywords:
                continue
            if not all(k.arg and isinstance(k.value, ast.Constant) and type(k.value.value) is int for k in st.value.keywords):
                continue
            var = st.targets[0].id
            fields = [k.arg for k in st.value.keywords]
            index = dict((n, i) for i, n in enumerate(fields))
            # every other occurrence of the name is `var.<field>`
            parent = {}
            for x in ast.walk(outer):
                for c in ast.iter_child_nodes(x):
                    parent[c] = x
            uses = [x for x in ast.walk(outer) if isinstance(x, ast.Name) and x.id == var and x is not st.targets[0]]
            if not uses or not all(isinstance(parent.get(x), ast.Attribute) and parent[x].value is x and parent[x].attr in index for x in uses):
                continue
            if any(isinstance(x, (ast.Nonlocal, ast.Global)) and var in x.names for x in ast.walk(outer)):
                continue

            class T(ast.NodeTransformer):
                def visit_Attribute(self, node):
                    self.generic_visit(node)
                    if isinstance(node.value, ast.Name) and node.value.id == var and node.attr in index:
                        new = ast.Subscript(value=node.value, slice=ast.Constant(value=index[node.attr]), ctx=node.ctx)
                        return ast.copy_location(new, node)
                    return node
            lst = ast.List(elts=[k.value for k in st.value.keywords], ctx=ast.Load())
            ast.copy_location(lst, st.value)
            st.value = lst
            T().visit(outer)
            ast.fix_missing_locations(outer)
            changed += 1
    return changed


def desugar_nonlocal_counters(tree):
    """Normal form for closure state.  Integer variables of an enclosing function that nested functions rebind through `nonlocal`
    (hits/misses/loads counters) are the same thing as the elements of a list `stats = [0, 0, 0]` updated in place - the py2-compatible spelling
    the wrappers use today.  The variables are rewritten to elements of one list `__nl__` (order of first binding), scope by scope with Python's own
    rule: a nested function that assigns the name *without* declaring it nonlocal has a local of that name and is left alone (so a forgotten
    declaration is still seen as what it is: an assignment to a local that changes nothing outside).  Positions are kept for reports."""
    changed = 0
    for outer in [n for n in ast.walk(tree) if isinstance(n, ast.FunctionDef)]:
        nested = [n for n in _own_scope_nodes(outer) if isinstance(n, ast.FunctionDef)]
        if not nested:
            continue
        names = set()
        for f in nested:
            for sub in [f] + [x for x in ast.walk(f) if isinstance(x, ast.FunctionDef) and x is not f]:
                names |= _local_bindings(sub)[1]
        if not names:
            continue
        # initial values: module-of-the-function-level assignments of integer constants, every target one of the names
        inits, order, stmts = {}, [], []
        ok = True
        for st in outer.body:
            if isinstance(st, ast.Assign) and all(isinstance(t, ast.Name) for t in st.targets) and any(t.id in names for t in st.targets):
                if not all(t.id in names for t in st.targets) or not (isinstance(st.value, ast.Constant) and type(st.value.value) is int):
                    ok = False
                    break
                for t in st.targets:
                    if t.id not in inits:
                        order.append(t.id)
                    inits[t.id] = st.value
                stmts.append(st)
        # tuple form: HITS, MISSES, LOADS = 0, 0, 0
        if ok and not stmts:
            for st in outer.body:
                if isinstance(st, ast.Assign) and len(st.targets) == 1 and isinstance(st.targets[0], ast.Tuple) and isinstance(st.value, ast.Tuple) \
                        and len(st.targets[0].elts) == len(st.value.elts) and all(isinstance(t, ast.Name) and t.id in names for t in st.targets[0].elts) \
                        and all(isinstance(v, ast.Constant) and type(v.value) is int for v in st.value.elts):
                    for t, v in zip(st.targets[0].elts, st.value.elts):
                        if t.id not in inits:
                            order.append(t.id)
                        inits[t.id] = v
                    stmts.append(st)
        if not ok or not stmts or set(order) != names:
            continue      # something else than plain integer counters: left as written
        # any other binding of the names in the outer scope itself disqualifies (the outer function would see a different variable)
        own_bound = [n for n in _own_scope_nodes(outer) if isinstance(n, ast.Name) and isinstance(n.ctx, (ast.Store, ast.Del)) and n.id in names]
        if len(own_bound) != sum(len(st.targets) if not isinstance(st.targets[0], ast.Tuple) else len(st.targets[0].elts) for st in stmts):
            continue
        index = dict((n, i) for i, n in enumerate(order))
        first = stmts[0]
        vec = ast.Assign(targets=[ast.Name(id=NLVEC, ctx=ast.Store())], value=ast.List(elts=[inits[n] for n in order], ctx=ast.Load()))
        ast.copy_location(vec, first)
        ast.fix_missing_locations(vec)
        outer.body = [vec if st is first else st for st in outer.body if st is first or st not in stmts]

        def rewrite_scope(fn, visible):
            """visible: names of the vector that this scope sees from outside"""
            if fn is outer:
                vis = set(visible)
            else:
                local, _decl = _local_bindings(fn)
                vis = set(n for n in visible if n not in local)

            class T(ast.NodeTransformer):
                def visit_FunctionDef(self, node):
                    if node is fn:
                        self.generic_visit(node)
                        return node
                    node.decorator_list = [self.visit(x) for x in node.decorator_list]
                    node.args.defaults = [self.visit(x) for x in node.args.defaults]
                    rewrite_scope(node, vis)
                    return node
                visit_AsyncFunctionDef = visit_FunctionDef

                def visit_Lambda(self, node):
                    shadow = set(x.arg for x in node.args.posonlyargs + node.args.args + node.args.kwonlyargs + [y for y in (node.args.vararg, node.args.kwarg) if y])
                    if shadow & vis:
                        return node
                    self.generic_visit(node)
                    return node

                def visit_Nonlocal(self, node):
                    keep = [n for n in node.names if n not in vis]
                    if keep:
                        node.names = keep
                        return node
                    return ast.copy_location(ast.Pass(), node)

                def visit_Name(self, node):
                    if node.id in vis:
                        sub = ast.Subscript(value=ast.Name(id=NLVEC, ctx=ast.Load()), slice=ast.Constant(value=index[node.id]), ctx=node.ctx)
                        ast.copy_location(sub, node)
                        ast.fix_missing_locations(sub)
                        return sub
                    return node
            T().visit(fn)
        rewrite_scope(outer, set(order))
        changed += 1
    return changed


class Module(object):
    def __init__(self, path, rel):
        self.path = path
        self.rel = rel
        with open(path, 'rb') as f:
            data = f.read()
        self.digest = hashlib.sha256(data).hexdigest()
        self.text = data.decode('utf-8', 'replace')
        self.lines = self.text.splitlines()
        try:
            self.tree = ast.parse(self.text, filename=path)
        except SyntaxError as e:
            raise AnalysisError('cannot parse %s: %s' % (rel, e))
        self.desugared = desugar_nonlocal_counters(self.tree) + desugar_namespace_counters(self.tree) + desugar_table_setattr(self.tree)
        self.classes = {}      # label -> ClassInfo  (label includes guard)
        self.classes_by_name = {}  # name -> [ClassInfo]
        self.functions = {}    # name -> FuncInfo (module level, incl. conditional arms)
        self.consts = {}       # name -> ast expr (module-level simple assignments, last wins)
        self.imports = {}      # local name -> dotted origin
        self._index(self.tree.body, '')

    def _guard_label(self, test, positive):
        if isinstance(test, ast.Name):
            return test.id if positive else '!' + test.id
        return None

    def _index(self, body, guard):
        for st in body:
            if isinstance(st, ast.ClassDef):
                ci = ClassInfo(st, self, guard)
                self.classes[ci.label] = ci
                self.classes_by_name.setdefault(ci.name, []).append(ci)
            elif isinstance(st, ast.FunctionDef):
                self.functions[st.name] = FuncInfo(st, self, '%s::%s' % (self.rel, st.name), guard=guard)
            elif isinstance(st, ast.Assign):
                if len(st.targets) == 1:
                    t = st.targets[0]
                    if isinstance(t, ast.Name):
                        self.consts[t.id] = st.value
                    elif isinstance(t, ast.Tuple) and isinstance(st.value, ast.Tuple) \
                            and len(t.elts) == len(st.value.elts):
                        for a, b in zip(t.elts, st.value.elts):
                            if isinstance(a, ast.Name):
                                self.consts[a.id] = b
            elif isinstance(st, ast.Import):
                for a in st.names:
                    self.imports[a.asname or a.name.split('.')[0]] = a.name if a.asname else a.name.split('.')[0]
            elif isinstance(st, ast.ImportFrom):
                mod = ('.' * st.level) + (st.module or '')
                for a in st.names:
                    if st.module:
                        self.imports[a.asname or a.name] = mod + '.' + a.name
                    else:
                        self.imports[a.asname or a.name] = mod + a.name
            elif isinstance(st, ast.If):
                g = self._guard_label(st.test, True)
                # only module-level feature switches (bare names) create arms
                if g is not None and guard == '':
                    self._index(st.body, g)
                    self._index(st.orelse, '!' + g)
                else:
                    self._index(st.body, guard)
                    self._index(st.orelse, guard)
            elif isinstance(st, ast.Try):
                self._index(st.body, guard)
                for h in st.handlers:
                    self._index(h.body, guard)
                self._index(st.orelse, guard)
                self._index(st.finalbody, guard)

    def src(self, node):
        try:
            return ast.get_source_segment(self.text, node) or ''
        except Exception:
            return ''

    def line(self, n):
        if 1 <= n <= len(self.lines):
            return self.lines[n - 1].rstrip()
        return ''


class Repo(object):
    def __init__(self, root=None):
        self.root = root or os.environ.get('KV_REPO', '/repo')
        self.modules = {}
        pkgdir = os.path.join(self.root, PKG)
        if not os.path.isdir(pkgdir):
            raise AnalysisError('package directory %s not found' % pkgdir)
        for fn in sorted(os.listdir(pkgdir)):
            if fn.endswith('.py'):
                rel = '%s/%s' % (PKG, fn)
                self.modules[fn[:-3]] = Module(os.path.join(pkgdir, fn), rel)
        self.consulted = set()
        for m in self.modules.values():
            m.repo = self
            for ci in m.classes.values():
                ci.own_methods = dict(ci.methods)
            for ci in m.classes.values():
                ci.flatten()

    def mod(self, name):
        if name not in self.modules:
            raise AnalysisError('anchor vanished: module klepto/%s.py' % name)
        self.consulted.add(name)
        return self.modules[name]

    def cls(self, modname, label):
        m = self.mod(modname)
        if label not in m.classes:
            raise AnalysisError('anchor vanished: class %s in klepto/%s.py' % (label, modname))
        return m.classes[label]

    def digest(self):
        h = hashlib.sha256()
        out = {}
        for n in sorted(self.consulted):
            out[self.modules[n].rel] = self.modules[n].digest[:16]
            h.update(self.modules[n].digest.encode())
        return h.hexdigest()[:16], out


def unparse(node):
    try:
        return ast.unparse(node)
    except Exception:
        return '<%s>' % type(node).__name__


def norm_stmt(node):
    """normalised statement text (layout independent) used for keys in reports"""
    return ' '.join(unparse(node).split())


def walk_no_nested(node):
    """ast.walk that does not descend into nested function / class definitions / lambdas"""
    stack = list(ast.iter_child_nodes(node))
    while stack:
        n = stack.pop()
        yield n
        if isinstance(n, (ast.FunctionDef, ast.AsyncFunctionDef, ast.ClassDef, ast.Lambda)):
            continue
        stack.extend(ast.iter_child_nodes(n))
