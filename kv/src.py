"""Source model: parse /repo/klepto/*.py with ast, index classes / functions / conditional arms.

Nothing from klepto is imported or executed.  Every check re-reads the working tree.
"""
import ast
import hashlib
import os

REPO = os.environ.get('KV_REPO', '/repo')
PKG = 'klepto'


class AnalysisError(Exception):
    """The analyser cannot recognise the code it is supposed to judge (exit 2)."""


class FuncInfo(object):
    __slots__ = ('node', 'module', 'qual', 'cls', 'parent', 'guard')

    def __init__(self, node, module, qual, cls=None, parent=None, guard=''):
        self.node = node
        self.module = module
        self.qual = qual
        self.cls = cls
        self.parent = parent
        self.guard = guard

    @property
    def name(self):
        return self.node.name

    @property
    def where(self):
        return '%s:%d' % (self.module.rel, self.node.lineno)

    def __repr__(self):
        return '<func %s>' % self.qual


class ClassInfo(object):
    def __init__(self, node, module, guard=''):
        self.node = node
        self.module = module
        self.guard = guard            # e.g. 'sql', '!sql', 'hdf', '!hdf', ''
        self.name = node.name
        self.label = node.name + ('[%s]' % guard if guard else '')
        self.qual = '%s::%s' % (module.rel, self.label)
        self.methods = {}             # name -> FuncInfo
        self.attrs = {}               # class-level simple assignments name -> ast expr
        self.properties = {}          # name -> (getter FuncInfo|None, setter FuncInfo|None)
        self.bases = [b for b in node.bases]
        for st in node.body:
            if isinstance(st, (ast.FunctionDef,)):
                fi = FuncInfo(st, module, '%s.%s' % (self.qual, st.name), cls=self, guard=guard)
                self.methods[st.name] = fi
            elif isinstance(st, ast.Assign) and len(st.targets) == 1 and isinstance(st.targets[0], ast.Name):
                self.attrs[st.targets[0].id] = st.value
        # properties: name = property(getter, setter)
        for k, v in list(self.attrs.items()):
            if isinstance(v, ast.Call) and isinstance(v.func, ast.Name) and v.func.id == 'property':
                names = [a.id if isinstance(a, ast.Name) else None for a in v.args]
                g = self.methods.get(self._unmangle(names[0])) if names and names[0] else None
                s = self.methods.get(self._unmangle(names[1])) if len(names) > 1 and names[1] else None
                self.properties[k] = (g, s)

    def _unmangle(self, name):
        return name

    @property
    def where(self):
        return '%s:%d' % (self.module.rel, self.node.lineno)

    def direct_base_names(self):
        out = []
        for b in self.bases:
            if isinstance(b, ast.Name):
                out.append(b.id)
            elif isinstance(b, ast.Attribute):
                out.append(b.attr)
        return out

    def base_names(self):
        """names of all base classes, including those reached through private base classes / mixins defined in the same module"""
        return getattr(self, 'all_base_names', None) or self.direct_base_names()

    def ancestors(self):
        """base classes defined in the same module (same conditional arm or unconditional), nearest first"""
        out, todo = [], [(self.module, b) for b in self.direct_base_names()]
        while todo:
            mod, b = todo.pop(0)
            cands = list(mod.classes_by_name.get(b, []))
            if not cands and b in mod.imports and getattr(mod, 'repo', None) is not None:
                # a base class imported from a sibling module of the package (e.g. a private base shared by _cache.py and safe.py)
                parts = mod.imports[b].lstrip('.').split('.')
                if len(parts) >= 2 and parts[-2] in mod.repo.modules:
                    cands = list(mod.repo.modules[parts[-2]].classes_by_name.get(parts[-1], []))
            for c in cands:
                if c is self or c in out or (c.guard and self.guard and c.guard != self.guard):
                    continue
                out.append(c)
                todo.extend((c.module, x) for x in c.direct_base_names())
        return out

    def flatten(self):
        """methods, class attributes and properties inherited from same-module base classes become visible on the class (its own win)"""
        self.own_methods = dict(self.methods)
        names = list(self.direct_base_names())
        for anc in self.ancestors():
            for k, v in anc.methods.items():
                if not (k.startswith('__') and not k.endswith('__')):      # name-mangled privates stay with their class
                    self.methods.setdefault(k, v)
            for k, v in anc.attrs.items():
                self.attrs.setdefault(k, v)
            for k, v in anc.properties.items():
                self.properties.setdefault(k, v)
            for b in anc.direct_base_names():
                if b not in names:
                    names.append(b)
        self.all_base_names = names

    def __repr__(self):
        return '<class %s>' % self.qual


class Module(object):
    def __init__(self, path, rel):
        self.path = path
        self.rel = rel
        with open(path, 'rb') as f:
            data = f.read()
        self.digest = hashlib.sha256(data).hexdigest()
        self.text = data.decode('utf-8', 'replace')
        self.lines = self.text.splitlines()
        try:
            self.tree = ast.parse(self.text, filename=path)
        except SyntaxError as e:
            raise AnalysisError('cannot parse %s: %s' % (rel, e))
        self.classes = {}      # label -> ClassInfo  (label includes guard)
        self.classes_by_name = {}  # name -> [ClassInfo]
        self.functions = {}    # name -> FuncInfo (module level, incl. conditional arms)
        self.consts = {}       # name -> ast expr (module-level simple assignments, last wins)
        self.imports = {}      # local name -> dotted origin
        self._index(self.tree.body, '')

    def _guard_label(self, test, positive):
        if isinstance(test, ast.Name):
            return test.id if positive else '!' + test.id
        return None

    def _index(self, body, guard):
        for st in body:
            if isinstance(st, ast.ClassDef):
                ci = ClassInfo(st, self, guard)
                self.classes[ci.label] = ci
                self.classes_by_name.setdefault(ci.name, []).append(ci)
            elif isinstance(st, ast.FunctionDef):
                self.functions[st.name] = FuncInfo(st, self, '%s::%s' % (self.rel, st.name), guard=guard)
            elif isinstance(st, ast.Assign):
                if len(st.targets) == 1:
                    t = st.targets[0]
                    if isinstance(t, ast.Name):
                        self.consts[t.id] = st.value
                    elif isinstance(t, ast.Tuple) and isinstance(st.value, ast.Tuple) \
                            and len(t.elts) == len(st.value.elts):
                        for a, b in zip(t.elts, st.value.elts):
                            if isinstance(a, ast.Name):
                                self.consts[a.id] = b
            elif isinstance(st, ast.Import):
                for a in st.names:
                    self.imports[a.asname or a.name.split('.')[0]] = a.name if a.asname else a.name.split('.')[0]
            elif isinstance(st, ast.ImportFrom):
                mod = ('.' * st.level) + (st.module or '')
                for a in st.names:
                    if st.module:
                        self.imports[a.asname or a.name] = mod + '.' + a.name
                    else:
                        self.imports[a.asname or a.name] = mod + a.name
            elif isinstance(st, ast.If):
                g = self._guard_label(st.test, True)
                # only module-level feature switches (bare names) create arms
                if g is not None and guard == '':
                    self._index(st.body, g)
                    self._index(st.orelse, '!' + g)
                else:
                    self._index(st.body, guard)
                    self._index(st.orelse, guard)
            elif isinstance(st, ast.Try):
                self._index(st.body, guard)
                for h in st.handlers:
                    self._index(h.body, guard)
                self._index(st.orelse, guard)
                self._index(st.finalbody, guard)

    def src(self, node):
        try:
            return ast.get_source_segment(self.text, node) or ''
        except Exception:
            return ''

    def line(self, n):
        if 1 <= n <= len(self.lines):
            return self.lines[n - 1].rstrip()
        return ''


class Repo(object):
    def __init__(self, root=None):
        self.root = root or os.environ.get('KV_REPO', '/repo')
        self.modules = {}
        pkgdir = os.path.join(self.root, PKG)
        if not os.path.isdir(pkgdir):
            raise AnalysisError('package directory %s not found' % pkgdir)
        for fn in sorted(os.listdir(pkgdir)):
            if fn.endswith('.py'):
                rel = '%s/%s' % (PKG, fn)
                self.modules[fn[:-3]] = Module(os.path.join(pkgdir, fn), rel)
        self.consulted = set()
        for m in self.modules.values():
            m.repo = self
            for ci in m.classes.values():
                ci.own_methods = dict(ci.methods)
            for ci in m.classes.values():
                ci.flatten()

    def mod(self, name):
        if name not in self.modules:
            raise AnalysisError('anchor vanished: module klepto/%s.py' % name)
        self.consulted.add(name)
        return self.modules[name]

    def cls(self, modname, label):
        m = self.mod(modname)
        if label not in m.classes:
            raise AnalysisError('anchor vanished: class %s in klepto/%s.py' % (label, modname))
        return m.classes[label]

    def digest(self):
        h = hashlib.sha256()
        out = {}
        for n in sorted(self.consulted):
            out[self.modules[n].rel] = self.modules[n].digest[:16]
            h.update(self.modules[n].digest.encode())
        return h.hexdigest()[:16], out


def unparse(node):
    try:
        return ast.unparse(node)
    except Exception:
        return '<%s>' % type(node).__name__


def norm_stmt(node):
    """normalised statement text (layout independent) used for keys in reports"""
    return ' '.join(unparse(node).split())


def walk_no_nested(node):
    """ast.walk that does not descend into nested function / class definitions / lambdas"""
    stack = list(ast.iter_child_nodes(node))
    while stack:
        n = stack.pop()
        yield n
        if isinstance(n, (ast.FunctionDef, ast.AsyncFunctionDef, ast.ClassDef, ast.Lambda)):
            continue
        stack.extend(ast.iter_child_nodes(n))
