"""Source model: parse /repo/klepto/*.py with ast, index classes / functions / conditional arms.

Nothing from klepto is imported or executed.  Every check re-reads the working tree.
"""
import ast
import hashlib
import os

REPO = os.environ.get('KV_REPO', '/repo')
PKG = 'klepto'


class AnalysisError(Exception):
    """The analyser cannot recognise the code it is supposed to judge (exit 2)."""


class FuncInfo(object):
    __slots__ = ('node', 'module', 'qual', 'cls', 'parent', 'guard')

    def __init__(self, node, module, qual, cls=None, parent=None, guard=''):
        self.node = node
        self.module = module
        self.qual = qual
        self.cls = cls
        self.parent = parent
        self.guard = guard

    @property
    def name(self):
        return self.node.name

    @property
    def where(self):
        return '%s:%d' % (self.module.rel, self.node.lineno)

    def __repr__(self):
        return '<func %s>' % self.qual


class ClassInfo(object):
    def __init__(self, node, module, guard=''):
        self.node = node
        self.module = module
        self.guard = guard            # e.g. 'sql', '!sql', 'hdf', '!hdf', ''
        self.name = node.name
        self.label = node.name + ('[%s]' % guard if guard else '')
        self.qual = '%s::%s' % (module.rel, self.label)
        self.methods = {}             # name -> FuncInfo
        self.attrs = {}               # class-level simple assignments name -> ast expr
        self.properties = {}          # name -> (getter FuncInfo|None, setter FuncInfo|None)
        self.bases = [b for b in node.bases]
        for st in node.body:
            if isinstance(st, (ast.FunctionDef,)):
                fi = FuncInfo(st, module, '%s.%s' % (self.qual, st.name), cls=self, guard=guard)
                self.methods[st.name] = fi
            elif isinstance(st, ast.Assign) and len(st.targets) == 1 and isinstance(st.targets[0], ast.Name):
                self.attrs[st.targets[0].id] = st.value
        # properties: name = property(getter, setter)
        for k, v in list(self.attrs.items()):
            if isinstance(v, ast.Call) and isinstance(v.func, ast.Name) and v.func.id == 'property':
                names = [a.id if isinstance(a, ast.Name) else None for a in v.args]
                g = self.methods.get(self._unmangle(names[0])) if names and names[0] else None
                s = self.methods.get(self._unmangle(names[1])) if len(names) > 1 and names[1] else None
                self.properties[k] = (g, s)

    def _unmangle(self, name):
        return name

    @property
    def where(self):
        return '%s:%d' % (self.module.rel, self.node.lineno)

    def direct_base_names(self):
        out = []
        for b in self.bases:
            if isinstance(b, ast.Name):
                out.append(b.id)
            elif isinstance(b, ast.Attribute):
                out.append(b.attr)
        return out

    def base_names(self):
        """names of all base classes, including those reached through private base classes / mixins defined in the same module"""
        return getattr(self, 'all_base_names', None) or self.direct_base_names()

    def ancestors(self):
        """base classes defined in the same module (same conditional arm or unconditional), nearest first"""
        out, todo = [], [(self.module, b) for b in self.direct_base_names()]
        while todo:
            mod, b = todo.pop(0)
            cands = list(mod.classes_by_name.get(b, []))
            if not cands and b in mod.imports and getattr(mod, 'repo', None) is not None:
                # a base class imported from a sibling module of the package (e.g. a private base shared by _cache.py and safe.py)
                parts = mod.imports[b].lstrip('.').split('.')
                if len(parts) >= 2 and parts[-2] in mod.repo.modules:
                    cands = list(mod.repo.modules[parts[-2]].classes_by_name.get(parts[-1], []))
            for c in cands:
                if c is self or c in out or (c.guard and self.guard and c.guard != self.guard):
                    continue
                out.append(c)
                todo.extend((c.module, x) for x in c.direct_base_names())
        return out

    def flatten(self):
        """methods, class attributes and properties inherited from same-module base classes become visible on the class (its own win)"""
        self.own_methods = dict(self.methods)
        names = list(self.direct_base_names())
        for anc in self.ancestors():
            for k, v in anc.methods.items():
                if not (k.startswith('__') and not k.endswith('__')):      # name-mangled privates stay with their class
                    self.methods.setdefault(k, v)
            for k, v in anc.attrs.items():
                self.attrs.setdefault(k, v)
            for k, v in anc.properties.items():
                self.properties.setdefault(k, v)
            for b in anc.direct_base_names():
                if b not in names:
                    names.append(b)
        self.all_base_names = names
        # name = property(base._getter, base._setter): accessor functions taken from a base class by qualified name
        for k, v in list(self.attrs.items()):
            if not (isinstance(v, ast.Call) and isinstance(v.func, ast.Name) and v.func.id == 'property'):
                continue
            cur = list(self.properties.get(k, (None, None)))
            for i, a in enumerate(v.args[:2]):
                if cur[i] is None and isinstance(a, ast.Attribute) and isinstance(a.value, ast.Name):
                    for anc in [self] + self.ancestors():
                        if anc.name == a.value.id and a.attr in anc.methods:
                            cur[i] = anc.methods[a.attr]
                            break
            if tuple(cur) != self.properties.get(k, (None, None)):
                self.properties[k] = tuple(cur)

    def __repr__(self):
        return '<class %s>' % self.qual


def _own_scope_nodes(fn):
    """nodes of the function's own scope (nested function / class bodies excluded, their decorators and defaults included)"""
    todo = list(fn.body)
    while todo:
        n = todo.pop()
        yield n
        if isinstance(n, (ast.FunctionDef, ast.AsyncFunctionDef, ast.Lambda, ast.ClassDef)):
            if not isinstance(n, ast.Lambda):
                todo.extend(n.decorator_list)
            if not isinstance(n, ast.ClassDef):
                todo.extend(n.args.defaults)
                todo.extend(d for d in n.args.kw_defaults if d is not None)
            continue
        todo.extend(ast.iter_child_nodes(n))


def _local_bindings(fn):
    """names the function binds in its own scope without a nonlocal/global declaration, and the names it declares nonlocal"""
    bound, declared = set(), set()
    a = fn.args
    for x in a.posonlyargs + a.args + a.kwonlyargs + [y for y in (a.vararg, a.kwarg) if y]:
        bound.add(x.arg)
    for n in _own_scope_nodes(fn):
        if isinstance(n, (ast.Nonlocal, ast.Global)):
            declared.update(n.names)
        elif isinstance(n, ast.Name) and isinstance(n.ctx, (ast.Store, ast.Del)):
            bound.add(n.id)
        elif isinstance(n, (ast.FunctionDef, ast.AsyncFunctionDef, ast.ClassDef)):
            bound.add(n.name)
        elif isinstance(n, (ast.Import, ast.ImportFrom)):
            for al in n.names:
                bound.add((al.asname or al.name).split('.')[0])
        elif isinstance(n, ast.ExceptHandler) and n.name:
            bound.add(n.name)
    return bound - declared, declared


NLVEC = '__nl__'


def desugar_nonlocal_counters(tree):
    """Normal form for closure state.  Integer variables of an enclosing function that nested functions rebind through `nonlocal`
    (hits/misses/loads counters) are the same thing as the elements of a list `stats = [0, 0, 0]` updated in place - the py2-compatible spelling
    the wrappers use today.  The variables are rewritten to elements of one list `__nl__` (order of first binding), scope by scope with Python's own
    rule: a nested function that assigns the name *without* declaring it nonlocal has a local of that name and is left alone (so a forgotten
    declaration is still seen as what it is: an assignment to a local that changes nothing outside).  Positions are kept for reports."""
    changed = 0
    for outer in [n for n in ast.walk(tree) if isinstance(n, ast.FunctionDef)]:
        nested = [n for n in _own_scope_nodes(outer) if isinstance(n, ast.FunctionDef)]
        if not nested:
            continue
        names = set()
        for f in nested:
            for sub in [f] + [x for x in ast.walk(f) if isinstance(x, ast.FunctionDef) and x is not f]:
                names |= _local_bindings(sub)[1]
        if not names:
            continue
        # initial values: module-of-the-function-level assignments of integer constants, every target one of the names
        inits, order, stmts = {}, [], []
        ok = True
        for st in outer.body:
            if isinstance(st, ast.Assign) and all(isinstance(t, ast.Name) for t in st.targets) and any(t.id in names for t in st.targets):
                if not all(t.id in names for t in st.targets) or not (isinstance(st.value, ast.Constant) and type(st.value.value) is int):
                    ok = False
                    break
                for t in st.targets:
                    if t.id not in inits:
                        order.append(t.id)
                    inits[t.id] = st.value
                stmts.append(st)
        # tuple form: HITS, MISSES, LOADS = 0, 0, 0
        if ok and not stmts:
            for st in outer.body:
                if isinstance(st, ast.Assign) and len(st.targets) == 1 and isinstance(st.targets[0], ast.Tuple) and isinstance(st.value, ast.Tuple) \
                        and len(st.targets[0].elts) == len(st.value.elts) and all(isinstance(t, ast.Name) and t.id in names for t in st.targets[0].elts) \
                        and all(isinstance(v, ast.Constant) and type(v.value) is int for v in st.value.elts):
                    for t, v in zip(st.targets[0].elts, st.value.elts):
                        if t.id not in inits:
                            order.append(t.id)
                        inits[t.id] = v
                    stmts.append(st)
        if not ok or not stmts or set(order) != names:
            continue      # something else than plain integer counters: left as written
        # any other binding of the names in the outer scope itself disqualifies (the outer function would see a different variable)
        own_bound = [n for n in _own_scope_nodes(outer) if isinstance(n, ast.Name) and isinstance(n.ctx, (ast.Store, ast.Del)) and n.id in names]
        if len(own_bound) != sum(len(st.targets) if not isinstance(st.targets[0], ast.Tuple) else len(st.targets[0].elts) for st in stmts):
            continue
        index = dict((n, i) for i, n in enumerate(order))
        first = stmts[0]
        vec = ast.Assign(targets=[ast.Name(id=NLVEC, ctx=ast.Store())], value=ast.List(elts=[inits[n] for n in order], ctx=ast.Load()))
        ast.copy_location(vec, first)
        ast.fix_missing_locations(vec)
        outer.body = [vec if st is first else st for st in outer.body if st is first or st not in stmts]

        def rewrite_scope(fn, visible):
            """visible: names of the vector that this scope sees from outside"""
            if fn is outer:
                vis = set(visible)
            else:
                local, _decl = _local_bindings(fn)
                vis = set(n for n in visible if n not in local)

            class T(ast.NodeTransformer):
                def visit_FunctionDef(self, node):
                    if node is fn:
                        self.generic_visit(node)
                        return node
                    node.decorator_list = [self.visit(x) for x in node.decorator_list]
                    node.args.defaults = [self.visit(x) for x in node.args.defaults]
                    rewrite_scope(node, vis)
                    return node
                visit_AsyncFunctionDef = visit_FunctionDef

                def visit_Lambda(self, node):
                    shadow = set(x.arg for x in node.args.posonlyargs + node.args.args + node.args.kwonlyargs + [y for y in (node.args.vararg, node.args.kwarg) if y])
                    if shadow & vis:
                        return node
                    self.generic_visit(node)
                    return node

                def visit_Nonlocal(self, node):
                    keep = [n for n in node.names if n not in vis]
                    if keep:
                        node.names = keep
                        return node
                    return ast.copy_location(ast.Pass(), node)

                def visit_Name(self, node):
                    if node.id in vis:
                        sub = ast.Subscript(value=ast.Name(id=NLVEC, ctx=ast.Load()), slice=ast.Constant(value=index[node.id]), ctx=node.ctx)
                        ast.copy_location(sub, node)
                        ast.fix_missing_locations(sub)
                        return sub
                    return node
            T().visit(fn)
        rewrite_scope(outer, set(order))
        changed += 1
    return changed


class Module(object):
    def __init__(self, path, rel):
        self.path = path
        self.rel = rel
        with open(path, 'rb') as f:
            data = f.read()
        self.digest = hashlib.sha256(data).hexdigest()
        self.text = data.decode('utf-8', 'replace')
        self.lines = self.text.splitlines()
        try:
            self.tree = ast.parse(self.text, filename=path)
        except SyntaxError as e:
            raise AnalysisError('cannot parse %s: %s' % (rel, e))
        self.desugared = desugar_nonlocal_counters(self.tree)
        self.classes = {}      # label -> ClassInfo  (label includes guard)
        self.classes_by_name = {}  # name -> [ClassInfo]
        self.functions = {}    # name -> FuncInfo (module level, incl. conditional arms)
        self.consts = {}       # name -> ast expr (module-level simple assignments, last wins)
        self.imports = {}      # local name -> dotted origin
        self._index(self.tree.body, '')

    def _guard_label(self, test, positive):
        if isinstance(test, ast.Name):
            return test.id if positive else '!' + test.id
        return None

    def _index(self, body, guard):
        for st in body:
            if isinstance(st, ast.ClassDef):
                ci = ClassInfo(st, self, guard)
                self.classes[ci.label] = ci
                self.classes_by_name.setdefault(ci.name, []).append(ci)
            elif isinstance(st, ast.FunctionDef):
                self.functions[st.name] = FuncInfo(st, self, '%s::%s' % (self.rel, st.name), guard=guard)
            elif isinstance(st, ast.Assign):
                if len(st.targets) == 1:
                    t = st.targets[0]
                    if isinstance(t, ast.Name):
                        self.consts[t.id] = st.value
                    elif isinstance(t, ast.Tuple) and isinstance(st.value, ast.Tuple) \
                            and len(t.elts) == len(st.value.elts):
                        for a, b in zip(t.elts, st.value.elts):
                            if isinstance(a, ast.Name):
                                self.consts[a.id] = b
            elif isinstance(st, ast.Import):
                for a in st.names:
                    self.imports[a.asname or a.name.split('.')[0]] = a.name if a.asname else a.name.split('.')[0]
            elif isinstance(st, ast.ImportFrom):
                mod = ('.' * st.level) + (st.module or '')
                for a in st.names:
                    if st.module:
                        self.imports[a.asname or a.name] = mod + '.' + a.name
                    else:
                        self.imports[a.asname or a.name] = mod + a.name
            elif isinstance(st, ast.If):
                g = self._guard_label(st.test, True)
                # only module-level feature switches (bare names) create arms
                if g is not None and guard == '':
                    self._index(st.body, g)
                    self._index(st.orelse, '!' + g)
                else:
                    self._index(st.body, guard)
                    self._index(st.orelse, guard)
            elif isinstance(st, ast.Try):
                self._index(st.body, guard)
                for h in st.handlers:
                    self._index(h.body, guard)
                self._index(st.orelse, guard)
                self._index(st.finalbody, guard)

    def src(self, node):
        try:
            return ast.get_source_segment(self.text, node) or ''
        except Exception:
            return ''

    def line(self, n):
        if 1 <= n <= len(self.lines):
            return self.lines[n - 1].rstrip()
        return ''


class Repo(object):
    def __init__(self, root=None):
        self.root = root or os.environ.get('KV_REPO', '/repo')
        self.modules = {}
        pkgdir = os.path.join(self.root, PKG)
        if not os.path.isdir(pkgdir):
            raise AnalysisError('package directory %s not found' % pkgdir)
        for fn in sorted(os.listdir(pkgdir)):
            if fn.endswith('.py'):
                rel = '%s/%s' % (PKG, fn)
                self.modules[fn[:-3]] = Module(os.path.join(pkgdir, fn), rel)
        self.consulted = set()
        for m in self.modules.values():
            m.repo = self
            for ci in m.classes.values():
                ci.own_methods = dict(ci.methods)
            for ci in m.classes.values():
                ci.flatten()

    def mod(self, name):
        if name not in self.modules:
            raise AnalysisError('anchor vanished: module klepto/%s.py' % name)
        self.consulted.add(name)
        return self.modules[name]

    def cls(self, modname, label):
        m = self.mod(modname)
        if label not in m.classes:
            raise AnalysisError('anchor vanished: class %s in klepto/%s.py' % (label, modname))
        return m.classes[label]

    def digest(self):
        h = hashlib.sha256()
        out = {}
        for n in sorted(self.consulted):
            out[self.modules[n].rel] = self.modules[n].digest[:16]
            h.update(self.modules[n].digest.encode())
        return h.hexdigest()[:16], out


def unparse(node):
    try:
        return ast.unparse(node)
    except Exception:
        return '<%s>' % type(node).__name__


def norm_stmt(node):
    """normalised statement text (layout independent) used for keys in reports"""
    return ' '.join(unparse(node).split())


def walk_no_nested(node):
    """ast.walk that does not descend into nested function / class definitions / lambdas"""
    stack = list(ast.iter_child_nodes(node))
    while stack:
        n = stack.pop()
        yield n
        if isinstance(n, (ast.FunctionDef, ast.AsyncFunctionDef, ast.ClassDef, ast.Lambda)):
            continue
        stack.extend(ast.iter_child_nodes(n))
