"""Rules over the enumerated paths of the cache decorators' closures (DESIGN section 4, W-*)."""
import ast

from .src import AnalysisError, unparse
from .paths import (C, NONE, is_const, render, render_path, subterms, contains_term, RETURN, RAISE, ABBREV,
                    GENERIC, BASEONLY, Engine, Model, R)
from .wmodel import (CACHE, FN, KEYMAP, IGNORE, ROUND, MAXSIZE, PURGE, ARCHIVE, ARCHIVED, SELF, is_bk, libname,
                     lower_bound)
from .decorators import IFACE

UNHASH = ('KEYGENRAISE', 'GETERR', 'SETERR', 'LOADERR', 'DUMPERR', 'DELERR', 'BKERR')
CACHE_WRITES = ('SET', 'DEL', 'CLEAR', 'LOAD', 'CACHEOP')
MUTATIONS = ('SET', 'DEL', 'CLEAR', 'DUMP', 'STAT', 'STATRESET', 'STATSET', 'BK', 'CACHEOP', 'ARCHOP', 'REBIND', 'TOGGLE')


def wq(d):
    return '%s.__call__.%s' % (d.qual, d.wrapper_node.name)


def cq(d, name):
    return '%s.__call__.%s' % (d.qual, name)


def where(d, line):
    return '%s:%d' % (d.module.rel, line)


def setup_abbrev(d):
    ABBREV.clear()
    ABBREV[d.K()] = 'K'
    for b, nm in d.bknames.items():
        ABBREV[b] = nm


def ev_of(o, *kinds):
    return [(i, e) for i, e in enumerate(o.st.events) if e.kind in kinds]


def is_fallback(o, upto=None):
    evs = o.st.events if upto is None else o.st.events[:upto]
    return any(e.kind in UNHASH for e in evs)


def is_victim_term(v):
    """terms that denote an eviction victim: popped from a deque, iterated from a view, drawn from keys"""
    return contains_term(v, lambda t: (t[0] == 'ev' and t[1] in ('bkpop', 'keys', 'popval')) or t[0] in ('iter', 'bkview'))


def pinned_maxsize(d):
    return d.state_consts.get('maxsize', 'unpinned')


# ---------------------------------------------------------------------------------------------
def rule_W_KEY(ctx, d, paths):
    """every GET/SET/LOAD of the current call uses the key normal form K"""
    K = d.K()
    seen = set()
    for o in paths:
        for i, e in ev_of(o, 'GET', 'GETMISS', 'GETERR', 'SET', 'SETERR', 'LOAD', 'LOADERR', 'HAS'):
            if e.kind == 'LOAD' and not e.args:
                continue    # bulk load covers K
            k = e.args[0]
            site = (e.kind, e.line)
            ok = (k == K)
            if site not in seen:
                seen.add(site)
                ctx.ob('W-KEY', '%s %s@%s' % (d.name, e.kind, d.module.rel), ok)
            if not ok:
                ctx.fail('W-KEY', wq(d), '%s key %s' % (e.kind, render(k)),
                         '%s uses key %s, not the canonical key K = %s' % (e.kind, render(k), render_K(d)),
                         where(d, e.line), render_path(o))


def render_K(d):
    saved = dict(ABBREV)
    ABBREV.clear()
    try:
        return render(d.K())
    finally:
        ABBREV.update(saved)


def rule_W_ARGS(ctx, d, paths):
    """the function is evaluated on the caller's own *args, **kwds"""
    want_a = (('star', d.ARGS),)
    want_k = (('dstar', d.KWDS),)
    seen = set()
    for o in paths:
        for i, e in ev_of(o, 'EVAL', 'EVALRAISE'):
            a, k = e.extra['args'], e.extra['kws']
            ok = (a == want_a and k == want_k)
            if e.line not in seen:
                seen.add(e.line)
                ctx.ob('W-ARGS', '%s EVAL@%d' % (d.name, e.line), ok)
            if not ok:
                ctx.fail('W-ARGS', wq(d), 'EVAL(%s)' % ', '.join(render(x) for x in a + k),
                         'the wrapped function is called with (%s) instead of the caller\'s (*%s, **%s)' % (
                             ', '.join(render(x) for x in a + k), d.ARGS[1], d.KWDS[1]),
                         where(d, e.line), render_path(o))


def rule_W_STORE(ctx, d, paths):
    """only K -> f(a) is stored; a computed result is recorded"""
    K = d.K()
    for o in paths:
        evals = ev_of(o, 'EVAL')
        evals_vals = [e.val for _, e in evals]
        sets = ev_of(o, 'SET')
        for i, e in sets:
            k, v = e.args[0], e.args[1]
            ok = (k == K and v in evals_vals and any(j < i for j, _ in evals))
            ctx.ob('W-STORE', None, ok)
            if not ok:
                ctx.fail('W-STORE', wq(d), 'SET(%s, %s)' % (render(k), render(v)),
                         'stores %s under %s; the only legitimate store is K -> result of this call\'s evaluation' % (render(v), render(k)),
                         where(d, e.line), render_path(o))
        if o.kind == RETURN and evals and not sets:
            i0 = evals[0][0]
            ok = is_fallback(o, i0)
            ctx.ob('W-STORE', None, ok)
            if not ok:
                ctx.fail('W-STORE', wq(d), 'EVAL without SET',
                         'a normal path evaluates the function after a cache miss but never stores the result',
                         where(d, evals[0][1].line), render_path(o))
    ctx.ob('W-STORE', d.name + ' paths')


def rule_W_RET(ctx, d, paths):
    """the returned value is the function's result or what was read under K"""
    K = d.K()
    for o in paths:
        if o.kind != RETURN:
            continue
        evals = [e.val for _, e in ev_of(o, 'EVAL')]
        gets = [e.val for _, e in ev_of(o, 'GET') if e.args[0] == K]
        if evals:
            ok = (o.val == evals[-1])
        else:
            ok = bool(gets) and o.val == gets[-1]
        ctx.ob('W-RET', None, ok)
        if not ok:
            ctx.fail('W-RET', wq(d), 'RETURN %s' % render(o.val),
                     'returns %s, which is neither this call\'s evaluation result nor the value read under K' % render(o.val),
                     where(d, o.line), render_path(o))
    ctx.ob('W-RET', d.name + ' paths')


def rule_W_INTERNAL(ctx, d, paths):
    """no exception raised by the wrapper's own bookkeeping escapes the call"""
    for o in paths:
        if o.kind != RAISE:
            continue
        origin = None
        for e in reversed(o.st.events):
            if e.kind in ('EVALRAISE',) + UNHASH:
                origin = e
                break
            if e.kind in ('GETMISS', 'DELMISS', 'BKEMPTY', 'BKMISS', 'RAISE', 'FNATTRERR', 'LIBRAISE', 'LOCKERR'):
                origin = e
                break
        ok = origin is not None and origin.kind in ('EVALRAISE',) + UNHASH
        # a safe wrapper re-raising is judged by W-SAFE; here only internal exceptions
        ctx.ob('W-INTERNAL', None, ok)
        if not ok:
            kind = origin.kind if origin is not None else 'unknown'
            what = {'BKEMPTY': 'pop from an empty bookkeeping queue', 'GETMISS': 'uncaught KeyError of a cache lookup',
                    'DELMISS': 'uncaught KeyError deleting a cache entry', 'BKMISS': 'uncaught error removing from bookkeeping',
                    'RAISE': 'explicit raise', 'FNATTRERR': 'reading an attribute (%s) that a functools.partial / callable instance / builtin does not have' % (
                        render(origin.args[0]) if origin is not None and origin.args else '?',),
                    'LIBRAISE': 'a library call that can raise (%s)' % (render(origin.args[0]) if origin is not None and origin.args else '?',),
                    'LOCKERR': 'releasing a lock that is not held'}.get(kind, kind)
            after_set = any(e.kind == 'SET' for e in o.st.events)
            ctx.fail('W-INTERNAL', wq(d), '%s escapes as %s%s' % (kind, o.exc, ' after SET' if after_set else ''),
                     '%s escapes the call as %s%s' % (what, o.exc, ' after the new entry was inserted (nothing evicted)' if after_set else ''),
                     where(d, origin.line if origin is not None else o.line), render_path(o))
    ctx.ob('W-INTERNAL', d.name + ' raise paths')


def rule_W_EVAL1(ctx, d, paths):
    hidden = may_evaluate(d.repo)
    for o in paths:
        # the function handed to a routine of the package that may call it (isvalid's fallback for uninspectable callables) is a possible evaluation
        for e in o.st.events:
            if e.kind == 'FNPASS' and e.args[0][1] in hidden:
                ctx.ob('W-EVAL1', None, False)
                ctx.fail('W-EVAL1', wq(d), 'function handed to %s()' % e.args[0][1],
                         'the wrapper passes the wrapped function to %s(), which evaluates it for callables whose signature cannot be inspected (builtins, C functions): '
                         'such a call is evaluated twice - and a raising one raises after two evaluations' % e.args[0][1], where(d, e.line), render_path(o))
                break
        n = len(ev_of(o, 'EVAL', 'EVALRAISE'))
        ok = n <= 1
        ctx.ob('W-EVAL1', None, ok)
        if not ok:
            ctx.fail('W-EVAL1', wq(d), '%d evaluations on one path' % n,
                     'the wrapped function can be evaluated %d times in one call' % n,
                     where(d, ev_of(o, 'EVAL', 'EVALRAISE')[-1][1].line), render_path(o))
    ctx.ob('W-EVAL1', d.name + ' paths')


def rule_W_MISS(ctx, d, paths):
    """EVAL only after a failed lookup of K, preceded (when archived) by a load of K"""
    K = d.K()
    for o in paths:
        for i, e in ev_of(o, 'EVAL', 'EVALRAISE'):
            if is_fallback(o, i):
                ctx.ob('W-MISS', None, True)
                continue
            prev = [(j, x) for j, x in enumerate(o.st.events[:i])
                    if x.kind in ('GET', 'GETMISS', 'SET', 'DEL', 'DELMISS', 'CLEAR', 'LOAD', 'DUMP', 'HAS', 'CACHEOP')]
            ok = bool(prev) and ((prev[-1][1].kind == 'GETMISS' and prev[-1][1].args[0] == K) or
                                 (prev[-1][1].kind == 'HAS' and prev[-1][1].args[0] == K and prev[-1][1].args[1] == C(False)))
            why = 'the function is evaluated without an immediately preceding failed lookup of K'
            if ok and o.st.facts.get('archived') is not False:
                # need LOAD(K) or LOAD(*) before that failed GET and after the last mutation
                jl = None
                for j, x in prev[:-1]:
                    if x.kind == 'LOAD' and (not x.args or K in x.args):
                        jl = j
                    elif x.kind in ('SET', 'DEL', 'CLEAR', 'CACHEOP'):
                        jl = None
                if jl is None:
                    ok = False
                    why = ('with an archive attached the function is evaluated although the archive was not consulted '
                           '(no load of K before the failed lookup)')
            ctx.ob('W-MISS', None, ok)
            if not ok:
                ctx.fail('W-MISS', wq(d), 'EVAL archived=%s: %s' % (o.st.facts.get('archived'), why[:60]), why,
                         where(d, e.line), render_path(o))
    ctx.ob('W-MISS', d.name + ' paths')


def rule_W_DROP(ctx, d, paths):
    """what leaves memory was dumped first (when archived)"""
    nocache = pinned_maxsize(d) == 0
    for o in paths:
        if o.st.facts.get('archived') is False:
            continue
        evs = o.st.events
        for i, e in ev_of(o, 'DEL', 'CLEAR'):
            if e.kind == 'DEL':
                v = e.args[0]
                ok = False
                for j in range(i - 1, -1, -1):
                    x = evs[j]
                    if x.kind == 'DUMP' and (not x.args or v in x.args) and x.extra and x.extra.get('keys', ()) is not None:
                        ok = True
                        break
                    if x.kind in ('SET', 'DEL', 'CLEAR', 'CACHEOP'):
                        break
                what = 'entry %s is deleted from memory without being dumped to the archive first' % render(v)
                detail = 'DEL(%s) without DUMP' % render(v)
            else:
                ok = False
                seen_set = any(x.kind == 'SET' for x in evs[:i])
                if nocache and not seen_set:
                    ok = True   # W-NOCACHE0: everything resident was loaded from the archive in this call
                for j in range(i - 1, -1, -1):
                    x = evs[j]
                    if x.kind == 'DUMP' and not x.args:
                        ok = True
                        break
                    if x.kind in ('SET', 'CACHEOP'):
                        break
                what = 'the in-memory cache is cleared without a preceding full dump to the archive'
                detail = 'CLEAR without DUMP'
            ctx.ob('W-DROP', None, ok)
            if not ok:
                ctx.fail('W-DROP', wq(d), detail + ' archived=%s' % o.st.facts.get('archived'), what,
                         where(d, e.line), render_path(o))
    ctx.ob('W-DROP', d.name + ' paths')


def rule_W_ARCH(ctx, d, paths):
    """wrappers never call an archive mutator other than through cache.dump"""
    for o in paths:
        for i, e in ev_of(o, 'ARCHOP', 'CACHEOP', 'TOGGLE', 'REBIND'):
            ctx.ob('W-ARCH', None, False)
            ctx.fail('W-ARCH', wq(d), '%s %s' % (e.kind, render(e.args[0]) if e.args else ''),
                     'the wrapper performs %s(%s): archive contents/binding may only change through cache.dump' % (
                         e.kind, ', '.join(render(a) for a in e.args)),
                     where(d, e.line), render_path(o))
    ctx.ob('W-ARCH', d.name + ' paths')


# ---------------------------------------------------------------------------------------------
def overflow_test(pred):
    """if pred is (an equivalent of) len(cache) - maxsize > c, return ('ok'|'lax', lenterm, desc)"""
    neg = False
    p = pred
    while p[0] == 'not':
        neg = not neg
        p = p[1]
    if p[0] != 'cmp' or p[1] not in ('>', '>=', '<', '<='):
        return None
    op, a, b = p[1], p[2], p[3]

    def has_len(t):
        return contains_term(t, lambda x: x[0] == 'ev' and x[1] == 'len')

    def has_max(t):
        return contains_term(t, lambda x: x == MAXSIZE)
    if has_len(b) and has_max(a):
        a, b = b, a
        op = {'>': '<', '<': '>', '>=': '<=', '<=': '>='}[op]
    if not (has_len(a) and has_max(b)):
        return None
    if neg:
        op = {'>': '<=', '<': '>=', '>=': '<', '<=': '>'}[op]
    inverted = False
    if op in ('<', '<='):
        # `len <= maxsize` being False is the overflow: judge the complementary test
        op = {'<': '>=', '<=': '>'}[op]
        inverted = True
    # a = len + la ; b = maxsize + lb
    la = offset(a, lambda x: x[0] == 'ev' and x[1] == 'len')
    lb = offset(b, lambda x: x == MAXSIZE)
    lenterm = [t for t in subterms(a) if t[0] == 'ev' and t[1] == 'len'][0]
    if la is None or lb is None:
        return ('unknown', lenterm, render(pred), inverted)
    c = lb - la          # test is: len OP maxsize + c
    if op == '>':
        ok = c <= 0
    else:
        ok = c <= 1
    return ('ok' if ok else 'lax', lenterm, 'len(cache) %s maxsize%+d' % (op, c) if c else 'len(cache) %s maxsize' % op, inverted)


def offset(t, base):
    """t == base + k  ->  k ; None when not of that shape"""
    if base(t):
        return 0
    if t[0] == 'bin' and t[1] in ('+', '-'):
        l, r = t[2], t[3]
        if is_const(r) and isinstance(r[1], int):
            k = offset(l, base)
            if k is not None:
                return k + (r[1] if t[1] == '+' else -r[1])
        if t[1] == '+' and is_const(l) and isinstance(l[1], int):
            k = offset(r, base)
            if k is not None:
                return k + l[1]
    return None


class OvEvent(object):
    """a BRANCH event on an overflow test, with its truth normalised to 'the cache overflows'"""

    def __init__(self, e, inverted):
        self.line = e.line
        self.kind = e.kind
        overflow = (e.args[1] == C(True)) != inverted
        self.args = (e.args[0], C(overflow))


def overflow_branches(o):
    """[(index, event, verdict)] for BRANCH events that test len(cache) against maxsize"""
    out = []
    for i, e in ev_of(o, 'BRANCH'):
        t = overflow_test(e.args[0])
        if t is not None:
            out.append((i, OvEvent(e, t[3]), t))
    return out


def rule_W_CAP(ctx, d, paths):
    pm = pinned_maxsize(d)
    if pm is None:
        rule_W_INF(ctx, d, paths)
        return
    nocache = (pm == 0)
    for o in paths:
        evs = o.st.events
        obr = overflow_branches(o)
        # (b) threshold
        for i, e, t in obr:
            ok = t[0] == 'ok'
            ctx.ob('W-CAP-b', None, ok)
            if not ok:
                ctx.fail('W-CAP-b', wq(d), 'overflow test %s' % t[2],
                         'the overflow test "%s" is not true whenever len(cache) > maxsize' % t[2],
                         where(d, e.line), render_path(o))
        if o.kind != RETURN:
            continue
        # (a) reachability: after the last SET/LOAD an overflow test on a fresh len() is evaluated
        ins = ev_of(o, 'SET', 'LOAD')
        if ins:
            last = ins[-1][0]
            ok = False
            for i, e, t in obr:
                lenidx = [j for j, x in enumerate(evs) if x.kind == 'LEN' and x.val == t[1]]
                if i > last and lenidx and lenidx[0] > last:
                    ok = True
            ctx.ob('W-CAP-a', None, ok)
            if not ok:
                ctx.fail('W-CAP-a', wq(d), 'no overflow test after %s' % ins[-1][1].kind,
                         'a path inserts into the cache (%s) and returns without testing len(cache) against maxsize afterwards' % ins[-1][1].kind,
                         where(d, ins[-1][1].line), render_path(o))
        # (c) effect on the true branch
        for i, e, t in obr:
            if e.args[1] != C(True):
                continue
            later = evs[i + 1:]
            arch = o.st.facts.get('archived')
            purge = True if nocache else o.st.facts.get('purge')
            if nocache or (arch is True and purge is True):
                ok = any(x.kind == 'CLEAR' for x in later)
                what = 'overflow with purge enabled does not empty the in-memory cache'
            else:
                dels = [x for x in later if x.kind in ('DEL', 'DELMISS')]
                ok = bool(dels) and all(is_victim_term(x.args[0]) for x in dels)
                what = 'overflow does not remove any entry chosen by the eviction bookkeeping'
                if dels and not ok:
                    what = 'overflow removes %s, which is not a victim selected by the eviction bookkeeping' % render(dels[0].args[0])
                if any(x.kind == 'CLEAR' for x in later) and not dels:
                    ok = True   # clearing everything also satisfies the bound (policy rules judge the rest)
            ctx.ob('W-CAP-c', None, ok)
            if not ok:
                ctx.fail('W-CAP-c', wq(d), 'overflow branch archived=%s purge=%s: %s' % (arch, purge, what[:50]), what,
                         where(d, e.line), render_path(o))
        # no_cache: nothing stays resident
        if nocache:
            if ins:
                last = ins[-1][0]
                ok = any(x.kind == 'CLEAR' for x in evs[last + 1:])
                ctx.ob('W-NOCACHE0', None, ok)
                if not ok:
                    ctx.fail('W-NOCACHE0', wq(d), 'resident after %s' % ins[-1][1].kind,
                             'maxsize is pinned to 0 but a path returns with entries still resident (no clear after %s)' % ins[-1][1].kind,
                             where(d, ins[-1][1].line), render_path(o))
    # (d) victim source non-empty
    for o in paths:
        for i, e in ev_of(o, 'BKEMPTY'):
            ctx.ob('W-CAP-d', None, False)
            after_set = any(x.kind == 'SET' for x in o.st.events[:i])
            ctx.fail('W-CAP-d', wq(d), '%s.%s on possibly empty queue%s' % (render(e.args[0]), e.args[1][1], ' after SET' if after_set else ''),
                     'victim selection %s.%s() is reached with no insertion into that queue on the path: on an empty queue it raises '
                     'IndexError%s' % (render(e.args[0]), e.args[1][1], ' after the new entry was stored, so nothing is evicted' if after_set else ''),
                     where(d, e.line), render_path(o))
    ctx.ob('W-CAP-d', d.name + ' paths')
    ctx.ob('W-CAP-a', d.name + ' paths')


def rule_W_INF(ctx, d, paths):
    for o in paths:
        for i, e in ev_of(o, 'DEL', 'DELMISS', 'CLEAR'):
            ctx.ob('W-INF', None, False)
            ctx.fail('W-INF', wq(d), '%s in unbounded cache' % e.kind,
                     'maxsize is pinned to None (never evicts) but the wrapper removes entries (%s)' % e.kind,
                     where(d, e.line), render_path(o))
    ctx.ob('W-INF', d.name + ' paths')


def rule_W_BK(ctx, d, paths, label=None):
    """whenever the cache is cleared, every bookkeeping structure is cleared on the same path"""
    construct = label or wq(d)
    for o in paths:
        if o.kind != RETURN:
            continue
        evs = o.st.events
        for i, e in ev_of(o, 'CLEAR'):
            for b in d.bk:
                ok = False
                for x in evs[i + 1:]:
                    if x.kind == 'BK' and x.args[0] == b:
                        if x.args[1] == C('clear'):
                            ok = True
                        break
                if not ok:
                    # cleared just before the cache (order within the call does not matter)
                    for x in reversed(evs[:i]):
                        if x.kind == 'BK' and x.args[0] == b:
                            ok = x.args[1] == C('clear')
                            break
                        if x.kind in ('SET', 'GET', 'EVAL'):
                            break
                ctx.ob('W-BK', None, ok)
                if not ok:
                    ctx.fail('W-BK', construct, 'CLEAR without %s.clear()' % d.bkname(b),
                             'the cache is emptied but the eviction bookkeeping "%s" is not: its stale keys become the next victims '
                             '(deleting them is a swallowed KeyError, so nothing is evicted)' % d.bkname(b),
                             where(d, e.line), render_path(o))
    ctx.ob('W-BK', construct)


def rule_W_BKUNBOUNDED(ctx, d):
    """W-BK (the bookkeeping containers discard nothing on their own): a `deque(maxlen=n)` drops an element from the opposite end whenever one is added to a full
    queue.  The wrappers keep the uses of the keys (and a sentinel during compaction) in that queue and pair every element with a reference count: a silently
    dropped element is a recorded use that is lost - the key it named is ranked by an older use or not ranked at all - and the counts no longer match the queue."""
    fn = d.call_fi.node
    n = 0
    for x in ast.walk(fn):
        if isinstance(x, ast.Call) and ((isinstance(x.func, ast.Name) and x.func.id == 'deque') or (isinstance(x.func, ast.Attribute) and x.func.attr == 'deque')):
            n += 1
            bounded = any(k.arg == 'maxlen' and not (isinstance(k.value, ast.Constant) and k.value.value is None) for k in x.keywords) or len(x.args) > 1 \
                or any(k.arg is None for k in x.keywords)
            ctx.ob('W-BK', '%s: the queue built at line %d is unbounded' % (d.name, x.lineno), not bounded)
            if bounded:
                ctx.fail('W-BK', d.qual, 'bounded recency queue %s' % unparse(x)[:40],
                         '%s keeps the order of use in `%s`: a bounded deque silently discards the element at the other end when one is added to a full queue '
                         '(appendleft of the compaction sentinel drops the use recorded last, append drops the oldest use without touching its reference count), '
                         'so a recorded use is lost and the entry evicted next is no longer the one the policy names' % (d.name, unparse(x)[:60]), where(d, x.lineno))
    return n


def rule_W_BKRES(ctx, d, paths):
    """bookkeeping only ever names resident keys: the current key is recorded only after it was found or stored"""
    K = d.K()
    for o in paths:
        evs = o.st.events
        for i, e in enumerate(evs):
            if e.kind == 'BK' and e.args[1] in (C('append'), C('appendleft'), C('inc'), C('set')) and len(e.args) > 2 and e.args[2] == K:
                ok = any(x.kind in ('GET', 'SET') and x.args[0] == K for x in evs[:i])
                ctx.ob('W-BKRES', None, ok)
                if not ok:
                    ctx.fail('W-BKRES', wq(d), '%s.%s(K) before K is resident' % (d.bkname(e.args[0]), e.args[1][1]),
                             'the eviction bookkeeping "%s" records the current key before it is known to be resident (no successful lookup or store of K earlier on the '
                             'path): when the function then raises, or the key is never stored, a phantom entry stays behind - a later overflow selects it, the delete is '
                             'a swallowed KeyError, and nothing is evicted' % d.bkname(e.args[0]), where(d, e.line), render_path(o))
    ctx.ob('W-BKRES', d.name + ' paths')


# ---------------------------------------------------------------------------------------------
def hit_paths(o, K):
    """classify a normal path: 'hit' | 'load' | 'miss' | 'fallback' | None"""
    evs = o.st.events
    if any(e.kind == 'EVAL' for e in evs):
        return 'fallback' if is_fallback(o, [i for i, e in enumerate(evs) if e.kind == 'EVAL'][0]) else 'miss'
    for i, e in enumerate(evs):
        if e.kind == 'GET' and e.args[0] == K:
            loaded = any(x.kind == 'LOAD' for x in evs[:i])
            return 'load' if loaded else 'hit'
    return None


def rule_W_HITPURE(ctx, d, paths):
    if pinned_maxsize(d) == 0:
        ctx.note('%s: maxsize pinned to 0, no hit path exists (every retrieved result is a load) - W-HITPURE not applicable' % d.qual)
        return
    K = d.K()
    for o in paths:
        if o.kind != RETURN or hit_paths(o, K) != 'hit':
            continue
        bad = ev_of(o, 'DEL', 'DELMISS', 'CLEAR', 'DUMP', 'SET')
        ok = not bad
        ctx.ob('W-HITPURE', None, ok)
        if not ok:
            e = bad[0][1]
            ctx.fail('W-HITPURE', wq(d), 'hit path performs %s' % e.kind,
                     'a call answered from memory (hit) performs %s: a hit must not remove or rewrite anything' % e.kind,
                     where(d, e.line), render_path(o))
    ctx.ob('W-HITPURE', d.name + ' paths')


def rule_W_STAT(ctx, d, paths):
    K = d.K()
    if d.stats is None and getattr(d, 'stats_shared', None) is not None:
        ctx.ob('W-STAT', d.name + ' counters per function', False)
        ctx.fail('W-STAT', d.qual + '.__call__', 'statistics vector is decorator state %s' % render(d.stats_shared),
                 'the hit/miss/load counters reported by info() live on the decorator object (%s) instead of being created for each decorated function: '
                 'two functions decorated with the same decorator object share one set of counters, so info() of one counts calls of the other and '
                 'clear() of one zeroes the other' % render(d.stats_shared), where(d, d.call_fi.node.lineno))
        return
    if d.stats is None or len(d.stat_index) < 3:
        raise AnalysisError('%s: cannot resolve the statistics vector through info()' % d.qual)
    nocache = pinned_maxsize(d) == 0
    for o in paths:
        # the statistics are the vector info() reports; another counter cell of the closure (an evictions count with an accessor of its own) is not part of them
        stats = [(i, e) for i, e in ev_of(o, 'STAT', 'STATSET', 'STATRESET') if not (e.kind == 'STAT' and e.args and is_bk(e.args[0]) and e.args[0] != d.stats)]
        if o.kind == RAISE:
            if any(e.kind == 'EVALRAISE' for e in o.st.events):
                ok = not stats
                ctx.ob('W-STAT', None, ok)
                if not ok:
                    ctx.fail('W-STAT', wq(d), 'counter changed on a raising call',
                             'the wrapped function raises but a statistics counter was already changed',
                             where(d, stats[0][1].line), render_path(o))
            continue
        cls = hit_paths(o, K)
        want = {'hit': 'hit', 'load': 'load', 'miss': 'miss', 'fallback': 'miss'}.get(cls)
        if nocache and cls == 'hit':
            want = 'load'
        good = len(stats) == 1 and stats[0][1].kind == 'STAT' and stats[0][1].args[0] == d.stats \
            and stats[0][1].args[2] == C('+') and stats[0][1].args[3] == C(1) and is_const(stats[0][1].args[1])
        field = d.stat_index.get(stats[0][1].args[1][1]) if good else None
        ok = good and want is not None and field == want
        ctx.ob('W-STAT', None, ok)
        if not ok:
            if not good:
                msg = 'a completed call changes the statistics %d times (expected exactly one "+= 1")' % len(stats)
                detail = '%d stat updates on a %s path' % (len(stats), cls)
            else:
                msg = 'a call with outcome "%s" increments the counter that info() reports as "%s"' % (cls, field)
                detail = 'outcome %s booked as %s' % (cls, field)
            ctx.fail('W-STAT', wq(d), detail, msg, where(d, stats[0][1].line if stats else o.line), render_path(o))
    ctx.ob('W-STAT', d.name + ' paths')


def rule_W_DROP_DUMPFAIL(ctx, d):
    """W-DROP when the write-back fails: `cache.dump(...)` raises when the archive cannot take the entry.  The entry that was to be written is then
    still the only copy: no path removes it (or clears the cache) after a failed dump - a `finally` that deletes the victim anyway loses it."""
    d.model.dump_fail = True
    try:
        paths = d.wrapper_paths()
    finally:
        d.model.dump_fail = False
    n = 0
    for o in paths:
        evs = o.st.events
        for i, e in enumerate(evs):
            if e.kind != 'DUMPFAIL':
                continue
            n += 1
            keys = (e.extra or {}).get('keys') or ()
            bad = None
            for x in evs[i + 1:]:
                if x.kind == 'CLEAR' and not keys:
                    bad = x
                elif x.kind == 'CLEAR':
                    bad = x
                elif x.kind in ('DEL', 'POP') and x.args and (not keys or x.args[0] in keys):
                    bad = x
                if bad is not None:
                    break
            ctx.ob('W-DROP', None, bad is None)
            if bad is not None:
                ctx.fail('W-DROP', wq(d), 'entry removed after its write-back failed',
                         'on the path where cache.dump(%s) raises (the archive could not take the entry) the wrapper still removes %s from memory (%s at line %d): the '
                         'result exists nowhere any more and is evaluated again on the next call' % (
                             ', '.join(render(k) for k in keys), 'it' if keys else 'everything', bad.kind, bad.line), where(d, bad.line), render_path(o))
                break
    ctx.ob('W-DROP', d.name + ' paths with a failed write-back (%d)' % n)


def rule_W_STAT_STOREFAIL(ctx, d):
    """W-STAT when the store fails: the cache object may be an archive itself, and `cache[key] = result` then raises for a result that cannot be
    encoded.  A call that nevertheless completes (a handler took the failure) is still counted exactly once."""
    if d.stats is None:
        return
    d.model.store_fail = True
    try:
        paths = d.wrapper_paths()
    finally:
        d.model.store_fail = False
    n = 0
    for o in paths:
        if o.kind != RETURN or not any(e.kind == 'SETERR' and e.args[1] == C('StoreError') for e in o.st.events):
            continue
        n += 1
        stats = [e for i, e in ev_of(o, 'STAT', 'STATSET', 'STATRESET')]
        ok = len(stats) == 1 and stats[0].kind == 'STAT' and stats[0].args[0] == d.stats and stats[0].args[2] == C('+') and stats[0].args[3] == C(1)
        ctx.ob('W-STAT', None, ok)
        if not ok:
            ctx.fail('W-STAT', wq(d), 'completed call with a failed store counted %d times' % len(stats),
                     'when storing the result fails (the cache is an archive and the result cannot be encoded) and a handler lets the call complete, the '
                     'statistics are changed %d times instead of once: hit + miss + load no longer equals the number of completed calls' % len(stats),
                     where(d, o.line or d.wrapper_node.lineno), render_path(o))
    ctx.ob('W-STAT', d.name + ' completed calls with a failed store (%d paths)' % n)


IFACE_PARAMS = {'clear': ('keepstats',), 'info': (), 'archive': ('obj',), 'key': (), 'lookup': (), '__cache__': (), '__mask__': (), '__map__': ()}


def run_closure(d, name):
    v = d.iface.get(name)
    if v is None:
        return None, None
    node = d.closure_node(v[0])
    if node is None:
        return None, v
    return d.run(node, known=IFACE_PARAMS.get(name)), v


def rule_W_INFO(ctx, d):
    fields = list(d.stat_index.values())
    v = d.info_call
    ok = v is not None and len(v[2]) == 5 and not v[3]
    if ok:
        a = v[2]
        idx = [x[2][1] if (x[0] == 'sub' and x[1] == d.stats and is_const(x[2])) else None for x in a[:3]]
        ok = None not in idx and len(set(idx)) == 3
        ok = ok and (a[3] == MAXSIZE or (is_const(a[3]) and 'maxsize' in d.state_consts and a[3][1] == d.state_consts['maxsize']))
        ok = ok and a[4][0] == 'ev' and a[4][1] == 'len'
    ctx.ob('W-INFO', d.name, bool(ok))
    if not ok:
        line = d.iface.get('info', (None, d.call_fi.node.lineno))[1]
        ctx.fail('W-INFO', cq(d, 'info'), 'CacheInfo arguments %s' % (render(v) if v else 'missing'),
                 'info() does not build CacheInfo(stats[hit], stats[miss], stats[load], maxsize, len(cache)): %s' % (render(v) if v else 'no CacheInfo call found'),
                 where(d, line))


def rule_W_CLEAR(ctx, d):
    outs, v = run_closure(d, 'clear')
    if outs is None:
        raise AnalysisError('%s: clear() closure not found' % d.qual)
    node = d.closure_node(v[0])
    ctx.analysed(cq(d, node.name))
    ctx.add_paths(outs, cq(d, node.name))
    params = [a.arg for a in node.args.args]
    keep = ('param', params[0]) if params else None
    for o in outs:
        if o.kind != RETURN:
            ctx.ob('W-CLEAR', None, False)
            ctx.fail('W-CLEAR', cq(d, node.name), 'clear() can raise %s' % o.exc, 'clear() can raise %s' % o.exc, where(d, o.line), render_path(o))
            continue
        evs = o.st.events
        has_clear = any(e.kind == 'CLEAR' for e in evs)
        ctx.ob('W-CLEAR', d.name + ' CLEAR', has_clear)
        if not has_clear:
            ctx.fail('W-CLEAR', cq(d, node.name), 'no cache.clear()',
                     'clear() does not empty the in-memory cache (entries loaded by load() stay resident and info().size stays non-zero)',
                     where(d, node.lineno), render_path(o))
        for b in d.bk:
            okb = any(e.kind == 'BK' and e.args[0] == b and e.args[1] == C('clear') for e in evs)
            ctx.ob('W-CLEAR', d.name + ' bk', okb)
            if not okb:
                ctx.fail('W-CLEAR', cq(d, node.name), 'no %s.clear()' % d.bkname(b),
                         'clear() leaves the eviction bookkeeping "%s" populated' % d.bkname(b), where(d, node.lineno), render_path(o))
        resets = [e for e in evs if e.kind == 'STATRESET']
        good_reset = [e for e in resets if e.args[0] == d.stats and e.args[1] == ('slice', NONE, NONE, NONE)
                      and e.args[2][0] == 'list' and len(e.args[2][1]) == 3 and all(x == C(0) for x in e.args[2][1])]
        # element-wise form: every counter set to 0 (stats[0] = stats[1] = stats[2] = 0; also what `nonlocal` counters normalise to)
        elem0 = [e for e in evs if e.kind == 'STATSET' and e.args[0] == d.stats and is_const(e.args[1]) and e.args[2] == C(0)]
        if len(d.stat_index) >= 3 and set(e.args[1][1] for e in elem0) >= set(d.stat_index) and not good_reset:
            good_reset = elem0[:1]
        else:
            elem0 = []
        other = [e for e in evs if e.kind in ('STAT', 'STATSET') and e not in elem0 and not (e.args and is_bk(e.args[0]) and e.args[0] != d.stats)] \
            + [e for e in resets if e not in good_reset]       # (a counter cell that info() does not report is not one of the statistics)
        # truth of keepstats on this path
        kt = o.st.facts.get('truth', {}).get(keep) if keep else None
        if kt is True:
            ok = not resets and not other
            msg = 'clear(keepstats=True) changes the statistics'
        elif kt is False:
            ok = len(good_reset) == 1 and not other
            msg = 'clear() does not reset all three counters to zero'
        else:
            ok = len(good_reset) == 1 and not other and keep is None
            msg = 'clear() does not decide the statistics reset on keepstats'
        ctx.ob('W-CLEAR', d.name + ' stats', ok)
        if not ok:
            ctx.fail('W-CLEAR', cq(d, node.name), 'stats reset keepstats=%s' % kt, msg, where(d, node.lineno), render_path(o))
    rule_W_BK(ctx, d, outs, cq(d, node.name))


def rule_W_EXC(ctx, d, paths):
    for o in paths:
        raised = ev_of(o, 'EVALRAISE')
        if not raised:
            continue
        i, e = raised[0]
        tok = e.args[0][1]
        bad = [x for x in o.st.events if x.kind in MUTATIONS]
        ok = not bad and o.kind == RAISE and o.exc == tok
        ctx.ob('W-EXC', None, ok)
        if not ok:
            if o.kind != RAISE or o.exc != tok:
                msg = 'an exception (%s) raised by the wrapped function is swallowed or replaced by the wrapper' % tok
                detail = 'EVALRAISE %s does not propagate' % tok
            else:
                msg = 'the wrapped function raises but the wrapper has already performed %s' % bad[0].kind
                detail = 'EVALRAISE after %s' % bad[0].kind
            ctx.fail('W-EXC', wq(d), detail, msg, where(d, e.line), render_path(o))
    ctx.ob('W-EXC', d.name + ' paths')


def rule_W_SAFE(ctx, d, paths):
    if d.modname != 'safe':
        return
    want_a = (('star', d.ARGS),)
    want_k = (('dstar', d.KWDS),)
    for o in paths:
        uh = ev_of(o, *UNHASH)
        if not uh:
            continue
        i, e = uh[0]
        evals = ev_of(o, 'EVAL')
        evr = ev_of(o, 'EVALRAISE')
        if evr:
            continue    # the function itself raised in the fallback: propagates (C16 first sentence)
        ok = o.kind == RETURN and len(evals) == 1 and o.val == evals[0][1].val \
            and evals[0][1].extra['args'] == want_a and evals[0][1].extra['kws'] == want_k
        ctx.ob('W-SAFE', None, ok)
        if not ok:
            ctx.fail('W-SAFE', wq(d), '%s(%s) not degraded to plain evaluation' % (e.kind, e.args[-1][1] if e.args else ''),
                     'a key that is unhashable / cannot be encoded (%s at %s) makes the safe wrapper %s instead of evaluating the function and returning its result' % (
                         e.kind, where(d, e.line), 'raise ' + str(o.exc) if o.kind == RAISE else 'return something else'),
                     where(d, e.line), render_path(o))
    ctx.ob('W-SAFE', d.name + ' paths')
    ctx.require_instances('W-SAFE', 1, 'unhashable edges')


def rule_W_LOOKUP(ctx, d):
    K = d.K()
    for name in ('key', 'lookup'):
        outs, v = run_closure(d, name)
        if outs is None and v is not None and name == 'key':
            # key built by klepto.keygen(...)(user_function): the decorator's whole key configuration must be handed over
            kg = [t for t in subterms(v[0]) if t[0] == 'call' and t[1][0] == 'lib' and libname(t[1]) == 'keygen']
            if kg:
                t = kg[0]
                kws = dict((k[1], k[2]) for k in t[3] if k[0] == 'kw')
                missing = [p_ for p_ in ('keymap', 'tol', 'deep') if kws.get(p_) != ('role', p_)]
                if not any(contains_term(a_, lambda x: x == ('role', 'ignore')) for a_ in t[2]):
                    missing.append('ignore')
                ok = not missing and any(contains_term(v[0], lambda x: x == FN) for _ in (0,))
                ctx.ob('W-LOOKUP', '%s.key built by keygen with the full key configuration' % d.name, ok)
                if not ok:
                    ctx.fail('W-LOOKUP', wq(d), 'key() built by keygen without %s' % ', '.join(missing),
                             'the key() handle is klepto.keygen(...)(f) configured without the decorator\'s %s: it computes the key with keygen\'s default for that '
                             'setting, so for a cache created with it (e.g. deep=True and a tolerance: floats inside containers) f.key(*args) is not the key the wrapper '
                             'stores under, and f.__cache__()[f.key(...)] fails for a resident call' % ', '.join(missing), where(d, v[1]))
                continue
        if outs is None:
            raise AnalysisError('%s: %s() closure not found' % (d.qual, name))
        node = d.closure_node(v[0])
        ctx.analysed(cq(d, node.name))
        ctx.add_paths(outs, cq(d, node.name))
        a = node.args
        if a.args or not a.vararg or not a.kwarg:
            ctx.ob('W-LOOKUP', None, False)
            ctx.fail('W-LOOKUP', cq(d, node.name), 'signature', '%s() does not take (*args, **kwds)' % name, where(d, node.lineno))
            continue
        # same roles as the wrapper: rename params
        ren = {('param', a.vararg.arg): d.ARGS, ('param', a.kwarg.arg): d.KWDS}
        saw_keyerror = False
        for o in outs:
            for e in o.st.events:
                if e.kind == 'FNPASS' and e.args[0][1] in may_evaluate(d.repo):
                    ctx.ob('W-LOOKUP', None, False)
                    ctx.fail('W-LOOKUP', cq(d, node.name), '%s() hands the function to %s' % (name, e.args[0][1]),
                             '%s() passes the wrapped function to %s(), which can evaluate it (its fallback for callables whose signature cannot be inspected '
                             'calls func(*args, **kwds)): introspection must never run the function' % (name, e.args[0][1]), where(d, e.line), render_path(o))
            bad = [e for e in o.st.events if e.kind in MUTATIONS or e.kind in ('EVAL', 'EVALRAISE', 'LOAD')]
            ok = not bad
            ctx.ob('W-LOOKUP', None, ok)
            if not ok:
                ctx.fail('W-LOOKUP', cq(d, node.name), '%s() performs %s' % (name, bad[0].kind),
                         '%s() performs %s: introspection must not evaluate the function or change any state' % (name, bad[0].kind),
                         where(d, bad[0].line), render_path(o))
            if o.kind == RETURN:
                val = rename(o.val, ren)
                if name == 'key':
                    ok = val == K
                    msg = 'key() returns %s, not the canonical key the wrapper stores under' % render(val)
                else:
                    gets = [e for e in o.st.events if e.kind == 'GET']
                    ok = len(gets) == 1 and rename(gets[0].args[0], ren) == K and o.val == gets[0].val
                    msg = 'lookup() does not return the value stored under the canonical key'
                ctx.ob('W-LOOKUP', '%s.%s' % (d.name, name), ok)
                if not ok:
                    ctx.fail('W-LOOKUP', cq(d, node.name), '%s() result %s' % (name, render(val)), msg, where(d, o.line), render_path(o))
            elif o.kind == RAISE and o.exc == 'KeyError' and any(e.kind == 'GETMISS' for e in o.st.events):
                saw_keyerror = True
            elif o.kind == RAISE and o.exc == 'KeyError' and name == 'lookup' and any(e.kind == 'GET' for e in o.st.events) \
                    and not any(e.kind in ('GETMISS', 'CAUGHT') for e in o.st.events):
                ctx.ob('W-LOOKUP', None, False)
                ctx.fail('W-LOOKUP', cq(d, node.name), 'KeyError although an entry was found',
                         'lookup() raises KeyError on a path where the cache returned an entry for the key (the value is tested, e.g. `is None`): a call whose stored '
                         'result is None is resident and served as a hit, yet lookup() reports it as not stored', where(d, o.line), render_path(o))
            elif o.kind == RAISE and o.exc == 'KeyError' and name == 'lookup' and not any(e.kind in ('GET', 'GETMISS', 'GETERR') for e in o.st.events) \
                    and not any(e.kind in UNHASH for e in o.st.events):
                # KeyError is lookup()'s way of saying "nothing stored": it may only come from asking the cache
                ctx.ob('W-LOOKUP', None, False)
                why = 'a lock that could not be taken at once' if any(e.kind == 'LOCKBUSY' for e in o.st.events) else 'a test that does not consult the cache'
                ctx.fail('W-LOOKUP', cq(d, node.name), 'KeyError without asking the cache',
                         'lookup() raises KeyError on a path that never looked the key up in the cache (%s): a resident result is reported as not stored' % why,
                         where(d, o.line), render_path(o))
        if name == 'lookup':
            ctx.ob('W-LOOKUP', d.name + '.lookup KeyError', saw_keyerror)
            if not saw_keyerror:
                ctx.fail('W-LOOKUP', cq(d, node.name), 'KeyError does not escape',
                         'lookup() does not raise KeyError when nothing is resident for the call', where(d, node.lineno))


_MAYEVAL = {}


def may_evaluate(repo):
    """names of klepto._inspect functions that can call the function they are given (decided on the dependence interpretation: some call
    site's callee may carry the first parameter), transitively"""
    if id(repo) in _MAYEVAL:
        return _MAYEVAL[id(repo)]
    from .deps import DepEngine
    m = repo.mod('_inspect')
    direct = set()
    calls = {}
    for name, fi in m.functions.items():
        a = fi.node.args
        pos = [x.arg for x in a.posonlyargs + a.args]
        if not pos:
            continue
        lab = 'P:' + pos[0]
        eng = DepEngine(m, field_roots=set([lab, lab + '.func']), inline=False)
        try:
            eng.run(fi.node, fi.qual, {})
        except AnalysisError:
            direct.add(name)       # cannot be judged: assume it may
            continue
        for s in eng.sites:
            if s.kind != 'call' or s.val is None:
                continue
            if any(L in (lab, lab + '.func', lab + '.__call__') for L in s.val.v):
                direct.add(name)
            if s.callee in m.functions and s.args and any(lab in x.v for x in s.args[:1]):
                calls.setdefault(name, set()).add(s.callee)
    changed = True
    while changed:
        changed = False
        for name, cs in calls.items():
            if name not in direct and cs & direct:
                direct.add(name)
                changed = True
    _MAYEVAL[id(repo)] = direct
    return direct


def rename(v, ren):
    if not isinstance(v, tuple):
        return v
    if v in ren:
        return ren[v]
    return tuple(rename(x, ren) for x in v)


def rule_W_IFACE(ctx, d):
    missing = [n for n in IFACE if n not in d.iface]
    ctx.ob('W-IFACE', d.name + ' attrs', not missing)
    if missing:
        ctx.fail('W-IFACE', wq(d), 'missing interface %s' % ','.join(missing), 'wrapper lacks interface attributes %s' % missing,
                 where(d, d.call_fi.node.lineno))
    expect = {'__wrapped__': FN, 'load': ('bound', CACHE, 'load'), 'dump': ('bound', CACHE, 'dump'),
              'archived': ('bound', CACHE, 'archived')}
    for k, want in expect.items():
        if k in d.iface:
            ok = d.iface[k][0] == want
            ctx.ob('W-IFACE', '%s.%s' % (d.name, k), ok)
            if not ok:
                ctx.fail('W-IFACE', wq(d), '%s = %s' % (k, render(d.iface[k][0])),
                         'wrapper.%s is %s, expected %s' % (k, render(d.iface[k][0]), render(want)), where(d, d.iface[k][1]))
    rets = {'__cache__': CACHE, '__mask__': IGNORE, '__map__': KEYMAP}
    for k, want in rets.items():
        outs, v = run_closure(d, k)
        if outs is None:
            continue
        node = d.closure_node(v[0])
        ctx.analysed(cq(d, node.name))
        ok = all(o.kind == RETURN and o.val == want and not [e for e in o.st.events if e.kind in MUTATIONS] for o in outs)
        ctx.ob('W-IFACE', '%s.%s' % (d.name, k), ok)
        if not ok:
            ctx.fail('W-IFACE', cq(d, node.name), '%s() returns %s' % (k, render(outs[0].val) if outs else '?'),
                     '%s() does not return %s' % (k, render(want)), where(d, node.lineno))
    # archive(obj) may only rebind the archive
    outs, v = run_closure(d, 'archive')
    if outs is not None:
        node = d.closure_node(v[0])
        ctx.analysed(cq(d, node.name))
        for o in outs:
            bad = [e for e in o.st.events if e.kind in MUTATIONS and e.kind != 'REBIND']
            reb = [e for e in o.st.events if e.kind == 'REBIND']
            ok = not bad and len(reb) == 1 and reb[0].args[0] == C('archive') and o.kind == RETURN
            ctx.ob('W-IFACE', d.name + '.archive', ok)
            if not ok:
                ctx.fail('W-IFACE', cq(d, node.name), 'archive() events %s' % [e.kind for e in o.st.events if e.kind in MUTATIONS],
                         'archive(obj) must only rebind cache.archive', where(d, node.lineno), render_path(o))


def rule_W_UPDATER(ctx, d):
    """a module-local replacement for functools.update_wrapper must leave wrapper.__wrapped__ == the decorated function"""
    # update_wrapper(wrapper, X) ends with wrapper.__wrapped__ = X: X is the decorated function itself, not something derived from it
    for n_ in ast.walk(d.call_fi.node):
        src_arg = None
        if isinstance(n_, ast.Call) and unparse(n_.func).split('.')[-1] in ('update_wrapper',):
            src_arg = n_.args[1] if len(n_.args) >= 2 else next((k.value for k in n_.keywords if k.arg == 'wrapped'), None)
        elif isinstance(n_, ast.Call) and unparse(n_.func).split('.')[-1] == 'wraps' and d.module.imports.get(unparse(n_.func).split('.')[0], '').startswith('functools'):
            src_arg = n_.args[0] if n_.args else next((k.value for k in n_.keywords if k.arg == 'wrapped'), None)
        if src_arg is not None:
            n_ = ast.copy_location(ast.Call(func=n_.func, args=[None, src_arg], keywords=[]), n_)
            fnarg = d.call_fi.node.args.args[1].arg
            ok = isinstance(n_.args[1], ast.Name) and n_.args[1].id == fnarg
            ctx.ob('W-IFACE', '%s: update_wrapper(wrapper, %s)' % (d.name, fnarg), ok)
            if not ok:
                ctx.fail('W-IFACE', wq(d), 'update_wrapper(wrapper, %s)' % ' '.join(unparse(n_.args[1]).split())[:40],
                         'the wrapper is finished with update_wrapper(wrapper, %s): update_wrapper\'s last step sets wrapper.__wrapped__ to its second argument, overwriting '
                         'the assignment above - for a cached functools.partial (or whatever that expression strips) __wrapped__ is no longer the object the cache calls, '
                         'and f.__wrapped__(*args) computes something else than f(*args) stores' % ' '.join(unparse(n_.args[1]).split())[:40], where(d, n_.lineno))
    fi = d.module.functions.get('update_wrapper') or d.module.functions.get('wraps')
    umod = d.module
    if getattr(d, 'updater', None) is not None:
        umod, fi = d.updater
        d.repo.consulted.add(umod.rel.split('/')[-1][:-3]) if hasattr(d.repo, 'consulted') else None
    if fi is None:
        ctx.ob('W-IFACE', d.name + ' uses functools.update_wrapper', d.module.imports.get('update_wrapper', '').startswith('functools') or 'update_wrapper' not in unparse(d.call_fi.node))
        return
    node = fi.node
    params = [a.arg for a in node.args.args]
    if len(params) < 2:
        return
    w, f = params[0], params[1]
    generic, explicit = [], []
    for n in ast.walk(node):
        if isinstance(n, ast.Call):
            fn = n.func
            if isinstance(fn, ast.Attribute) and fn.attr == 'update' and w in unparse(fn.value) and '__dict__' in unparse(fn.value):
                # a filtered copy that leaves '__wrapped__' out cannot overwrite it
                excl = False
                for c in ast.walk(n):
                    if isinstance(c, ast.Compare) and any(isinstance(o, ast.NotIn) for o in c.ops):
                        for comp in c.comparators:
                            src = umod.consts.get(comp.id) if isinstance(comp, ast.Name) else comp
                            if src is not None and any(isinstance(x, ast.Constant) and x.value == '__wrapped__' for x in ast.walk(src)):
                                excl = True
                    if isinstance(c, ast.Compare) and any(isinstance(o, ast.NotEq) for o in c.ops) and any(
                            isinstance(x, ast.Constant) and x.value == '__wrapped__' for x in ast.walk(c)):
                        excl = True
                if not excl:
                    generic.append(n.lineno)
            # functools.update_wrapper / wraps set wrapper.__wrapped__ = wrapped (last thing they do)
            nm = fn.attr if isinstance(fn, ast.Attribute) else fn.id if isinstance(fn, ast.Name) else ''
            if nm == 'update_wrapper' and len(n.args) >= 2 and unparse(n.args[0]) == w and unparse(n.args[1]) == f and nm not in umod.functions:
                explicit.append(n.lineno)
            if isinstance(fn, ast.Name) and fn.id == 'setattr' and n.args and unparse(n.args[0]) == w:
                if len(n.args) > 1 and isinstance(n.args[1], ast.Constant):
                    if n.args[1].value == '__wrapped__' and len(n.args) > 2 and unparse(n.args[2]) == f:
                        explicit.append(n.lineno)
                else:
                    generic.append(n.lineno)
        if isinstance(n, ast.Assign):
            for t in n.targets:
                if isinstance(t, ast.Subscript) and '__dict__' in unparse(t.value) and w in unparse(t.value):
                    generic.append(n.lineno)
                if isinstance(t, ast.Attribute) and t.attr == '__wrapped__' and unparse(t.value) == w and unparse(n.value) == f:
                    explicit.append(n.lineno)
    ok = not generic or (explicit and max(explicit) > max(generic))
    ctx.ob('W-IFACE', d.name + ' local update_wrapper', ok)
    if not ok:
        ctx.fail('W-IFACE', '%s::%s' % (umod.rel, fi.name), 'local update_wrapper can overwrite __wrapped__',
                 'the package\'s own %s copies attributes of the decorated function into the wrapper (line %d) and does not re-assign wrapper.__wrapped__ = wrapped afterwards: '
                 'when the decorated function itself carries a __wrapped__ (functools.wraps, a rounding decorator, another cache) the outer __wrapped__ points at the innermost function'
                 % (fi.name, max(generic)), '%s:%d' % (umod.rel, node.lineno))


def rule_W_WRITERS(ctx, d):
    """who may write the cache: only wrapper and clear (and the re-exported load/dump)"""
    allowed = {}
    for k, (v, line) in d.iface.items():
        if v[0] == 'closure':
            # one closure attached under two names (wrapper.cache_clear = clear next to wrapper.clear = clear) has the role of its interface name
            if v not in allowed or (k in IFACE and allowed[v] not in IFACE):
                allowed[v] = k
    used_by_wrapper = set()
    for fn in [d.wrapper_node] + [d.closure_node(v) for v in allowed if d.closure_node(v) is not None]:
        for n in ast.walk(fn):
            if isinstance(n, ast.Name) and isinstance(n.ctx, ast.Load):
                used_by_wrapper.add(n.id)
    for name, v in d.env.items():
        if not (isinstance(v, tuple) and v and v[0] == 'closure'):
            continue
        if v == d.wrapper_val:
            continue
        if v not in allowed and name in used_by_wrapper:
            continue    # a local helper of the wrapper / an interface closure: its effects are judged where it is inlined
        node = d.closure_node(v)
        if node is None or isinstance(node, ast.Lambda):
            continue
        role = allowed.get(v)
        outs = d.run(node, known=IFACE_PARAMS.get(role))
        ctx.analysed(cq(d, node.name))
        for o in outs:
            writes = [e for e in o.st.events if e.kind in CACHE_WRITES + ('DUMP', 'ARCHOP', 'TOGGLE') or (e.kind == 'REBIND' and role != 'archive')]
            if role == 'clear':
                writes = [e for e in writes if e.kind != 'CLEAR']
            ok = not writes
            ctx.ob('W-WRITERS', '%s.%s' % (d.name, node.name), ok)
            if not ok:
                ctx.fail('W-WRITERS', cq(d, node.name), '%s performs %s' % (node.name, writes[0].kind),
                         'closure %s() (%s) performs %s on the cache: only the wrapper, clear() and cache.load/dump may change it' % (
                             node.name, 'interface ' + role if role else 'not part of the interface', writes[0].kind),
                         where(d, writes[0].line), render_path(o))


# ---------------------------------------------------------------------------------------------
# eviction policies
def rule_W_POL(ctx, d, paths):
    alg = d.name.split('_')[0]
    if alg == 'lru':
        pol_lru(ctx, d, paths)
    elif alg == 'mru':
        pol_mru(ctx, d, paths)
    elif alg == 'lfu':
        pol_lfu(ctx, d, paths)
    elif alg == 'rr':
        pol_rr(ctx, d, paths)


def accesses(o, K):
    """indices of successful accesses of K on a normal path: GET(K) ok, or SET(K, ..)"""
    return [(i, e) for i, e in enumerate(o.st.events) if e.kind in ('GET', 'SET') and e.args[0] == K]


def evict_region(o):
    """events after a true overflow branch (non-purge)"""
    for i, e, t in overflow_branches(o):
        if e.args[1] == C(True):
            return i
    return None


def pol_lru(ctx, d, paths):
    K = d.K()
    qs = [b for b in d.bk if b[2] == 'deque']
    ns = [b for b in d.bk if b[2] == 'counter']
    if len(qs) != 1 or len(ns) != 1:
        raise AnalysisError('%s: LRU bookkeeping (one deque + one counter) not recognised' % d.qual)
    Q, N = qs[0], ns[0]
    ends = set()
    for o in paths:
        if o.kind != RETURN:
            continue
        evs = o.st.events
        cls = hit_paths(o, K)
        if cls in ('hit', 'load', 'miss'):
            acc = accesses(o, K)
            i0 = acc[-1][0] if acc else 0
            rec = [(i, e) for i, e in enumerate(evs) if e.kind == 'BK' and e.args[0] == Q and e.args[1] in (C('append'), C('appendleft'))
                   and len(e.args) > 2 and e.args[2] == K and not e.loop]
            inc = [(i, e) for i, e in enumerate(evs) if e.kind == 'BK' and e.args[0] == N and e.args[1] == C('inc') and e.args[2] == K and e.args[3] == C(1)]
            # recorded exactly once, before any purge/eviction of this call
            reg = evict_region(o)
            ok = len(rec) == 1 and len(inc) == 1 and (reg is None or (rec[0][0] < reg and inc[0][0] < reg))
            ctx.ob('W-POL-LRU', None, ok)
            if ok:
                ends.add(rec[0][1].args[1][1])
            else:
                ctx.fail('W-POL-LRU', wq(d), '%s path records use %d times / refcount %d times' % (cls, len(rec), len(inc)),
                         'a %s does not record the key exactly once at the recent end of the queue with a paired refcount increment '
                         '(LRU would degrade to FIFO or the refcounts drift)' % cls,
                         where(d, acc[-1][1].line if acc else o.line), render_path(o))
    if len(ends) > 1:
        ctx.fail('W-POL-LRU', wq(d), 'uses recorded at both ends', 'uses are recorded at both ends of the queue: %s' % sorted(ends), where(d, d.wrapper_node.lineno))
    end = (sorted(ends) or ['append'])[0]
    victim_pop = 'popleft' if end == 'append' else 'pop'
    for o in paths:
        if o.kind != RETURN:
            continue
        evs = o.st.events
        dels = ev_of(o, 'DEL', 'DELMISS')
        for i, e in dels:
            v = e.args[0]
            src = [x for x in evs[:i] if x.kind == 'BK' and x.val == v]
            ok = bool(src) and src[0].args[0] == Q and src[0].args[1] == C(victim_pop) and not (src[0].extra or {}).get('driver')
            why = 'the LRU victim %s is not taken from the old end of the recency queue (%s.%s())' % (render(v), d.bkname(Q), victim_pop)
            if ok:
                # paired decrement, and refcount of the victim read as zero before deletion
                decs = [x for x in evs[:i] if x.kind == 'BK' and x.args[0] == N and x.args[1] == C('dec') and x.args[2] == v and x.args[3] == C(1)]
                zero = False
                for j in range(i - 1, -1, -1):
                    x = evs[j]
                    if x.kind == 'BRANCH' and x.args[0][0] == 'ev' and x.args[0][1] == 'bkget':
                        g = [y for y in evs[:j] if y.kind == 'BKGET' and y.val == x.args[0]]
                        if g and g[0].args[0] == N and g[0].args[1] == v:
                            zero = x.args[1] == C(False)
                        break
                    if x.kind == 'BRANCH' and decs and (decs[0].extra or {}).get('newval') == x.args[0]:
                        zero = x.args[1] == C(False)      # the decremented value itself (c = n[k] - 1; n[k] = c; if not c) was tested
                        break
                ok = len(decs) == 1 and zero
                why = 'the LRU victim is deleted without its refcount having been decremented once and found to be zero (a key with later uses would be evicted)'
            if ok:
                post = [x for x in evs[i:] if x.kind == 'BK' and x.args[0] == N and x.args[1] == C('popkey') and x.args[2] == v]
                # every earlier pop on this path (skipped duplicates) must also be decremented
                pops = [x for x in evs[:i] if x.kind == 'BK' and x.args[0] == Q and x.args[1] == C(victim_pop) and not (x.extra or {}).get('driver')]
                for p in pops:
                    dd = [x for x in evs[:i] if x.kind == 'BK' and x.args[0] == N and x.args[1] == C('dec') and x.args[2] == p.val]
                    if len(dd) != 1:
                        ok = False
                        why = 'a key popped from the queue while searching the victim is not decremented exactly once'
            ctx.ob('W-POL-LRU', None, ok)
            if not ok:
                ctx.fail('W-POL-LRU', wq(d), 'victim %s: %s' % (render(v), why[:60]), why, where(d, e.line), render_path(o))
        # compaction
        drv = [(i, e) for i, e in enumerate(evs) if e.kind == 'BK' and (e.extra or {}).get('driver')]
        if drv:
            i0 = drv[0][0]
            ok = all(e.args[0] == Q and e.args[1] == C('pop' if end == 'append' else 'popleft') for _, e in drv)
            why = 'queue compaction does not consume from the recent end'
            if ok:
                pre = evs[:i0]
                cl = [x for x in pre if x.kind == 'BK' and x.args[0] == N and x.args[1] == C('clear')]
                sen = [x for x in pre if x.kind == 'BK' and x.args[0] == Q and x.args[1] == C('appendleft' if end == 'append' else 'append')
                       and len(x.args) > 2 and x.args[2][0] == 'opaque']
                ok = bool(cl) and bool(sen)
                why = 'queue compaction does not reset the refcounts and mark the old end with the sentinel first'
            if ok:
                for i, e in drv:
                    if (e.extra or {}).get('sentinel'):
                        continue
                    v = e.val
                    nxt = evs[i + 1:]
                    # a key that already has its (more recent) occurrence kept - it is in the refcounts again - is skipped
                    has = [x for x in nxt if x.kind == 'BKHAS' and x.args[0] == N and x.args[1] == v]
                    if has and any(x.kind == 'BRANCH' and x.args[0] == has[0].val and x.args[1] == C(True) for x in nxt) \
                            and not [x for x in nxt if x.kind == 'BK' and x.args[0] == Q and len(x.args) > 2 and x.args[2] == v]:
                        continue
                    re_ins = [x for x in nxt if x.kind == 'BK' and x.args[0] == Q and len(x.args) > 2 and x.args[2] == v]
                    setc = [x for x in nxt if x.kind == 'BK' and x.args[0] == N and x.args[1] == C('set') and x.args[2] == v and x.args[3] == C(1)]
                    if not (len(re_ins) == 1 and re_ins[0].args[1] == C('appendleft' if end == 'append' else 'append') and len(setc) == 1):
                        ok = False
                        why = 'queue compaction does not re-insert each surviving key once at the old end with refcount 1 (recency order would change)'
            ctx.ob('W-POL-LRU', None, ok)
            if not ok:
                ctx.fail('W-POL-LRU', wq(d), 'compaction: ' + why[:60], why, where(d, drv[0][1].line), render_path(o))
    # compaction written as an ordered de-duplication: unique = dict.fromkeys(queue); queue.clear(); queue.extend(unique)
    for o in paths:
        if o.kind != RETURN:
            continue
        evs = o.st.events
        for i, e in enumerate(evs):
            if not (e.kind == 'BK' and e.args[0] == Q and e.args[1] in (C('extend'), C('extendleft')) and len(e.args) > 2):
                continue
            dd = [t for t in subterms(e.args[2]) if t[0] == 'dedupe' and t[1] == Q]
            if not dd:
                continue
            side = dd[0][2]
            rev = e.args[2][0] == 'call' and libname(e.args[2][1]) == 'reversed'
            # the survivors of dict.fromkeys are ordered by their FIRST occurrence seen from `side`; the occurrence that must survive is the
            # most recent one, i.e. the first seen from the recent end, and the rebuilt queue must again have the most recent key at that end
            recent_side = 'right' if end == 'append' else 'left'
            newest_first = (side == recent_side)          # survivors listed newest -> oldest
            seq_newest_first = newest_first != rev         # order in which they are fed to extend / extendleft
            # extend puts the first fed element leftmost; extendleft puts the first fed element rightmost
            leftmost_is_newest = seq_newest_first if e.args[1] == C('extend') else (not seq_newest_first)
            ok = newest_first and (leftmost_is_newest == (recent_side == 'left'))
            cleared = any(x.kind == 'BK' and x.args[0] == Q and x.args[1] == C('clear') for x in evs[:i])
            ok = ok and cleared
            # the reference counts must end at exactly one per surviving key: cleared before they are refilled - collections.Counter.update ADDS to what is there
            nup = [x for x in evs if x.kind == 'BK' and x.args[0] == N and x.args[1] == C('update')]
            ncl = [x for x in evs if x.kind == 'BK' and x.args[0] == N and x.args[1] == C('clear')]
            if ok and nup and not ncl and getattr(d.model, 'stdlib_counter', False):
                ctx.ob('W-POL-LRU', None, False)
                ctx.fail('W-POL-LRU', wq(d), 'compaction adds to the reference counts',
                         'after the recency queue was compacted to one occurrence per key the reference counts are refreshed with update() on a collections.Counter, '
                         'which adds to the old counts instead of replacing them: every old key then looks as if it still had later uses in the queue, the next '
                         'overflow skips them all and evicts the entry that was used most recently', where(d, nup[0].line), render_path(o))
                continue
            ctx.ob('W-POL-LRU', None, ok)
            if not ok:
                ctx.fail('W-POL-LRU', wq(d), 'compaction by de-duplication keeps the wrong occurrence',
                         'the recency queue is compacted with dict.fromkeys over the queue read from the %s: every key keeps its %s position, so after a '
                         'compaction the next overflow evicts a recently used entry instead of the least recently used one' % (
                             'old end' if not newest_first else 'recent end (but is rebuilt in reverse)', 'oldest' if not newest_first else 'wrong'),
                         where(d, e.line), render_path(o))
    # the compaction iterable itself: filterfalse(refcount.__contains__, iter(queue.pop, sentinel))
    comp = find_compaction_iter(d)
    ctx.ob('W-POL-LRU', d.name + ' compaction iterable', comp is not False)
    if comp is False:
        ctx.fail('W-POL-LRU', wq(d), 'compaction iterable', 'queue compaction does not skip keys already seen (filterfalse over refcount membership)',
                 where(d, d.wrapper_node.lineno))
    ctx.ob('W-POL-LRU', d.name)


def rule_W_COMPACT(ctx, d):
    """W-BK (compaction keeps counts and queue in step): the duplicate-skipping test of the LRU queue compaction runs interleaved with the re-insertion.
    Evaluated in one go beforehand it skips nothing: duplicates survive with count 1, later evictions pop keys that are no longer resident (a swallowed
    KeyError) and nothing leaves the cache."""
    if d.name != 'lru_cache':
        return
    comp = find_compaction_iter(d)
    ctx.ob('W-BK', d.name + ': the compaction filter is evaluated lazily', comp is not False)
    if comp is False:
        ctx.fail('W-BK', wq(d), 'compaction filter evaluated before the loop',
                 'the LRU queue compaction tests "already seen" for every queued key before it re-inserts the first one (an eagerly built list, or an iterable that is '
                 'not the duplicate-skipping filter): the counts are empty at that time, every occurrence is kept with count 1, and the evictions that follow pop keys '
                 'whose entry is already gone - the cache stays over its bound', where(d, d.wrapper_node.lineno))


def find_compaction_iter(d):
    """None: no compaction loop; True: recognised; False: present but not the duplicate-skipping form"""
    res = None
    # an eagerly built candidate list: `recent = [k for k in reversed(queue) if k not in refcount]` (or list(filterfalse(...))) evaluates every membership
    # test before the loop below records the first key - while the counts are all empty - so nothing is skipped and every duplicate survives with count 1
    eager = {}
    for n in ast.walk(d.wrapper_node):
        if isinstance(n, ast.Assign) and len(n.targets) == 1 and isinstance(n.targets[0], ast.Name):
            v = n.value
            built = isinstance(v, ast.ListComp) or (isinstance(v, ast.Call) and isinstance(v.func, ast.Name) and v.func.id in ('list', 'tuple', 'sorted') and v.args)
            if built:
                eager[n.targets[0].id] = v
    for n in ast.walk(d.wrapper_node):
        if isinstance(n, ast.For):
            it = n.iter
            if isinstance(it, ast.Call) and isinstance(it.func, ast.Name) and it.func.id == 'reversed' and it.args:
                it = it.args[0]
            cand = eager.get(it.id) if isinstance(it, ast.Name) else (it if isinstance(it, ast.ListComp) else None)
            if cand is not None:
                counters = set(unparse(t.value) for st_ in n.body for t in (st_.targets if isinstance(st_, ast.Assign) else []) if isinstance(t, ast.Subscript))
                tests = [y for y in ast.walk(cand) if (isinstance(y, ast.Compare) and any(isinstance(o, (ast.In, ast.NotIn)) for o in y.ops)
                                                       and any(unparse(c) in counters for c in y.comparators))
                         or (isinstance(y, ast.Attribute) and y.attr == '__contains__' and unparse(y.value) in counters)]
                if tests:
                    return False
            src = unparse(n.iter)
            if 'iter(' in src:
                res = False
                if isinstance(n.iter, ast.Call):
                    fn = n.iter.func
                    nm = fn.id if isinstance(fn, ast.Name) else getattr(fn, 'attr', '')
                    if nm == 'filterfalse' and len(n.iter.args) == 2:
                        a0 = n.iter.args[0]
                        if isinstance(a0, ast.Attribute) and a0.attr == '__contains__':
                            return True
                        if isinstance(a0, ast.Lambda):
                            return True
    return res


def pol_mru(ctx, d, paths):
    K = d.K()
    qs = [b for b in d.bk if b[2] in ('deque', 'odict')]
    if len(qs) != 1:
        raise AnalysisError('%s: MRU bookkeeping (one deque or ordered dict) not recognised' % d.qual)
    Q = qs[0]
    for o in paths:
        if o.kind != RETURN:
            continue
        evs = o.st.events
        cls = hit_paths(o, K)
        if cls not in ('hit', 'load', 'miss'):
            continue
        app = [(i, e) for i, e in enumerate(evs) if e.kind == 'BK' and e.args[0] == Q and e.args[1] in (C('append'), C('appendleft')) and len(e.args) > 2 and e.args[2] == K]
        ok = len(app) == 1
        why = 'the key of a completed call is not recorded exactly once as most recently used'
        end = app[0][1].args[1][1] if ok else 'append'
        if ok and cls == 'hit':
            rem = [(i, e) for i, e in enumerate(evs) if e.kind in ('BK', 'BKMISS') and e.args[0] == Q and e.args[1] == C('remove') and len(e.args) > 2 and e.args[2] == K]
            ok = len(rem) == 1 and rem[0][0] < app[0][0]
            why = 'a hit does not move the key to the recent end of the queue (remove then append): stale positions would select wrong victims'
        if ok:
            pop = 'pop' if end == 'append' else 'popleft'
            for i, e in ev_of(o, 'DEL', 'DELMISS'):
                v = e.args[0]
                src = [(j, x) for j, x in enumerate(evs[:i]) if x.kind == 'BK' and x.val == v]
                tested_empty = any(x.kind == 'BKTEST' and x.args[0] == Q and x.args[1] == C(False) for x in evs[:i])
                if tested_empty and not src and contains_term(v, lambda t: t[0] == 'ev' and t[1] == 'keys'):
                    continue    # no recency information at all (e.g. after a bulk load): any resident key may go
                if not (src and src[0][1].args[0] == Q and src[0][1].args[1] == C(pop)):
                    ok = False
                    why = 'the MRU victim %s is not taken from the recent end of the queue (%s.%s())' % (render(v), d.bkname(Q), pop)
                elif not (src[0][0] < app[0][0]):
                    ok = False
                    why = 'the MRU victim is selected after the current key was recorded: the entry just inserted would be evicted'
        ctx.ob('W-POL-MRU', None, ok)
        if not ok:
            ctx.fail('W-POL-MRU', wq(d), '%s path: %s' % (cls, why[:60]), why, where(d, o.line), render_path(o))
    ctx.ob('W-POL-MRU', d.name)


def is_count_key(kwv):
    """key=itemgetter(1) or a lambda selecting component 1"""
    if kwv[0] == 'call' and libname(kwv[1]) == 'itemgetter' and kwv[2] == (C(1),):
        return True
    if kwv[0] == 'lambda':
        src = kwv[2].replace(' ', '')
        return src.endswith('[1]') or src.endswith('[-1]')
    return False


def lfu_victim_source(term, N, truth=None):
    """is `term` the n>=1 smallest of N.items() by count (truth: the path's facts - `n > 0` may have been tested by a loop guard)"""
    t = term
    if t[0] == 'iter':
        t = t[1]
    # sorted(...)[:n]
    if t[0] == 'sub' and t[2][0] == 'slice' and t[1][0] == 'call' and libname(t[1][1]) == 'sorted':
        n = lower_bound(t[2][2]) if t[2][1] == NONE else None
        c = t[1]
        keyok = any(k[0] == 'kw' and k[1] == 'key' and is_count_key(k[2]) for k in c[3])
        rev = any(k[0] == 'kw' and k[1] == 'reverse' and k[2] != C(False) for k in c[3])
        src = c[2][0] if c[2] else None
        return n is not None and n >= 1 and keyok and not rev and src is not None and has_items_view(src, N)
    if t[0] != 'call':
        return False
    ln = libname(t[1])
    if ln == 'nsmallest' and len(t[2]) >= 2:
        n = lower_bound(t[2][0])
        if (n is None or n < 1) and truth:
            for tt, b in truth.items():
                if b is True and tt[0] == 'cmp' and ((tt[1] == '>' and tt[2] == t[2][0] and tt[3] == C(0)) or (tt[1] == '>=' and tt[2] == t[2][0] and tt[3] == C(1))):
                    n = 1
        keyok = any(k[0] == 'kw' and k[1] == 'key' and is_count_key(k[2]) for k in t[3]) or (len(t[2]) > 2 and is_count_key(t[2][2]))
        return n is not None and n >= 1 and keyok and has_items_view(t[2][1], N)
    return False


def has_items_view(src, N):
    # a filtered comprehension over the items may leave out lower counts (and may be empty although the counter is not)
    if contains_term(src, lambda x: x[0] == 'comp' and len(x) > 3):
        return False
    return contains_term(src, lambda x: x[0] == 'bkview' and x[1] == N and x[2] == 'items')


def pol_lfu(ctx, d, paths):
    K = d.K()
    ns = [b for b in d.bk if b[2] == 'counter']
    if len(ns) != 1:
        raise AnalysisError('%s: LFU bookkeeping (one counter) not recognised' % d.qual)
    N = ns[0]
    for o in paths:
        if o.kind != RETURN:
            continue
        evs = o.st.events
        cls = hit_paths(o, K)
        if cls in ('hit', 'load', 'miss'):
            reg = evict_region(o)
            inc = [(i, e) for i, e in enumerate(evs) if e.kind == 'BK' and e.args[0] == N and e.args[1] == C('inc') and e.args[2] == K and e.args[3] == C(1)]
            ok = len(inc) == 1 and (reg is None or inc[0][0] < reg)
            ctx.ob('W-POL-LFU', None, ok)
            if not ok:
                ctx.fail('W-POL-LFU', wq(d), '%s path increments use count %d times' % (cls, len(inc)),
                         'a %s does not increment the use count of the key exactly once before eviction is decided' % cls,
                         where(d, o.line), render_path(o))
        for i, e in ev_of(o, 'DEL', 'DELMISS'):
            v = e.args[0]
            ok = v[0] == 'proj' and v[1] == 0 and lfu_victim_source(v[2], N, o.st.facts.get('truth', {}))
            why = 'the LFU victim %s is not one of the n>=1 entries of %s.items() with the smallest count' % (render(v), d.bkname(N))
            if ok:
                drop = [x for x in evs[i:] if x.kind == 'BK' and x.args[0] == N and x.args[1] in (C('popkey'), C('del')) and x.args[2] == v]
                ok = len(drop) >= 1
                why = 'the use count of an evicted key is not dropped with it (a re-inserted key would inherit its old frequency)'
            ctx.ob('W-POL-LFU', None, ok)
            if not ok:
                ctx.fail('W-POL-LFU', wq(d), 'victim %s: %s' % (render(v), why[:50]), why, where(d, e.line), render_path(o))
    ctx.ob('W-POL-LFU', d.name)


def pol_rr(ctx, d, paths):
    for o in paths:
        if o.kind != RETURN:
            continue
        evs = o.st.events
        dels = ev_of(o, 'DEL', 'DELMISS')
        if not dels:
            continue
        ok = len(dels) == 1
        why = 'random replacement removes %d entries in one call (exactly one is advertised)' % len(dels)
        if ok:
            v = dels[0][1].args[0]
            ok = contains_term(v, lambda t: t[0] == 'ev' and t[1] == 'keys') and v[0] == 'call' and libname(v[1]) in ('choice',)
            why = 'the RR victim %s is not drawn from the cache\'s own key set' % render(v)
        ctx.ob('W-POL-RR', None, ok)
        if not ok:
            ctx.fail('W-POL-RR', wq(d), 'victim: ' + why[:60], why, where(d, dels[0][1].line), render_path(o))
    ctx.ob('W-POL-RR', d.name)


# ---------------------------------------------------------------------------------------------
# __new__/__init__/__reduce__
class PlainModel(Model):
    """no roles: used for __new__/__init__/__reduce__ dataflow"""

    def __init__(self, module):
        Model.__init__(self)
        self.module = module

    def global_name(self, name, st):
        m = self.module
        if name in m.imports:
            return ('lib', m.imports[name])
        if name in m.classes_by_name:
            return ('lib', '%s.%s' % (m.rel, name))
        if name in m.functions:
            return ('lib', '%s.%s' % (m.rel, name))
        return None

    def attr_store(self, obj, attr, val, st, node):
        st.emit('SELFSET', (obj, C(attr), val), getattr(node, 'lineno', 0))
        return [R(st, NONE)]

    def sub_load(self, obj, idx, st, node):
        if obj == ('attr', SELF, '__state__') and is_const(idx):
            return [R(st, ('state', idx[1]))]
        return None

    def call(self, f, args, kws, st, node):
        # setattr(obj, 'name', value) with a constant name is obj.name = value
        if f == ('lib', 'setattr') and len(args) == 3 and not kws and is_const(args[1]) and isinstance(args[1][1], str) and self.engine is not None:
            return self.engine.attr_store(args[0], args[1][1], args[2], st, node)
        # helper functions of the same module are part of the code under analysis: inline them
        if f[0] == 'lib' and f[1].startswith(self.module.rel + '.'):
            ln = f[1][len(self.module.rel) + 1:]
            fi = self.module.functions.get(ln)
            if fi is not None and self.engine is not None:
                return self.engine.inline(fi.node, ln, {}, args, kws, st, node)
        # a self-contained helper imported from a sibling module of the package (safe.py using _cache._delegate): it refers to nothing but its parameters
        if f[0] == 'lib' and getattr(self, 'inline_siblings', False) and getattr(self.module, 'repo', None) is not None and self.engine is not None:
            parts = f[1].lstrip('.').split('.')
            mine = self.module.rel.split('/')[-1][:-3]
            if len(parts) >= 2 and parts[-2] in self.module.repo.modules and parts[-2] != mine:
                ofi = self.module.repo.modules[parts[-2]].functions.get(parts[-1])
                if ofi is not None:
                    import builtins as _b
                    a_ = ofi.node.args
                    bound = set(x.arg for x in a_.posonlyargs + a_.args + a_.kwonlyargs)
                    for extra_ in (a_.vararg, a_.kwarg):
                        if extra_:
                            bound.add(extra_.arg)
                    for n_ in ast.walk(ofi.node):
                        if isinstance(n_, ast.Name) and isinstance(n_.ctx, ast.Store):
                            bound.add(n_.id)
                    free = [n_.id for n_ in ast.walk(ofi.node) if isinstance(n_, ast.Name) and isinstance(n_.ctx, ast.Load)
                            and n_.id not in bound and not hasattr(_b, n_.id)]
                    if not free:
                        return self.engine.inline(ofi.node, parts[-1], {}, args, kws, st, node)
        return None


def _is_marker(d, name):
    """a module-level `NAME = object()`: a private "not given" marker (equals neither 0 nor None, immutable, never handed out)"""
    for mod_ in [d.module] + list(getattr(getattr(d.module, 'repo', None), 'modules', {}).values()):
        cv = mod_.consts.get(name)
        if isinstance(cv, ast.Call) and isinstance(cv.func, ast.Name) and cv.func.id == 'object' and not cv.args:
            return True
    return False


def marker_params(d, fnode):
    """{parameter: ('global', marker)} for the parameters of a constructor whose default is such a marker: an alias / opt-in keyword that existing callers
    never pass.  The constructor is judged with these at their defaults (the alias spelling is a new feature, not part of what the property quantifies over)"""
    a = fnode.args
    out = {}
    pairs = list(zip(a.args[len(a.args) - len(a.defaults):], a.defaults)) + [(x, dv) for x, dv in zip(a.kwonlyargs, a.kw_defaults) if dv is not None]
    for arg_, dv in pairs:
        if isinstance(dv, ast.Name) and _is_marker(d, dv.id):
            out[arg_.arg] = ('global', dv.id)
    return out


def rule_W_NEW(ctx, d, parts=('dispatch', 'forward'), only=None):
    init = d.ci.methods.get('__init__')
    new = d.ci.methods.get('__new__')
    _pm = PlainModel(d.module)
    _pm.inline_siblings = True       # the maxsize dispatch may live in a helper shared by _cache.py and safe.py
    eng = Engine(_pm, unroll=1)
    iparams = [a.arg for a in init.node.args.args]
    outs = eng.run_function(init.node, {}, params=dict(marker_params(d, init.node), **{iparams[0]: SELF}))
    ctx.analysed(init.qual)
    early = []
    for o in outs:
        if o.kind == RETURN and not any(e.kind == 'SELFSET' and e.args[1] == C('__state__') for e in o.st.events):
            early.append(o)
    if not early:
        ctx.ob('W-NEW', d.name + ' (no early return)')
        return
    # __init__ may leave __state__ unset on some path: __new__ must have dispatched in exactly those cases
    if new is None:
        ctx.ob('W-NEW', d.name, False)
        ctx.fail('W-NEW', init.qual, 'early return without __new__', '__init__ can return without setting __state__ and there is no __new__ dispatch',
                 where(d, init.node.lineno))
        return
    ctx.analysed(new.qual)
    # which parameter does the early return depend on?
    dep = set()
    for o in early:
        for e in o.st.events:
            if e.kind == 'BRANCH':
                for t in subterms(e.args[0]):
                    if t[0] == 'param':
                        dep.add(t[1])
    na = new.node.args
    nparams = [a.arg for a in na.args]
    nouts = eng.run_function(new.node, {})
    tested = []
    for o in nouts:
        for e in o.st.events:
            if e.kind == 'BRANCH':
                tested.append(e.args[0])
    for p in (sorted(dep) if 'dispatch' in parts else []):
        pos = iparams.index(p) - 1 if p in iparams else None
        ok = False
        why = ''
        if p in nparams:
            ok = any(contains_term(t, lambda x: x == ('param', p)) for t in tested)
            why = '__new__ has parameter %s but does not test it' % p
        else:
            kw = na.kwarg.arg if na.kwarg else None
            va = na.vararg.arg if na.vararg else None
            # extra named parameters of __new__ before *args shift the positional index
            shift = len(nparams) - 1
            kwsrc = any(contains_term(t, lambda x: kw_lookup(x, kw, p)) for t in tested) if kw else False
            possrc = any(contains_term(t, lambda x: pos_lookup(x, va, pos - shift)) for t in tested) if (va and pos is not None) else False
            ok = kwsrc and possrc
            missing = []
            if not kwsrc:
                missing.append('keyword %s=' % p)
            if not possrc:
                missing.append('positional argument %d' % (pos if pos is not None else -1))
            why = '__new__ decides the no_cache/inf_cache dispatch without looking at %s, but __init__ returns early (leaving the ' \
                  'decorator without __state__) whenever %s is 0 or None however it was passed' % (' and '.join(missing), p)
        ctx.ob('W-NEW', '%s.%s' % (d.name, p), ok)
        if not ok:
            ctx.fail('W-NEW', new.qual, 'dispatch ignores %s' % ('/'.join(missing) if p not in nparams else p), why, where(d, new.node.lineno))
    # an omitted maxsize must not be taken for one of the dispatched values: kwds.get('maxsize') without a default yields None = "unbounded"
    if 'dispatch' in parts and na.kwarg:
        kwn = na.kwarg.arg
        for p in sorted(dep):
            if p in nparams:
                continue
            for t in tested:
                for x in subterms(t):
                    if kw_lookup(x, kwn, p) and x[0] == 'call':
                        dflt = x[2][1] if len(x[2]) > 1 else NONE
                        # kwds.get('maxsize', kwds.get('size', -1)): the default is the lookup of an alias keyword - the innermost default decides
                        while dflt[0] == 'call' and dflt[1][0] == 'attr' and dflt[1][1] == ('param', kwn) and dflt[1][2] == 'get' and dflt[2] and is_const(dflt[2][0]):
                            dflt = dflt[2][1] if len(dflt[2]) > 1 else NONE
                        ok = is_const(dflt) and dflt[1] is not None and dflt[1] != 0
                        if not ok and dflt[0] in ('global', 'lib'):
                            # a private marker object (`_NOTGIVEN = object()`) equals neither 0 nor None
                            gname = dflt[1].split('.')[-1] if isinstance(dflt[1], str) else None
                            for mod_ in [d.module] + list(getattr(d.repo, 'modules', {}).values()):
                                cv = mod_.consts.get(gname) if gname else None
                                if isinstance(cv, ast.Call) and isinstance(cv.func, ast.Name) and cv.func.id == 'object' and not cv.args:
                                    ok = True
                                    break
                        ctx.ob('W-NEW', '%s default of omitted %s' % (d.name, p), ok)
                        if not ok:
                            ctx.fail('W-NEW', new.qual, 'omitted %s read as %s' % (p, render(dflt)),
                                     '__new__ looks the keyword %s up with default %s: a decorator built without %s is dispatched like %s=%s (to the unbounded / non-caching '
                                     'class) instead of getting the documented default bound' % (p, render(dflt), p, p, render(dflt)), where(d, new.node.lineno))
    # forwarding: a dispatch to a sibling decorator class hands over every setting that class honours
    va = ('param', na.vararg.arg) if na.vararg else None
    kw = ('param', na.kwarg.arg) if na.kwarg else None
    for o in nouts:
        if o.kind != RETURN or o.val[0] != 'call' or o.val[1][0] != 'lib' or not o.val[1][1].startswith(d.module.rel + '.'):
            continue
        tname = o.val[1][1][len(d.module.rel) + 1:]
        tcis = d.module.classes_by_name.get(tname)
        if not tcis or '__init__' not in tcis[0].methods:
            continue
        tinit = tcis[0].methods['__init__'].node
        tparams = [a.arg for a in tinit.args.args][1:]
        pinned = set()
        for stt in tinit.body:
            if isinstance(stt, ast.Assign) and len(stt.targets) == 1 and isinstance(stt.targets[0], ast.Name) and isinstance(stt.value, ast.Constant):
                pinned.add(stt.targets[0].id)
        cargs, ckws = o.val[2], o.val[3]
        wholesale = (va is not None and ('star', va) in cargs) and (kw is not None and any(k[0] == 'dstar' and k[1] == kw for k in ckws))
        lost = []
        if not wholesale:
            for i, tp in enumerate(tparams):
                if tp in pinned or tp not in iparams:
                    continue
                passed = any(k[0] == 'kw' and k[1] == tp and k[2] == ('param', tp) for k in ckws) or \
                    (i < len(cargs) and cargs[i] == ('param', tp))
                if not passed and (only is None or tp in only):
                    lost.append(tp)
        if 'forward' not in parts:
            continue
        ctx.ob('W-NEW', '%s -> %s forwards settings' % (d.name, tname), not lost)
        if lost:
            ctx.fail('W-NEW', new.qual, 'dispatch to %s drops %s' % (tname, ','.join(lost)),
                     '__new__ hands the construction over to %s but does not forward %s: %s(maxsize=0/None, %s=...) silently falls back to the default %s' % (
                         tname, ', '.join(lost), d.name, lost[0], lost[0]), where(d, new.node.lineno), render_path(o))


def _stale_terms(v, out):
    """sub-terms that snapshot the state of the cache object: a state predicate, or a call on / with the cache"""
    if not isinstance(v, tuple) or not v:
        return
    if v[0] == 'pred':
        out.append(v)
        return
    if v[0] == 'call' and len(v) > 2:
        f = v[1]
        on_cache = isinstance(f, tuple) and f and f[0] == 'attr' and f[1] == ('role', 'cache')
        with_cache = any(a == ('role', 'cache') for a in (v[2] or ()))
        if on_cache or with_cache:
            out.append(v)
            return
    for x in v[1:]:
        if isinstance(x, tuple):
            _stale_terms(x, out)


def rule_W_FRESH(ctx, d):
    """W-FRESH: the wrapper consults the cache's state (is an archive attached, how many entries are resident) at the time of the call.
    A value computed from the cache object once, when the function is decorated, and then read by the closures is a stale snapshot: the
    archive can be attached, detached or swapped afterwards (f.archive(obj), cache.archived(False)), and the per-call decisions - load
    before evaluating, dump before evicting - then follow the old state."""
    fn = d.call_fi.node
    used = set()
    for node in ast.walk(fn):
        if isinstance(node, (ast.FunctionDef, ast.Lambda)) and node is not fn:
            for x in ast.walk(node):
                if isinstance(x, ast.Name) and isinstance(x.ctx, ast.Load):
                    used.add(x.id)
    n = 0
    for k, v in d.env.items():
        if not isinstance(v, tuple) or v[0] == 'closure':
            continue
        n += 1
        st = []
        _stale_terms(v, st)
        ok = not (st and k in used)
        ctx.ob('W-FRESH', '%s.__call__ local %s' % (d.name, k), ok)
        if not ok:
            ctx.fail('W-FRESH', d.qual, 'stale snapshot %s = %s' % (k, render(v)[:50]),
                     '%s.__call__ computes `%s` from the state of the cache object (%s) once, at decoration time, and the closures it returns read that '
                     'snapshot on every call: after the archive is attached, detached or replaced (f.archive(obj), cache.archived(False)) the wrapper still '
                     'acts on the old state - it skips the load before evaluating (a retrievable result is computed again) or the dump before evicting'
                     % (d.name, k, render(st[0])[:50]), where(d, fn.lineno))
    if n < 5:
        raise AnalysisError('instance count below confirmed minimum: %d locals bound in %s.__call__ (< 5)' % (n, d.qual))


def rule_W_STATE(ctx, d, keys=('maxsize', 'purge'), allow_default=False):
    """the configured bound and purge flag are stored as given: on every path of __init__ that fills __state__, state[k] is the constructor
    parameter k itself, or one constant the class pins k to on all paths (no_cache: maxsize 0).  A value decided at construction time from the
    run-time condition of the cache (e.g. purge switched off because no archive is attached *yet*) freezes a setting the user can still change
    through f.archive(...)."""
    init = d.ci.methods.get('__init__')
    # a default value is evaluated once, when the class is defined: an object built there (keymap=hashmap(flat=True), cache={}) is shared by every decorator
    # that does not pass its own - settings changed through one function's keymap then change the keys of all the others
    ia = init.node.args
    for arg_, dv in list(zip(ia.args[len(ia.args) - len(ia.defaults):], ia.defaults)) + [(a_, v_) for a_, v_ in zip(ia.kwonlyargs, ia.kw_defaults) if v_ is not None]:
        okd = isinstance(dv, ast.Constant) or (isinstance(dv, ast.UnaryOp) and isinstance(dv.operand, ast.Constant)) or \
            (isinstance(dv, ast.Tuple) and all(isinstance(e_, ast.Constant) for e_ in dv.elts)) or (isinstance(dv, ast.Name) and dv.id in ('None', 'True', 'False')) or \
            (isinstance(dv, ast.Name) and _is_marker(d, dv.id))
        ctx.ob('W-STATE', '%s.__init__ default of %s is a constant' % (d.name, arg_.arg), okd)
        if not okd:
            ctx.fail('W-STATE', init.qual, 'shared default object for %s' % arg_.arg,
                     '%s.__init__ declares `%s=%s`: the default is one object created at class definition and shared by all decorators built without that argument. '
                     'Keymaps and caches are mutable (f.__map__() hands the keymap out; its typed / sentinel settings can be assigned): reconfiguring it through one cached '
                     'function changes the keys the others compute, so their key() / lookup() no longer find what they stored' % (d.name, arg_.arg, unparse(dv)[:40]),
                     where(d, init.node.lineno))
    eng = Engine(PlainModel(d.module), unroll=1)
    iparams = [a.arg for a in init.node.args.args]
    outs = eng.run_function(init.node, {}, params=dict(marker_params(d, init.node), **{iparams[0]: SELF}))
    seen = {}
    npaths = 0
    for o in outs:
        if o.kind != RETURN:
            continue
        sets = [e for e in o.st.events if e.kind == 'SELFSET' and e.args[1] == C('__state__')]
        if not sets:
            continue
        npaths += 1
        stt = sets[-1].args[2]
        vals = dict((k[1], v) for k, v in stt[1] if k is not None and is_const(k)) if stt[0] == 'dict' else {}
        for k in keys:
            seen.setdefault(k, []).append((vals.get(k), o))
    if npaths == 0:
        raise AnalysisError('%s: no path of __init__ fills __state__' % init.qual)
    for k in keys:
        vs = seen.get(k, [])
        distinct = []
        for v, o in vs:
            if v not in distinct:
                distinct.append(v)
        ok = len(distinct) == 1 and distinct[0] is not None and (distinct[0] == ('param', k) or is_const(distinct[0]))
        def normalised(v):
            # helper(param[, constants]): the argument passed through a module-level function of nothing else (a normaliser that drains a one-shot iterator,
            # wraps a bare name); wrapper, key() and lookup() all read this one stored value
            if not (v is not None and v[0] == 'call' and v[1][0] in ('lib', 'opaque', 'global') and v[2] and v[2][0] == ('param', k)
                    and all(is_const(a) for a in v[2][1:]) and all(kw[0] == 'kw' and is_const(kw[2]) for kw in v[3])):
                return False
            # ... which hands its argument back on every path (as it is, wrapped or drained): a path that answers with something that does not contain the
            # argument - `if not ignore: return ()` - replaces legal falsy values (ignore=0 selects the first positional) and is no normaliser
            hname = libname(v[1]) if v[1][0] == 'lib' else v[1][-1]
            repo_ = getattr(d.module, 'repo', None)
            cands = [m_.functions[hname] for m_ in (repo_.modules.values() if repo_ is not None else [d.module]) if hname in m_.functions]
            if len(cands) != 1 or not cands[0].node.args.args:
                return False
            hfi = cands[0]
            hp = ('param', hfi.node.args.args[0].arg)
            try:
                houts = Engine(PlainModel(hfi.module if hasattr(hfi, 'module') else d.module), unroll=1).run_function(hfi.node, {})
            except Exception:
                return False
            for ho in houts:
                if ho.kind != RETURN:
                    continue
                isnone_ = ho.st.facts.get('truth', {}).get(('cmp', 'is', hp, NONE))
                if not contains_term(ho.val, lambda t: t == hp) and isnone_ is not True:
                    return False
            return True
        if not ok and allow_default and any(normalised(v) for v in distinct):
            vs = [(('param', k) if normalised(v) else v, o) for v, o in vs]
            distinct = []
            for v, o in vs:
                if v not in distinct:
                    distinct.append(v)
        if not ok and allow_default:
            # the parameter itself, or a constructed default - but only on a path where the parameter `is None`: replacing it whenever it is
            # falsy would also replace legal falsy values (ignore=0 selects the first positional)
            ok = ('param', k) in distinct
            for v, o in vs:
                if v == ('param', k):
                    continue
                isnone = o.st.facts.get('truth', {}).get(('cmp', 'is', ('param', k), NONE))
                if v is None or contains_term(v, lambda t: t[0] == 'param') or isnone is not True:
                    ok = False
        ctx.ob('W-STATE', '%s.%s' % (d.name, k), ok)
        if not ok:
            bad = [(v, o) for v, o in vs if v != ('param', k)]
            v, o = bad[0] if bad else vs[0]
            ctx.fail('W-STATE', init.qual, 'state %s is not the constructor argument' % k,
                     '%s.__init__ stores %s = %s on some path instead of the %s the caller passed: the setting is decided from run-time conditions at '
                     'construction time (e.g. whether an archive is attached yet) and stays frozen when those conditions change' % (d.name, k, render(v) if v else 'nothing', k),
                     where(d, init.node.lineno), render_path(o))


def kw_lookup(x, kw, name):
    if x[0] == 'call' and x[1][0] == 'attr' and x[1][1] == ('param', kw) and x[1][2] in ('get', 'pop') and x[2] and x[2][0] == C(name):
        return True
    if x[0] == 'sub' and x[1] == ('param', kw) and x[2] == C(name):
        return True
    return False


def pos_lookup(x, va, pos):
    if x[0] == 'sub' and x[1] == ('param', va) and x[2] == C(pos):
        return True
    return False


def rule_W_RED(ctx, d):
    red = d.ci.methods.get('__reduce__')
    init = d.ci.methods.get('__init__')
    if red is None:
        ctx.ob('W-RED', d.name, False)
        ctx.fail('W-RED', d.qual, 'no __reduce__', 'decorator class has no __reduce__', d.ci.where)
        return
    ctx.analysed(red.qual)
    eng = Engine(PlainModel(d.module), unroll=1)
    outs = eng.run_function(red.node, {}, params={red.node.args.args[0].arg: SELF})
    iparams = [a.arg for a in init.node.args.args][1:]
    # table-driven / helper-built argument tuples: evaluate the builder partially (constants concrete, instance state symbolic)
    pe_args = None
    try:
        from .peval import PEval, Sym, Unknown
        pv = PEval(red.module, cls=d.ci).run(red.node)
        if isinstance(pv, tuple) and len(pv) >= 2 and pv[0] == Sym('class') and isinstance(pv[1], tuple):
            pe_args = tuple(('state', x.key[1]) if (isinstance(x, Sym) and x.key[0] == 'state') else
                            (C(x) if isinstance(x, (int, str, bool, type(None), float)) else ('unknown', repr(x))) for x in pv[1])
    except Unknown:
        pe_args = None
    for o in outs:
        ok = o.kind == RETURN and o.val[0] == 'tuple' and len(o.val[1]) >= 2 and o.val[1][0] == ('attr', SELF, '__class__') \
            and o.val[1][1][0] == 'tuple'
        if not ok and o.kind == RETURN and pe_args is not None:
            ok = True
            o.val = ('tuple', (('attr', SELF, '__class__'), ('tuple', pe_args)))
        bad = None
        if ok:
            args = o.val[1][1][1]
            if len(args) > len(iparams):
                ok = False
                bad = 'more arguments than __init__ parameters'
            for i, a in enumerate(args[:len(iparams)]):
                p = iparams[i]
                want_state = ('state', p)
                if a == want_state:
                    continue
                if is_const(a) and p in d.state_consts and d.state_consts[p] == a[1]:
                    continue
                ok = False
                bad = 'argument %d is %s, __init__ expects %s there' % (i, render(a), p)
                break
            if ok and len(args) < len(iparams):
                # remaining parameters take their defaults: only sound when the state holds the default
                for p in iparams[len(args):]:
                    ok = False
                    bad = 'parameter %s is not passed (an unpickled decorator would fall back to the default)' % p
        else:
            bad = 'does not return (self.__class__, (args...))'
        ctx.ob('W-RED', d.name, ok)
        if not ok:
            ctx.fail('W-RED', red.qual, '__reduce__: %s' % bad, '__reduce__ %s' % bad, where(d, red.node.lineno))


PICKLE_HOOKS = ('__reduce__', '__reduce_ex__', '__getstate__', '__setstate__', '__copy__', '__deepcopy__', '__getnewargs__', '__getnewargs_ex__')
CONTAINER_BASES = ('dict', 'list', 'set', 'deque', 'Counter', 'OrderedDict', 'defaultdict', 'odict')


def rule_W_BKPICKLE(ctx, repo):
    """W-LOCAL (bookkeeping travels whole): the recency queue, the reference / use counters and the statistics of a wrapper are plain containers, copied
    and pickled element for element.  A container class of the decorator modules that customises pickling or copying hands the clone a different
    bookkeeping state than the original has - the invariants between the structures (refcount[k] = occurrences of k in the queue) then fail in the clone,
    and its later evictions differ."""
    from .decorators import DECORATOR_MODULES
    n = 0
    for modname in DECORATOR_MODULES:
        m = repo.mod(modname)
        for ci in m.classes.values():
            bases = []
            for b in ci.node.bases:
                nm = unparse(b)
                nm = m.imports.get(nm, nm)          # from collections import deque as _deque
                bases.append(nm.split('.')[-1])
                # a class of this module that itself extends a container
                oc = m.classes.get(nm) or getattr(m, 'classes_by_name', {}).get(nm)
                if oc is not None:
                    bases.extend(m.imports.get(unparse(x), unparse(x)).split('.')[-1] for x in oc.node.bases)
            if not any(b in CONTAINER_BASES for b in bases):
                continue
            n += 1
            own = getattr(ci, 'own_methods', None) or ci.methods
            hooks = sorted(h for h in PICKLE_HOOKS if h in own)
            ctx.ob('W-LOCAL', '%s::%s is pickled / copied as the plain container it extends' % (m.rel, ci.name), not hooks)
            if hooks:
                ctx.fail('W-LOCAL', ci.qual, 'container class customises %s' % ', '.join(hooks),
                         'the bookkeeping container class %s defines %s: a pickled or copied wrapper receives what that hook returns instead of the container\'s contents, '
                         'so the clone\'s queue / counters no longer agree with each other (e.g. refcount[k] versus the occurrences of k in the queue) and its later '
                         'evictions differ from the original\'s' % (ci.name, ', '.join(hooks)), '%s:%d' % (m.rel, own[hooks[0]].node.lineno))
    ctx.ob('W-LOCAL', 'container classes of the decorator modules examined', True, n=max(1, n))


PROCESS_BOUND_CALLS = ('getpid', 'getppid', 'get_ident', 'get_native_id', 'current_thread', 'current_process', 'time', 'monotonic', 'perf_counter', 'time_ns', 'uuid1', 'uuid4', 'gethostname', 'getcwd')


def rule_W_CELLS(ctx, d):
    """W-LOCAL (what a closure cell holds is pickled by value): the locals of __call__ that the closures read are the cache, the configuration and the
    plain bookkeeping containers.  A *view* or iterator of such a container (use_count.items()) is pickled as a view of a copy - the clone ranks
    victims by counts frozen at dump time - and a function of the `random` module bound at decoration time is a bound method of the process-wide
    generator, pickled with a copy of its state - the clone stops following random.seed()."""
    fn = d.call_fi.node
    used = set()
    for node in ast.walk(fn):
        if isinstance(node, (ast.FunctionDef, ast.Lambda)) and node is not fn:
            for x in ast.walk(node):
                if isinstance(x, ast.Name) and isinstance(x.ctx, ast.Load):
                    used.add(x.id)
    for k, v in d.env.items():
        if not isinstance(v, tuple) or k not in used:
            continue
        why = None
        if contains_term(v, lambda t: t[0] == 'bkview'):
            why = 'a live view of a bookkeeping container'
        elif contains_term(v, lambda t: t[0] == 'lib' and t[1].split('.')[0] == 'random') or \
                contains_term(v, lambda t: t[0] == 'attr' and isinstance(t[1], tuple) and t[1][0] == 'lib' and t[1][1].split('.')[0] == 'random'):
            why = 'a function of the random module (a bound method of the process-wide generator)'
        elif contains_term(v, lambda t: t[0] == 'call' and t[1][0] == 'lib' and t[1][1].split('.')[-1] in PROCESS_BOUND_CALLS):
            why = 'the result of a call that identifies this process / thread / moment (%s)' % [t[1][1] for t in subterms(v) if t[0] == 'call' and t[1][0] == 'lib'
                                                                                           and t[1][1].split('.')[-1] in PROCESS_BOUND_CALLS][0]
        ctx.ob('W-LOCAL', '%s.__call__ cell %s' % (d.name, k), why is None)
        if why is not None:
            ctx.fail('W-LOCAL', d.qual + '.__call__', 'closure cell %s holds %s' % (k, why.split(' (')[0]),
                     '%s.__call__ binds `%s` = %s once and the closures read it on every call: %s is pickled by value, so the unpickled function works on a frozen copy '
                     '(victims ranked by the counts at dump time / its own forked random stream) and its evictions diverge from the original\'s under the same continuation'
                     % (d.name, k, render(v)[:40], why), where(d, fn.lineno))


def rule_W_LOCAL(ctx, d):
    """every mutable object the closures touch is a closure cell or reachable from __state__"""
    m = d.module
    nodes = [d.wrapper_node] + [d.closure_node(v[0]) for v in d.iface.values() if d.closure_node(v[0]) is not None]
    ok_all = True
    for fn in nodes:
        bound = set()
        for n in ast.walk(fn):
            if isinstance(n, ast.Name) and isinstance(n.ctx, (ast.Store, ast.Del)):
                bound.add(n.id)
            elif isinstance(n, ast.arg):
                bound.add(n.arg)
            elif isinstance(n, (ast.Import, ast.ImportFrom)):
                for a in n.names:
                    bound.add(a.asname or a.name.split('.')[0])
            elif isinstance(n, (ast.FunctionDef, ast.ClassDef)) and n is not fn:
                bound.add(n.name)      # a helper defined inside the closure (def _plain(): ...)
            elif isinstance(n, (ast.Global,)):
                ok_all = False
                ctx.fail('W-LOCAL', cq(d, fn.name), 'global statement', 'closure %s declares global state (%s): it is not carried by pickling the closure' % (fn.name, ','.join(n.names)), where(d, n.lineno))
        for n in ast.walk(fn):
            if isinstance(n, ast.Name) and isinstance(n.ctx, ast.Load) and n.id not in bound and n.id not in d.env:
                import builtins
                if hasattr(builtins, n.id):
                    continue
                # module level: functions, classes, imports are fine; data objects are shared mutable state
                if n.id in m.imports and m.imports[n.id].split('.')[0] == 'random' and m.imports[n.id] != 'random':
                    # from random import choice at module level: update_wrapper rewrites wrapper.__module__, so dill pickles the wrapper's globals by value -
                    # including this bound method of the process-wide generator, with a copy of its state
                    ok_all = False
                    ctx.fail('W-LOCAL', cq(d, fn.name), 'module-level binding of random.%s' % m.imports[n.id].split('.')[-1],
                             'closure %s reads `%s`, bound at module level to a function of the random module (a bound method of the hidden, process-wide generator): a '
                             'function pickled by value carries a copy of that generator, so the clone draws from a private, frozen stream and ignores random.seed() - it '
                             'evicts other entries than the original under the same continuation.  Imported inside the wrapper the name is resolved per call'
                             % (fn.name, n.id), where(d, n.lineno))
                    continue
                if n.id in m.functions or n.id in m.classes_by_name or n.id in m.imports:
                    continue
                if n.id in m.consts and isinstance(m.consts[n.id], ast.Constant):
                    continue
                ok_all = False
                ctx.fail('W-LOCAL', cq(d, fn.name), 'module-level state %s' % n.id,
                         'closure %s reads module-level object "%s": state outside the closure cells/__state__ is not carried by pickling' % (fn.name, n.id),
                         where(d, n.lineno))
    ctx.ob('W-LOCAL', d.name, ok_all)


def rule_W_ALIAS(ctx, d):
    """W-BK (aliases stay aliases): __call__ binds shortcuts to bound methods of its bookkeeping containers (`queue_append = queue.append`).  Such a
    shortcut refers to the object the name held at decoration time - so a nested function must never *rebind* that name (`nonlocal queue; queue = deque(..)`):
    the shortcuts would keep feeding the old object while everything that uses the name reads the new one, and recency / frequency records split in two."""
    call = d.call_fi.node
    from .src import _own_scope_nodes, _local_bindings
    aliases = {}
    for n in _own_scope_nodes(call):
        if not isinstance(n, ast.Assign):
            continue
        pairs = []
        for t in n.targets:
            if isinstance(t, ast.Tuple) and isinstance(n.value, ast.Tuple) and len(t.elts) == len(n.value.elts):
                pairs.extend(zip(t.elts, n.value.elts))
            else:
                pairs.append((t, n.value))
        for t, v in pairs:
            if isinstance(t, ast.Name) and isinstance(v, ast.Attribute) and isinstance(v.value, ast.Name):
                aliases.setdefault(v.value.id, []).append((t.id, n.lineno))
    nested = [n for n in ast.walk(call) if isinstance(n, ast.FunctionDef) and n is not call]
    used = set(x.id for f in nested for x in ast.walk(f) if isinstance(x, ast.Name) and isinstance(x.ctx, ast.Load))
    n_alias = 0
    for base, als in sorted(aliases.items()):
        live = [a for a, _l in als if a in used]
        if not live:
            continue
        n_alias += 1
        rebinders = []
        for f in nested:
            local, declared = _local_bindings(f)
            if base in declared:
                for x in _own_scope_nodes(f):
                    if isinstance(x, ast.Name) and x.id == base and isinstance(x.ctx, (ast.Store, ast.Del)):
                        rebinders.append((f.name, x.lineno))
        ctx.ob('W-BK', '%s: `%s` (aliased by %s) is never rebound' % (d.name, base, ', '.join(live)), not rebinders)
        for fname, line in rebinders[:1]:
            ctx.fail('W-BK', cq(d, fname), 'rebinds %s while %s still refer to the old object' % (base, ', '.join(live)),
                     '%s() declares `nonlocal %s` and assigns a new object to it, but %s were bound to methods of the object created at decoration time and are '
                     'still used: after the first rebinding, uses recorded through the shortcuts go to the old container and whatever reads `%s` sees the new one - '
                     'the eviction order no longer follows the recorded uses' % (fname, base, ', '.join(live), base), where(d, line))
    ctx.ob('W-BK', '%s: bound-method shortcuts examined' % d.name, True, n=n_alias)


def rule_W_SIBLING_INIT(ctx, repo):
    """W-STATE (the two decorator modules treat their arguments alike).  klepto.safe mirrors klepto._cache class for class; the constructors differ in the
    default keymap only.  What is done to `cache=` before it is stored - wrap a plain dict into an archive-backed cache, take anything else as it is - is
    decided by the same tests in both modules: `not isinstance(cache, archive_dict)` in one of them copies a bare persistent archive (a dict subclass
    that is its own store) into a fresh in-memory cache over a null archive, and nothing the function computes reaches the store any more."""
    a, b = repo.mod('_cache'), repo.mod('safe')
    n = 0

    def tests_of(ci, name):
        init = ci.methods.get('__init__')
        if init is None:
            return None
        out = []
        # ... in the constructor itself or in a module-level helper it hands its arguments to (`self.__state__ = _state(maxsize, cache, ...)`)
        nodes = [init.node] + [ci.module.functions[c.func.id].node for c in ast.walk(init.node)
                               if isinstance(c, ast.Call) and isinstance(c.func, ast.Name) and c.func.id in ci.module.functions]
        for x in [y for nd in nodes for y in ast.walk(nd)]:
            if isinstance(x, ast.If):
                arms = [(x.test, x.body)]
                for test, body in arms:
                    if any(isinstance(st, ast.Assign) and any(isinstance(t, ast.Name) and t.id == name for t in st.targets) for st in body):
                        out.append(' '.join(unparse(test).split()))
        return sorted(out)
    for cname, ca in sorted(a.classes_by_name.items()):
        if cname not in b.classes_by_name or not cname.endswith('_cache'):
            continue
        ca, cb = ca[0], b.classes_by_name[cname][0]
        for pname in ('cache', 'ignore'):
            ta, tb = tests_of(ca, pname), tests_of(cb, pname)
            if ta is None or tb is None:
                continue
            n += 1
            ok = ta == tb
            ctx.ob('W-STATE', '%s: _cache and safe normalise `%s` under the same tests' % (cname, pname), ok)
            if not ok:
                odd = sorted(set(tb) - set(ta)) or sorted(set(ta) - set(tb))
                ctx.fail('W-STATE', cb.methods['__init__'].qual if set(tb) - set(ta) else ca.methods['__init__'].qual, '`%s` normalised differently in the two modules' % pname,
                         'klepto.safe.%s and klepto._cache.%s decide differently what to do with `%s=` (`%s` in one module only): the same argument - e.g. a bare '
                         'persistent archive used directly as the cache - is stored as given by one and replaced (copied into a fresh in-memory cache over a null archive) '
                         'by the other, so nothing computed through that decorator reaches the archive' % (cname, cname, pname, odd[0] if odd else ''),
                         '%s:%d' % ((b if set(tb) - set(ta) else a).rel, (cb if set(tb) - set(ta) else ca).methods['__init__'].node.lineno))
    if n < 6:
        raise AnalysisError('instance count below confirmed minimum: %d constructor pairs compared between _cache.py and safe.py' % n)
