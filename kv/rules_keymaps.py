"""Keymap rules (DESIGN 3.8, section 4: K-ORDER K-DISPATCH K-INFO K-TYPED K-SENT K-HASH K-PROC K-REPR)."""
import ast

from .src import AnalysisError, unparse
from .paths import (Engine, Model, R, C, NONE, is_const, render, render_path, subterms, contains_term, RETURN, RAISE)
from .wmodel import SELF, libname
from .rules_wrappers import PlainModel

KEYMAP_CLASSES = ('keymap', 'hashmap', 'stringmap', 'picklemap')
ENCODER_OF = {'hashmap': 'hash', 'stringmap': 'string', 'picklemap': 'pickle'}
ORDER_METHODS = ('items', 'keys', 'values', '__iter__', 'popitem')
ORDER_PASS = ('list', 'tuple', 'iter', 'reversed', 'enumerate', 'zip', 'map', 'filter', 'chain', 'next')
PROCESS_SOURCES = ('hash', 'id', 'getpid', 'random', 'time', 'urandom', 'uuid4', 'uuid1', 'getrandbits', 'randint',
                   'choice', 'monotonic', 'perf_counter', 'time_ns', 'object.__repr__', 'object.__hash__', 'mktemp')


class KModel(PlainModel):
    """keymap methods: private helper methods reached through self (and plain helper functions of the module) are inlined"""

    def __init__(self, module, cls=None):
        PlainModel.__init__(self, module)
        self.cls = cls

    def resolve_method(self, name):
        seen = set()
        todo = [self.cls] if self.cls is not None else []
        while todo:
            ci = todo.pop(0)
            if ci is None or ci.qual in seen:
                continue
            seen.add(ci.qual)
            if name in ci.methods:
                return ci.methods[name]
            for b in ci.base_names():
                todo.extend(self.module.classes_by_name.get(b, []))
        return None

    def attr_load(self, obj, attr, st, node):
        # an opt-in switch: a class-level constant (`_pathlike = False`) that __init__ overrides only when the new option is given.  Existing callers get the
        # class default, and new optional features are judged at their defaults
        if obj == SELF and self.cls is not None:
            todo, seen = [self.cls], set()
            while todo:
                ci = todo.pop(0)
                if ci is None or ci.qual in seen:
                    continue
                seen.add(ci.qual)
                v = ci.attrs.get(attr)
                if isinstance(v, ast.Constant) and isinstance(v.value, (bool, type(None))):
                    init = self.resolve_method('__init__')
                    uncond = False
                    if init is not None:
                        for st_ in init.node.body:
                            if isinstance(st_, ast.Assign) and any(isinstance(t, ast.Attribute) and t.attr == attr for t in st_.targets):
                                uncond = True
                    if not uncond:
                        return [R(st, C(v.value))]
                for b in ci.base_names():
                    todo.extend(self.module.classes_by_name.get(b, []))
        return PlainModel.attr_load(self, obj, attr, st, node) if hasattr(PlainModel, 'attr_load') else None

    def call(self, f, args, kws, st, node):
        if f[0] == 'attr' and f[1] == SELF and self.engine is not None:
            fi = self.resolve_method(f[2])
            # the public dispatch targets stay symbolic (K-DISPATCH reads them); private helpers are expanded
            if fi is not None and f[2] not in ('encode', 'encrypt', 'decode', 'decrypt', '__call__', 'dumps', 'loads'):
                return self.engine.inline(fi.node, '%s.%s' % (fi.cls.name, f[2]), {}, args, kws, st, node, self_val=SELF)
        # a class-qualified call of a private helper on self: hashmap._hash(self, key)
        if f[0] == 'lib' and self.engine is not None and args and args[0] == SELF:
            parts = f[1].split('.')
            if len(parts) >= 2 and parts[-1] not in ('encode', 'encrypt', 'decode', 'decrypt', '__call__', 'dumps', 'loads', '__init__'):
                for ci in self.module.classes_by_name.get(parts[-2], []):
                    fi = ci.methods.get(parts[-1])
                    if fi is not None:
                        return self.engine.inline(fi.node, '%s.%s' % (ci.name, parts[-1]), {}, args[1:], kws, st, node, self_val=SELF)
        return PlainModel.call(self, f, args, kws, st, node)


def is_sorter(f):
    return f == ('attr', SELF, '_sorted') or (f[0] == 'lib' and f[1] == 'sorted')


def order_tainted(t, kw):
    """does the value carry an order that depends on call form / process (kw = the **kwds param term)"""
    if not isinstance(t, tuple) or not t or not isinstance(t[0], str):
        return False
    if t == kw:
        return True
    tag = t[0]
    if tag == 'call':
        f = t[1]
        if is_sorter(f):
            return False
        if f[0] == 'attr' and f[2] in ORDER_METHODS:
            return order_tainted(f[1], kw)
        if f[0] == 'attr' and f[2] in ('copy',):
            return order_tainted(f[1], kw)
        if f[0] == 'lib' and libname(f) in ('len', 'bool', 'sum', 'min', 'max', 'any', 'all', 'isinstance', 'frozenset'):
            return False
        if f[0] == 'lib' and libname(f) in ('set',):
            return True    # set iteration order is process dependent
        return any(order_tainted(a, kw) for a in t[2]) or any(order_tainted(k[-1], kw) for k in t[3])
    if tag == 'set':
        return True
    if tag in ('cmp',):
        return False
    if tag == 'comp':
        return order_tainted(t[2], kw) or t[1] == 'set'
    if tag in ('star', 'dstar'):
        return order_tainted(t[1], kw)
    if tag == 'kw':
        return order_tainted(t[2], kw)
    if tag == 'dict':
        return any((a is not None and order_tainted(a, kw)) or order_tainted(b, kw) for a, b in t[1])
    if tag in ('tuple', 'list'):
        return any(order_tainted(a, kw) for a in t[1])
    if tag == 'sub':
        # looking a name up in the dict is order-insensitive
        if t[1] == kw and not (t[2][0] == 'slice'):
            return False
        return order_tainted(t[1], kw) or order_tainted(t[2], kw)
    return any(order_tainted(a, kw) for a in t[1:] if isinstance(a, tuple))


def flat_plus(t):
    if t[0] == 'bin' and t[1] == '+':
        return flat_plus(t[2]) + flat_plus(t[3])
    return [t]


def keymap_classes(repo):
    m = repo.mod('keymaps')
    out = {}
    for n in KEYMAP_CLASSES:
        if n not in m.classes:
            raise AnalysisError('anchor vanished: class %s in klepto/keymaps.py' % n)
        out[n] = m.classes[n]
    return m, out


def run_method(module, fi, unroll=2):
    eng = Engine(KModel(module, fi.cls), unroll=unroll)
    a = fi.node.args
    params = {a.args[0].arg: SELF} if a.args else {}
    outs = eng.run_function(fi.node, {}, params=params)
    return outs


def truth_of(o, pred):
    """value of the first truth fact whose term satisfies pred"""
    for t, b in o.st.facts.get('truth', {}).items():
        if pred(t):
            return b
    return None


def method_params(fi):
    a = fi.node.args
    va = ('param', a.vararg.arg) if a.vararg else None
    kw = ('param', a.kwarg.arg) if a.kwarg else None
    return va, kw


def rule_K_ORDER(ctx, repo):
    m, classes = keymap_classes(repo)
    base = classes['keymap']
    n = 0
    for meth in ('encode', 'encrypt'):
        fi = base.methods.get(meth)
        if fi is None:
            raise AnalysisError('anchor vanished: keymap.%s' % meth)
        ctx.analysed(fi.qual)
        va, kw = method_params(fi)
        outs = run_method(m, fi)
        ctx.add_paths(outs, fi.qual, trivial_kinds=())
        for o in outs:
            if o.kind != RETURN:
                continue
            n += 1
            bad = order_tainted(o.val, kw)
            ctx.ob('K-ORDER', '%s.%s' % (base.name, meth), not bad)
            if bad:
                ctx.fail('K-ORDER', fi.qual, 'keyword order reaches the key',
                         'the key returned by keymap.%s embeds the **kwds dict (or an iteration of it) without passing through the sorter: '
                         'keyword order leaks into string/pickle/hash keys, so f(x=1,y=2) and f(y=2,x=1) get different keys (%s)' % (meth, render(o.val)[:160]),
                         '%s:%d' % (m.rel, fi.node.lineno), render_path(o))
        if meth == 'encode':
            ctx.sample({'construct': fi.qual, 'returned key terms': [render(o.val)[:200] for o in outs if o.kind == RETURN][:3]})
    # sorter role default: on every path of __init__, self._sorted is builtin sorted or what the caller passed with builtin sorted as default
    init = base.methods.get('__init__')
    ok = False
    try:
        iouts = [o for o in run_method(m, init, unroll=1) if o.kind == RETURN]
    except AnalysisError:
        iouts = []
    if iouts:
        ok = True
        for o in iouts:
            sets = [e for e in o.st.events if e.kind == 'SELFSET' and e.args[0] == SELF and e.args[1] == C('_sorted')]
            good = bool(sets) and (sets[-1].args[2] == ('lib', 'sorted') or (
                sets[-1].args[2][0] == 'call' and sets[-1].args[2][2] and sets[-1].args[2][2][-1] == ('lib', 'sorted')))
            ok = ok and good
    ctx.ob('K-ORDER', 'keymap._sorted default', ok)
    if not ok:
        ctx.fail('K-ORDER', init.qual, 'sorter default', 'keymap.__init__ does not default the sorter role (_sorted) to builtin sorted',
                 '%s:%d' % (m.rel, init.node.lineno))
    if n < 4:
        raise AnalysisError('instance count below confirmed minimum: %d return paths in keymap.encode/encrypt' % n)


def rule_K_DISPATCH(ctx, repo):
    m, classes = keymap_classes(repo)
    base = classes['keymap']
    fi = base.methods.get('__call__')
    if fi is None:
        raise AnalysisError('anchor vanished: keymap.__call__')
    ctx.analysed(fi.qual)
    va, kw = method_params(fi)
    outs = run_method(m, fi)
    for o in outs:
        if o.kind != RETURN:
            continue
        flat = truth_of(o, lambda t: t == ('attr', SELF, 'flat'))
        want = 'encode' if flat else 'encrypt'
        ok = flat is not None and o.val == ('call', ('attr', SELF, want), (('star', va),), (('dstar', kw),))
        ctx.ob('K-DISPATCH', 'keymap.__call__ flat=%s' % flat, ok)
        if not ok:
            ctx.fail('K-DISPATCH', fi.qual, 'flat=%s returns %s' % (flat, render(o.val)),
                     'keymap.__call__ with flat=%s returns %s instead of self.%s(*args, **kwds)' % (flat, render(o.val), want),
                     '%s:%d' % (m.rel, fi.node.lineno), render_path(o))
    for cname, enc in ENCODER_OF.items():
        ci = classes[cname]
        for meth in ('encode', 'encrypt'):
            f2 = ci.methods.get(meth)
            if f2 is None:
                ctx.ob('K-DISPATCH', '%s.%s' % (cname, meth), False)
                ctx.fail('K-DISPATCH', ci.qual, 'missing override %s' % meth,
                         '%s does not override %s: flat and non-flat keys would be encoded differently (one of them raw)' % (cname, meth), ci.where)
                continue
            ctx.analysed(f2.qual)
            va, kw = method_params(f2)
            for o in run_method(m, f2):
                if o.kind != RETURN:
                    continue
                v = o.val
                inner = ('call', ('lib', '%s.keymap.%s' % (m.rel, meth)), (SELF, ('star', va)), (('dstar', kw),))
                ok = v[0] == 'call' and libname(v[1]) == enc and v[1][0] == 'lib' and v[2] and v[2][0] == inner
                if not ok and cname == 'hashmap' and truth_of(o, lambda t: t[0] == 'cmp' and t[1] == 'is' and t[2] == ('attr', SELF, '__type__') and t[3] == NONE) \
                        and v[0] == 'call' and libname(v[1]) == enc and v[2] and contains_term(v[2][0], lambda t: t == inner):
                    # python's builtin hash (algorithm None) is outside the session-stable / information-preserving configurations the properties speak about:
                    # there the base key may be re-shaped (a dict of keywords cannot be hashed) as long as it is the base key that is hashed
                    ok = True
                ctx.ob('K-DISPATCH', '%s.%s' % (cname, meth), ok)
                if not ok:
                    ctx.fail('K-DISPATCH', f2.qual, '%s.%s returns %s' % (cname, meth, render(v)[:80]),
                             '%s.%s does not apply %s() to keymap.%s(self, *args, **kwds): got %s' % (cname, meth, enc, meth, render(v)[:160]),
                             '%s:%d' % (m.rel, f2.node.lineno), render_path(o))


def whole(term, x):
    """x occurs in term at least once outside any subscript/projection"""
    if term == x:
        return True
    if not isinstance(term, tuple) or not term or not isinstance(term[0], str):
        return False
    if term[0] in ('sub', 'proj', 'proj*'):
        return False
    if term[0] in ('cmp', 'not'):
        return False
    for a in term[1:]:
        if isinstance(a, tuple):
            if a and isinstance(a[0], str):
                if whole(a, x):
                    return True
            else:
                for b in a:
                    if isinstance(b, tuple) and whole_any(b, x):
                        return True
    return False


def whole_any(b, x):
    if b and isinstance(b[0], str):
        return whole(b, x)
    return any(isinstance(c, tuple) and whole_any(c, x) for c in b)


def sorted_items_of(kw):
    """predicate: term is sorter(list(kw.items())) (or sorter(kw.items()))"""
    def pred(t):
        if t[0] == 'call' and is_sorter(t[1]) and t[2]:
            return contains_term(t[2][0], lambda x: x[0] == 'call' and x[1] == ('attr', kw, 'items'))
        return False
    return pred


def fuse(t):
    """iterating a generator / list comprehension yields its element expression: each(comp(k, X)) -> X"""
    if not isinstance(t, tuple):
        return t
    t2 = tuple(fuse(x) for x in t)
    if t2 and t2[0] == 'iter' and len(t2) >= 2 and isinstance(t2[1], tuple) and t2[1] and t2[1][0] == 'comp' and t2[1][1] in ('gen', 'list') and len(t2[1]) == 3:
        return t2[1][2]
    return t2


def rule_K_INFO_TYPED_SENT(ctx, repo):
    m, classes = keymap_classes(repo)
    base = classes['keymap']
    for meth in ('encode', 'encrypt'):
        fi = base.methods[meth]
        va, kw = method_params(fi)
        outs = run_method(m, fi, unroll=2)
        issorted = sorted_items_of(kw)
        for o in outs:
            if o.kind != RETURN:
                continue
            v = fuse(o.val)
            if truth_of(o, lambda t: t == ('attr', SELF, 'outer')):
                # chained keymap: inner(key); the key is the argument
                if v[0] == 'call' and v[2]:
                    v = v[2][0]
            kwtruth = truth_of(o, lambda t: t == kw)
            typed = truth_of(o, lambda t: t == ('attr', SELF, 'typed'))
            mark = truth_of(o, lambda t: t == ('attr', SELF, '_mark'))
            loops = [t for t in subterms(v) if t[0] == 'iter' and issorted(t[1])]
            # ---- K-INFO
            ok = whole(v, va)
            why = 'positional arguments do not reach the key whole'
            if not ok:
                # fast-type unwrap: key[0] guarded by len(key) == 1
                unwrap = truth_of(o, lambda t: t[0] == 'cmp' and t[1] == '==' and t[3] == C(1) and t[2][0] == 'call' and t[2][1] == ('attr', SELF, '_len'))
                if unwrap and v[0] == 'sub' and v[2] == C(0) and whole(v[1], va):
                    ok = True
            if ok and meth == 'encrypt':
                ok = contains_term(v, lambda t: t == kw or (t[0] == 'call' and libname(t[1]) == 'dict' and t[2] and issorted(t[2][0])) or issorted(t))
                why = 'keyword arguments do not reach the non-flat key'
            if ok and meth == 'encode' and kwtruth and 0 not in [1 for z in o.st.zero]:
                segs = flat_plus(v if v[0] != 'sub' else v[1])
                items = [s for s in segs if s[0] == 'iter' and issorted(s[1])]
                proj_items = [s for s in segs if s[0] in ('sub', 'proj') and contains_term(s, lambda t: t[0] == 'iter' and issorted(t[1]))]
                zero_loop = len(o.st.zero) > 0
                if proj_items:
                    ok = False
                    why = 'only part of each (name, value) keyword item is appended to the flat key'
                elif not items and not zero_loop:
                    ok = False
                    why = 'keyword items are not appended to the flat key'
            ctx.ob('K-INFO', 'keymap.%s' % meth, ok)
            if not ok:
                ctx.fail('K-INFO', fi.qual, why, 'keymap.%s: %s (key term %s)' % (meth, why, render(o.val)[:200]),
                         '%s:%d' % (m.rel, fi.node.lineno), render_path(o))
            # ---- K-TYPED
            if typed:
                def is_type_of(t, elem_pred):
                    return t[0] == 'call' and (t[1] == ('attr', SELF, '_type') or (t[1][0] == 'lib' and t[1][1] == 'type')) and len(t[2]) == 1 and elem_pred(t[2][0])
                a_ok = contains_term(v, lambda t: t[0] == 'comp' and len(t) == 3 and is_type_of(t[2], lambda e: e[0] == 'iter' and e[1] == va))
                need_kw = (meth == 'encrypt') or bool(kwtruth)
                k_ok = True
                if need_kw:
                    k_ok = contains_term(v, lambda t: t[0] == 'comp' and len(t) == 3 and is_type_of(
                        t[2], lambda e: e[0] == 'proj' and e[1] == 1 and e[2][0] == 'iter' and issorted(e[2][1])))
                ok = a_ok and k_ok
                ctx.ob('K-TYPED', 'keymap.%s' % meth, ok)
                if not ok:
                    what = 'positional' if not a_ok else 'keyword'
                    ctx.fail('K-TYPED', fi.qual, 'typed key lacks %s types' % what,
                             'keymap.%s with typed=True does not append the types of all %s argument values (in sorter order for keywords): '
                             '1, 1.0 and True would share a key' % (meth, what),
                             '%s:%d' % (m.rel, fi.node.lineno), render_path(o))
            # ---- K-SENT (flat keys only)
            if meth == 'encode' and mark:
                vv = v
                segs = flat_plus(vv)
                markterm = ('attr', SELF, '_mark')

                def group(s):
                    if s == markterm:
                        return 'M'
                    if s == va:
                        return 'args'
                    if s[0] == 'iter':
                        return 'items'
                    if contains_term(s, lambda t: t[0] == 'comp'):
                        return 'types:' + ('kw' if contains_term(s, lambda t: t[0] == 'proj') else 'args')
                    return 'other'
                gs = [group(s) for s in segs]
                ok = True
                for i in range(len(gs) - 1):
                    if gs[i] != 'M' and gs[i + 1] != 'M' and gs[i] != gs[i + 1]:
                        ok = False
                ctx.ob('K-SENT', 'keymap.encode', ok)
                if not ok:
                    ctx.fail('K-SENT', fi.qual, 'segments %s' % ' '.join(gs),
                             'with a sentinel configured the flat key has adjacent segments without the sentinel between them (%s): '
                             'f(1, 2) and f(1, x=...) style calls could collide' % ' | '.join(gs),
                             '%s:%d' % (m.rel, fi.node.lineno), render_path(o))
    ctx.require_instances('K-INFO', 4, 'return paths')
    ctx.require_instances('K-TYPED', 2, 'typed return paths')
    ctx.require_instances('K-SENT', 2, 'sentinel return paths')


def crypto_funcs(repo):
    m = repo.mod('crypto')
    out = {}
    for n in ('hash', 'string', 'pickle'):
        if n not in m.functions:
            raise AnalysisError('anchor vanished: klepto/crypto.py::%s' % n)
        out[n] = m.functions[n]
    return m, out


def has_sub(t):
    return contains_term(t, lambda x: x[0] in ('sub', 'proj') and not (x[0] == 'sub' and x[1][0] == 'lib'))


LOSSLESS_CALLS = ('hexdigest', 'digest', 'new', 'encode', 'bytes', 'bytearray', 'memoryview', 'str', 'update', 'md5', 'sha1', 'sha224', 'sha256',
                  'sha384', 'sha512', 'blake2b', 'blake2s', 'sha3_256', 'sha3_512', 'sha3_224', 'sha3_384')


def spine(t, pred):
    """the chain of terms from t down to the first subterm satisfying pred (excluding that subterm), or None"""
    if not isinstance(t, tuple) or not t or not isinstance(t[0], str):
        return None
    if pred(t):
        return []
    for c in t[1:]:
        if isinstance(c, tuple):
            if c and isinstance(c[0], str):
                r = spine(c, pred)
                if r is not None:
                    return [t] + r
            else:
                for cc in c:
                    if isinstance(cc, tuple):
                        r = spine(cc, pred)
                        if r is not None:
                            return [t] + r
    return None


def lossless_step(t):
    if t[0] == 'call':
        f = t[1]
        name = f[2] if f[0] == 'attr' else (libname(f) if f[0] == 'lib' else None)
        return name in LOSSLESS_CALLS
    if t[0] in ('attr', 'kw', 'star', 'tuple'):
        return True
    return False


def rule_K_HASH(ctx, repo):
    m, fs = crypto_funcs(repo)
    # hash(): named algorithm -> hexdigest of the full repr
    fi = fs['hash']
    ctx.analysed(fi.qual)
    eng = Engine(KModel(m), unroll=1)
    outs = eng.run_function(fi.node, {})
    obj = ('param', fi.node.args.args[0].arg)
    alg = ('param', fi.node.args.args[1].arg) if len(fi.node.args.args) > 1 else None
    n = 0
    for o in outs:
        if o.kind != RETURN:
            continue
        isnone = truth_of(o, lambda t: t[0] == 'cmp' and t[1] == 'is' and t[2] == alg and t[3] == NONE)
        if isnone:
            continue
        n += 1
        v = o.val
        ok = v[0] == 'call' and v[1][0] == 'attr' and v[1][2] in ('hexdigest', 'digest') and not has_sub(v)
        if ok:
            ok = contains_term(v, lambda t: t[0] == 'call' and t[1][0] == 'lib' and libname(t[1]) in ('repr', 'str', 'dumps') and t[2] and t[2][0] == obj)
        if ok:
            # everything between repr(obj) and the digest must be lossless (encode / bytes / the hashlib constructor): a substitution, strip,
            # slice or case fold between the two maps distinct reprs to one digest
            sp = spine(v, lambda t: t[0] == 'call' and t[1][0] == 'lib' and libname(t[1]) in ('repr', 'str', 'dumps') and t[2] and t[2][0] == obj)
            lossy = [x for x in (sp or []) if not lossless_step(x)]
            if lossy:
                ok = False
        ctx.ob('K-HASH', 'crypto.hash', ok)
        if not ok:
            ctx.fail('K-HASH', fi.qual, 'digest of %s' % render(v)[:80],
                     'hash(obj, algorithm) is not the full digest of the full repr(obj): %s - distinct calls could share a key' % render(v)[:160],
                     '%s:%d' % (m.rel, fi.node.lineno), render_path(o))
    if n < 1:
        raise AnalysisError('crypto.hash: named-algorithm branch not found')
    for name in ('string', 'pickle'):
        fi = fs[name]
        ctx.analysed(fi.qual)
        eng = Engine(KModel(m), unroll=1)
        outs = eng.run_function(fi.node, {})
        obj = ('param', fi.node.args.args[0].arg)
        k = 0
        for o in outs:
            if o.kind != RETURN:
                continue
            k += 1
            v = o.val
            sp0 = spine(v, lambda t: t == obj)
            sub_on_data = has_sub(v) if sp0 is None else any(x[0] in ('sub', 'proj') for x in sp0)
            ok = not sub_on_data and (contains_term(v, lambda t: t == obj) or contains_term(v, lambda t: t[0] == 'call' and libname(t[1]) == 'eval'))
            if ok and contains_term(v, lambda t: t == obj):
                # every step between the object and the returned encoding keeps all information (str / repr / encode / dumps ...): a normalisation, case
                # fold, strip or substitution on the way maps distinct arguments to one key
                sp = spine(v, lambda t: t == obj)
                def enc_step(x):
                    if x[0] == 'call':
                        f_ = x[1]
                        nm_ = f_[2] if f_[0] == 'attr' else (libname(f_) if f_[0] == 'lib' else None)
                        if nm_ in ('repr', 'dumps', 'str', 'ascii'):
                            return True
                        if f_[0] == 'sub' and f_[1][0] in ('global', 'lib'):
                            # a dispatch table of casts: _stringlike[encoding](object) with _stringlike = {'str': str, 'repr': repr, ...}
                            tname = f_[1][1].split('.')[-1] if isinstance(f_[1][1], str) else None
                            tv = m.consts.get(tname) if tname else None
                            if isinstance(tv, ast.Dict) and tv.values and all(isinstance(e_, ast.Name) and e_.id in ('str', 'repr', 'ascii', 'bytes', 'bytearray') for e_ in tv.values):
                                return True
                    return lossless_step(x)
                lossy = [x for x in (sp or []) if not enc_step(x)]
                if lossy:
                    ok = False
            ctx.ob('K-HASH', 'crypto.%s' % name, ok)
            if not ok:
                ctx.fail('K-HASH', fi.qual, '%s returns %s' % (name, render(v)[:80]),
                         'crypto.%s does not encode the whole object: %s' % (name, render(v)[:160]),
                         '%s:%d' % (m.rel, fi.node.lineno), render_path(o))
        if k < 2:
            raise AnalysisError('crypto.%s: fewer return paths than confirmed' % name)


def process_tainted(t):
    def pred(x):
        if x[0] == 'call' and x[1][0] in ('lib', 'global'):
            ln = x[1][1].split('.')[-1]
            full = x[1][1]
            if ln in ('hash', '__hash', 'id', 'getpid', 'urandom', 'uuid4', 'uuid1', 'getrandbits', 'mktemp', 'monotonic', 'perf_counter', 'time_ns', 'getrandom',
                      'abspath', 'realpath', 'getcwd', 'expanduser', 'gethostname', 'get_ident', 'resolve', 'absolute'):   # ... the working directory / user / host of the process
                # klepto.crypto.hash with a named algorithm is a digest; called without one (or with algorithm=None) it is the builtin hash
                if full.endswith('crypto.hash'):
                    kws_ = x[3] if len(x) > 3 else ()
                    alg_ = [k for k in kws_ if k[0] == 'kw' and k[1] == 'algorithm']
                    pos_alg = len(x[2]) > 1
                    star_ = any(k[0] == 'dstar' for k in kws_)
                    if not alg_ and not pos_alg:      # (a ** expansion of the keymap's _config never carries `algorithm`: it is passed by name next to it today)
                        return True
                    if alg_ and alg_[0][2] == NONE:
                        return True
                    return False
                return True
            if full.startswith('random.') or full.startswith('time.') or full in ('random', 'time'):
                return True
        if x[0] == 'set' or (x[0] == 'comp' and x[1] == 'set'):
            return True
        if x[0] == 'call' and x[1][0] == 'lib' and x[1][1].split('.')[-1] in ('set', 'frozenset'):
            return True     # iteration order (hence repr / pickle) of a set of strings follows the per-process string hashes
        return False
    return contains_term(t, pred)


def rule_K_PROC(ctx, repo):
    mk, classes = keymap_classes(repo)
    mc, fs = crypto_funcs(repo)
    # crypto: the only process-dependent return is builtin hash under `algorithm is None`
    for name, fi in fs.items():
        eng = Engine(KModel(mc), unroll=1)
        outs = eng.run_function(fi.node, {})
        ctx.analysed(fi.qual)
        alg = ('param', fi.node.args.args[1].arg) if len(fi.node.args.args) > 1 else None
        for o in outs:
            if o.kind != RETURN:
                continue
            bad = process_tainted(o.val)
            excluded = False
            if bad and name == 'hash':
                excluded = bool(truth_of(o, lambda t: t[0] == 'cmp' and t[1] == 'is' and t[2] == alg and t[3] == NONE))
            ok = (not bad) or excluded
            ctx.ob('K-PROC', 'crypto.%s' % name, ok)
            if not ok:
                ctx.fail('K-PROC', fi.qual, 'process-dependent value in key',
                         'crypto.%s returns a value that depends on the interpreter process (%s) in a session-stable configuration' % (name, render(o.val)[:120]),
                         '%s:%d' % (mc.rel, fi.node.lineno), render_path(o))
    # keymaps: encode/encrypt of every class add nothing process dependent
    for cname, ci in classes.items():
        for meth in ('encode', 'encrypt', '__call__'):
            fi = ci.methods.get(meth)
            if fi is None:
                continue
            ctx.analysed(fi.qual)
            for o in run_method(mk, fi):
                if o.kind != RETURN:
                    continue
                bad = process_tainted(o.val)
                ctx.ob('K-PROC', '%s.%s' % (cname, meth), not bad)
                if bad:
                    ctx.fail('K-PROC', fi.qual, 'process-dependent value in key',
                             '%s.%s builds the key from a process-dependent value: %s' % (cname, meth, render(o.val)[:160]),
                             '%s:%d' % (mk.rel, fi.node.lineno), render_path(o))


def rule_K_STATE(ctx, repo):
    """K-STATE: a keymap that is copied or pickled keeps its configuration.  Without __getstate__ / __reduce__ the whole __dict__ travels; a class that
    customises the state must not leave out (or rebuild from defaults) an attribute that __init__ fills from its arguments - `keymap(type=kind)`,
    `keymap(sorted=...)`, typed, flat, sentinel: the clone would compute different keys for the calls the original cached."""
    m = repo.mod('keymaps')
    n = 0
    for ci in m.classes.values():
        init = ci.methods.get('__init__')
        if init is None:
            continue
        a = init.node.args
        pnames = set(x.arg for x in a.args[1:] + a.kwonlyargs) | (set([a.kwarg.arg]) if a.kwarg else set()) | (set([a.vararg.arg]) if a.vararg else set())
        configured = {}
        for node in ast.walk(init.node):
            if isinstance(node, ast.Assign):
                for t in node.targets:
                    if isinstance(t, ast.Attribute) and isinstance(t.value, ast.Name) and t.value.id == a.args[0].arg:
                        if any(isinstance(x, ast.Name) and x.id in pnames for x in ast.walk(node.value)):
                            configured[t.attr] = node.lineno
        if not configured:
            continue
        n += 1
        gs, ss = ci.methods.get('__getstate__'), ci.methods.get('__setstate__')
        red = ci.methods.get('__reduce__') or ci.methods.get('__reduce_ex__')
        dropped, rebuilt = {}, {}
        if gs is not None:
            consts = {}
            for node in ast.walk(gs.node):
                if isinstance(node, ast.For) and isinstance(node.target, ast.Name) and isinstance(node.iter, (ast.Tuple, ast.List, ast.Set)):
                    consts[node.target.id] = [e.value for e in node.iter.elts if isinstance(e, ast.Constant)]
            for node in ast.walk(gs.node):
                keys = []
                if isinstance(node, ast.Call) and isinstance(node.func, ast.Attribute) and node.func.attr in ('pop', '__delitem__') and node.args:
                    k = node.args[0]
                    keys = [k.value] if isinstance(k, ast.Constant) else consts.get(k.id, []) if isinstance(k, ast.Name) else []
                elif isinstance(node, ast.Delete):
                    for t in node.targets:
                        if isinstance(t, ast.Subscript):
                            k = t.slice
                            keys += [k.value] if isinstance(k, ast.Constant) else consts.get(k.id, []) if isinstance(k, ast.Name) else []
                for k in keys:
                    if k in configured:
                        dropped[k] = node.lineno
        if ss is not None:
            sp = [x.arg for x in ss.node.args.args]
            for node in ast.walk(ss.node):
                if isinstance(node, ast.Assign):
                    for t in node.targets:
                        if isinstance(t, ast.Attribute) and isinstance(t.value, ast.Name) and t.value.id == sp[0] and t.attr in configured:
                            if not any(isinstance(x, ast.Name) and x.id in sp[1:] for x in ast.walk(node.value)):
                                rebuilt[t.attr] = node.lineno
        bad = sorted(set(dropped) | set(rebuilt))
        ctx.ob('K-STATE', '%s keeps %d configured attributes through copy / pickle' % (ci.label, len(configured)), not bad)
        if bad:
            line = (dropped.get(bad[0]) or rebuilt.get(bad[0]))
            ctx.fail('K-STATE', ci.qual, 'pickled state leaves out %s' % ', '.join(bad),
                     '%s.__init__ fills %s from its arguments, but __getstate__/__setstate__ %s: a copied or unpickled keymap falls back to the default, so the '
                     'clone computes other keys than the original for the same calls and every entry the original cached is missed'
                     % (ci.label, ', '.join(bad), 'drops them from the state' if dropped else 'rebuilds them from defaults'), '%s:%d' % (m.rel, line))
        if red is not None and not (gs or ss):
            # a __reduce__ on a keymap class is decided by its own obligations elsewhere (none today): note it
            ctx.ob('K-STATE', '%s defines __reduce__ (not analysed here)' % ci.label, True)
    if n < 1:
        raise AnalysisError('instance count below confirmed minimum: no keymap class fills attributes from constructor arguments')


def rule_K_BYREF(ctx, repo):
    """K-BYREF: picklemap hands byref=True to the serializer unless the caller says otherwise.  dill then pickles classes and functions of
    __main__ by reference (a name); by value it would embed their current attribute values - mutable class-level state of the process - in the key.
    The default is written on every path; if it is made conditional on the serializer, the test runs on the normalised name (after a module object
    was replaced by its __name__), never on the raw argument."""
    m = repo.mod('keymaps')
    ci = m.classes.get('picklemap')
    if ci is None or '__init__' not in ci.methods:
        raise AnalysisError('anchor vanished: keymaps.picklemap.__init__')
    fn = ci.methods['__init__'].node
    parents = {}
    for n in ast.walk(fn):
        for ch in ast.iter_child_nodes(n):
            parents[ch] = n
    writes = []
    for n in ast.walk(fn):
        if isinstance(n, ast.Assign) and any(isinstance(t, ast.Subscript) and isinstance(t.slice, ast.Constant) and t.slice.value == 'byref' for t in n.targets):
            writes.append(n)
        elif isinstance(n, ast.Call) and isinstance(n.func, ast.Attribute) and n.func.attr == 'setdefault' and n.args \
                and isinstance(n.args[0], ast.Constant) and n.args[0].value == 'byref':
            writes.append(n)
        elif isinstance(n, ast.keyword) and n.arg == 'byref':
            writes.append(n)
    where = '%s:%d' % (m.rel, fn.lineno)
    ok = bool(writes)
    ctx.ob('K-BYREF', 'picklemap.__init__ defaults byref', ok)
    if not ok:
        ctx.fail('K-BYREF', ci.methods['__init__'].qual, 'no byref default',
                 'picklemap.__init__ no longer defaults byref=True for the serializer: dill then pickles classes and functions of __main__ by value, so the key of '
                 'an argument embeds class-level state of the process that built it', where)
        return
    # normalisation statements: self.__type__ = <x>.__name__
    norm = [n.lineno for n in ast.walk(fn) if isinstance(n, ast.Assign) and isinstance(n.value, ast.Attribute) and n.value.attr == '__name__']
    for w in writes:
        conds = []
        cur = w
        while cur in parents and parents[cur] is not fn:
            par = parents[cur]
            if isinstance(par, (ast.If, ast.IfExp)) and cur is not par.test:
                conds.append(par.test)
            elif isinstance(par, (ast.For, ast.While, ast.Try)):
                conds.append(par)
            cur = par
        bad = None
        for c in conds:
            if not isinstance(c, ast.expr):
                bad = (c, 'inside a loop / try block')
                break
            txt = unparse(c)
            about_serializer = '__type__' in txt or 'serializer' in txt
            if not about_serializer:
                bad = (c, 'under the condition `%s`' % txt[:50])
                break
            if norm and c.lineno < min(norm) and any(isinstance(x, ast.Constant) and isinstance(x.value, str) for x in ast.walk(c)):
                bad = (c, 'under `%s`, tested before the serializer argument is normalised to its name (line %d): a module object never equals the string' % (txt[:50], min(norm)))
                break
        ctx.ob('K-BYREF', 'byref default at line %d applies on every path' % w.lineno, bad is None)
        if bad is not None:
            ctx.fail('K-BYREF', ci.methods['__init__'].qual, 'byref default is conditional',
                     'picklemap.__init__ sets the byref=True default only %s: for the other configurations dill pickles classes and functions of __main__ by value, '
                     'so a key embeds class-level state of the process that built it and differs between processes' % bad[1], '%s:%d' % (m.rel, bad[0].lineno))


def rule_K_REPR(ctx, repo):
    """marker objects that can be embedded in keys have a constant repr"""
    sites = [('keymaps', '_Sentinel', 'SENTINEL'), ('keymaps', '_NoSentinel', 'NOSENTINEL'), ('_inspect', '_Null', 'NULL')]
    for modname, cname, inst in sites:
        m = repo.mod(modname)
        ci = m.classes.get(cname)
        # the singleton must still be an instance of that class
        cv = m.consts.get(inst)
        inst_ok = isinstance(cv, ast.Call) and isinstance(cv.func, ast.Name)
        if not inst_ok:
            raise AnalysisError('anchor vanished: marker object %s in %s' % (inst, m.rel))
        cls_name = cv.func.id
        ci = m.classes.get(cls_name)
        ok = False
        where = '%s:%d' % (m.rel, cv.lineno)
        if ci is not None and '__repr__' in ci.methods:
            rets = [n for n in ast.walk(ci.methods['__repr__'].node) if isinstance(n, ast.Return)]
            ok = bool(rets) and all(isinstance(r.value, ast.Constant) and isinstance(r.value.value, str) for r in rets)
            where = ci.methods['__repr__'].where
        # K-SINGLETON: keys embed the marker object itself and compare it by identity, so a pickled key (an archived entry, a dill'ed cached
        # function) must unpickle to the very same object: __reduce__ returns the name the instance is bound to in its module (pickle by
        # reference), or the class defines value equality (__eq__ and __hash__)
        sok = False
        if ci is not None:
            if '__reduce__' in ci.methods or '__reduce_ex__' in ci.methods:
                fn = ci.methods.get('__reduce__') or ci.methods.get('__reduce_ex__')
                rets = [n for n in ast.walk(fn.node) if isinstance(n, ast.Return)]
                sok = bool(rets) and all(isinstance(r.value, ast.Constant) and r.value.value == inst for r in rets)
            if not sok and '__eq__' in ci.methods and '__hash__' in ci.methods:
                sok = True
        ctx.ob('K-SINGLETON', inst, sok)
        if not sok:
            ctx.fail('K-SINGLETON', '%s::%s' % (m.rel, inst), 'marker %s does not survive pickling as itself' % inst,
                     'the marker object %s (class %s) is embedded in raw keys and compared by identity, but it is pickled by value: a key that went through an '
                     'archive or a dill round trip holds a *different* %s instance, so the entry is never found again (recomputed in the next session; a '
                     'restored cached function misses everything it had cached)' % (inst, cls_name, cls_name), ci.where if ci is not None else where)
        ctx.ob('K-REPR', inst, ok)
        if not ok:
            ctx.fail('K-REPR', '%s::%s' % (m.rel, inst), 'marker %s has no constant repr' % inst,
                     'the marker object %s (class %s) can be embedded in keys but its repr is not a constant string: string/hash keys would contain '
                     'a memory address and differ between interpreter sessions' % (inst, cls_name), where)


def rule_K_FAST(ctx, repo):
    """fast-type unwrapping of a lone argument is only safe for types whose values never equal a flat key (a tuple)"""
    m, classes = keymap_classes(repo)
    init = classes['keymap'].methods.get('__init__')
    names = set()
    found = False
    def collect(expr, depth=0):
        callees = set(id(c.func) for c in ast.walk(expr) if isinstance(c, ast.Call))
        for u in ast.walk(expr):
            if isinstance(u, ast.Name) and isinstance(u.ctx, ast.Load) and id(u) not in callees:
                if u.id in m.consts and depth < 3:
                    collect(m.consts[u.id], depth + 1)     # a module-level constant holding the type list
                else:
                    names.add(u.id)
    for n in ast.walk(init.node):
        if isinstance(n, ast.Assign) and len(n.targets) == 1 and isinstance(n.targets[0], ast.Attribute) and n.targets[0].attr == '_fasttypes':
            found = True
            collect(n.value)
    if not found:
        raise AnalysisError('anchor vanished: keymap._fasttypes')
    bad = sorted(names & set(['tuple', 'list', 'dict', 'set', 'object', 'Sequence', 'Iterable', 'namedtuple']))
    ctx.ob('K-FAST', 'keymap fasttypes %s' % sorted(names), not bad)
    if bad:
        ctx.fail('K-FAST', init.qual, 'fasttypes contain %s' % ','.join(bad),
                 'the fast-type list (a lone argument of such a type is used directly as the flat key) contains %s: f((1, 2)) is then keyed exactly like f(1, 2), '
                 'so one call is answered with the other call\'s result' % bad, '%s:%d' % (m.rel, init.node.lineno))


def rule_K_OWN(ctx, repo):
    """objects mutated in place on the key path are owned by the call (never elements of module-level state); values memoised in
    module-level state are keyed by everything they were computed from"""
    from . import own
    nsites = 0
    REPR_SENSITIVE = ('repr', 'str', 'hash', 'pickle', 'string', 'dumps', 'dump', 'type', 'format', 'encode', 'ascii', 'bytes')
    for modname in ('_inspect', 'keymaps', 'crypto', 'rounding'):
        m = repo.mod(modname)
        # a function memoised by functools.lru_cache is matched by == / hash of its arguments: it must not compute anything from their representation or type
        for fname, fi in m.functions.items():
            if not own.is_memoised(m, fi.node):
                continue
            params = set(a.arg for a in fi.node.args.posonlyargs + fi.node.args.args + fi.node.args.kwonlyargs)
            hit = None
            for node in ast.walk(fi.node):
                if isinstance(node, ast.Call):
                    f = node.func
                    nm = f.id if isinstance(f, ast.Name) else f.attr if isinstance(f, ast.Attribute) else ''
                    if nm in REPR_SENSITIVE and any(isinstance(x, ast.Name) and x.id in params for a in list(node.args) + [k.value for k in node.keywords] for x in ast.walk(a)):
                        hit = (node, nm)
                        break
                elif isinstance(node, ast.JoinedStr) or (isinstance(node, ast.BinOp) and isinstance(node.op, ast.Mod) and isinstance(node.left, ast.Constant)
                                                        and isinstance(node.left.value, str)):
                    if any(isinstance(x, ast.Name) and x.id in params for x in ast.walk(node)):
                        hit = (node, 'string formatting')
                        break
            ctx.ob('K-MEMO', '%s::%s memoised by equality computes nothing from representation' % (m.rel, fname), hit is None)
            if hit is not None:
                ctx.fail('K-MEMO', '%s::%s' % (m.rel, fname), 'lru_cache matches by ==, value from %s' % hit[1],
                         '%s is memoised with functools.lru_cache, which finds an entry by == and hash of the arguments, but computes its result from their '
                         'representation (%s): 2 and 2.0 (and True, 0.0 and -0.0, equal tuples of them) are one memo entry with different results, so the key of a call '
                         'depends on which equal-but-different call this process made first' % (fname, hit[1]), '%s:%d' % (m.rel, hit[0].lineno))
        shared, results = own.analyse_module(m)
        ctx.tables.setdefault('module-level containers', {})[m.rel] = sorted(shared)
        for fname, ft in sorted(results.items()):
            ctx.analysed('%s::%s' % (m.rel, fname))
            for node, recv, tags in ft.sites:
                nsites += 1
                bad = sorted(t for t in tags if t.startswith('sharedelem:'))
                ctx.ob('K-OWN', '%s::%s %s' % (m.rel, fname, recv), not bad)
                if bad:
                    ctx.fail('K-OWN', '%s::%s' % (m.rel, fname), 'in-place mutation of %s aliasing %s' % (recv, ','.join(bad)),
                             '%s mutates "%s" in place, and that object may be an element of the module-level container %s: the mutation outlives the call, so the key '
                             'of a later call depends on earlier calls (e.g. the keywords of the first call become permanent defaults)' % (
                                 fname, recv, ', '.join(b.split(':', 1)[1] for b in bad)), '%s:%d' % (m.rel, node.lineno))
            for node, cname, kexpr, vexpr, env in ft.memo_stores:
                deps = own.arg_names(vexpr, env, ft) & ft.params
                whole = own.whole_names(kexpr, env)
                missing = sorted(deps - whole)
                ctx.ob('K-MEMO', '%s::%s %s[%s]' % (m.rel, fname, cname, unparse(kexpr)), not missing)
                if missing:
                    ctx.fail('K-MEMO', '%s::%s' % (m.rel, fname), 'memo %s keyed without %s' % (cname, ','.join(missing)),
                             '%s stores a value computed from %s in the module-level table %s under the key %s, which does not contain %s itself (only something derived '
                             'from it): another object with the same derived key is served the first one\'s value - e.g. functions sharing a code object get each other\'s '
                             'defaults, so calls are keyed with the wrong defaults' % (fname, ', '.join(sorted(deps)), cname, unparse(own.expand(kexpr, env)), ' / '.join(missing)),
                             '%s:%d' % (m.rel, node.lineno))
            for node, cname, kexpr, used, env in ft.handler_memos:
                deps = used & ft.params
                whole = own.whole_names(kexpr, env)
                # names the key was derived from count as covered only when whole
                missing = sorted(d for d in deps - whole if not derives_only_from(kexpr, env, d))
                ctx.ob('K-MEMO', '%s::%s %s.add(%s)' % (m.rel, fname, cname, unparse(kexpr)), not missing)
                if missing:
                    ctx.fail('K-MEMO', '%s::%s' % (m.rel, fname), 'sticky fact in %s ignores %s' % (cname, ','.join(missing)),
                             '%s records a fact in the module-level %s (keyed by %s) from inside an exception handler whose guarded code also depends on %s: one call with a '
                             'particular %s changes how every later call is keyed in this process' % (fname, cname, unparse(kexpr), ', '.join(missing), '/'.join(missing)),
                             '%s:%d' % (m.rel, node.lineno))
    if nsites < 8:
        raise AnalysisError('instance count below confirmed minimum: %d in-place mutation sites on the key path' % nsites)


def derives_only_from(kexpr, env, name):
    """is the key expression (after expansion) built from `name` alone (e.g. name.__name__)"""
    from . import own
    e = own.expand(kexpr, env)
    names = set(n.id for n in ast.walk(e) if isinstance(n, ast.Name))
    return names == set([name])


def rule_K_SENTINEL_SET(ctx, repo):
    """K-INFO (the sentinel is the object the caller configured).  `keymap(sentinel=x)` / `k.sentinel = x` makes x the separator of a flat key, for every
    x except the one object that means "no separator" (NOSENTINEL).  The setter stores the value it is given: it does not translate values (None, False,
    0 ... are legitimate separators that callers have used; turning them into "no separator" removes the only thing that keeps `f(1, 'a', 0)` and
    `f(1, a=0)` apart for a function taking *args and **kwds)."""
    m, classes = keymap_classes(repo)
    ci = classes.get('keymap')
    if ci is None or 'sentinel' not in ci.properties or ci.properties['sentinel'][1] is None:
        raise AnalysisError('anchor vanished: keymap.sentinel property setter')
    fi = ci.properties['sentinel'][1]
    fn = fi.node
    if len(fn.args.args) < 2:
        raise AnalysisError('anchor changed: keymap sentinel setter takes no value')
    p = fn.args.args[1].arg
    rebinds = [x for x in ast.walk(fn) if isinstance(x, ast.Name) and x.id == p and isinstance(x.ctx, ast.Store)]
    odd_tests = []
    for x in ast.walk(fn):
        if isinstance(x, ast.Compare) and any(isinstance(y, ast.Name) and y.id == p for y in ast.walk(x)):
            others = [c for c in [x.left] + list(x.comparators) if not (isinstance(c, ast.Name) and c.id == p)]
            if not all(isinstance(c, ast.Name) and c.id == 'NOSENTINEL' for c in others):
                odd_tests.append(x)
        elif isinstance(x, (ast.If, ast.IfExp, ast.While)) and isinstance(x.test, ast.Name) and x.test.id == p:
            odd_tests.append(x.test)
        elif isinstance(x, ast.UnaryOp) and isinstance(x.op, ast.Not) and isinstance(x.operand, ast.Name) and x.operand.id == p:
            odd_tests.append(x)
    stores = [x for x in ast.walk(fn) if isinstance(x, ast.Assign) and any(isinstance(t, ast.Attribute) and t.attr == '_mark' for t in x.targets)]
    keeps = any(any(isinstance(y, ast.Name) and y.id == p for y in ast.walk(x.value)) for x in stores)
    ok = not rebinds and not odd_tests and keeps
    ctx.ob('K-INFO', 'keymap.sentinel setter stores the given object (only NOSENTINEL means none)', ok)
    if not ok:
        what = 'rebinds its argument' if rebinds else ('tests it against %s' % unparse(odd_tests[0])[:40] if odd_tests else 'does not store it')
        ctx.fail('K-INFO', fi.qual, 'sentinel setter %s' % what,
                 'the setter of keymap.sentinel %s: a marker the caller configured (None, False, 0 are in use as markers) is replaced or dropped, so flat keys lose the '
                 'separator between positional and keyword arguments and two different calls of a function taking *args and **kwds share a key' % what,
                 '%s:%d' % (m.rel, (rebinds or odd_tests or [fn])[0].lineno))


def rule_K_CHAIN(ctx, repo):
    """K-STATE (a chain keeps the options of its last keymap).  `a + b` is a copy of b that first runs a: whatever was configured on b (typed, flat, sentinel,
    algorithm ...) is what the chain uses - that is how chains are written (`keymap() + hashmap(algorithm='md5', typed=True)`).  `__add__` therefore sets nothing
    on the result but the two chain links; copying a's options over b's silently drops typed=True / a sentinel / flat=False given on the second operand, and
    distinct calls share a key."""
    m, classes = keymap_classes(repo)
    n = 0
    for cname, ci in sorted(classes.items()):
        fi = ci.own_methods.get('__add__') if hasattr(ci, 'own_methods') else ci.methods.get('__add__')
        if fi is None:
            continue
        n += 1
        fn = fi.node
        selfn = fn.args.args[0].arg
        bad = []
        for x in ast.walk(fn):
            if isinstance(x, (ast.Assign, ast.AugAssign)):
                tgs = x.targets if isinstance(x, ast.Assign) else [x.target]
                for t in tgs:
                    for e in (t.elts if isinstance(t, ast.Tuple) else [t]):
                        if isinstance(e, ast.Attribute) and isinstance(e.value, ast.Name) and e.value.id != selfn \
                                and e.attr not in ('__inner__', '__outer__', '__chain__', 'inner', 'outer'):
                            bad.append((x, e.attr))
            if isinstance(x, ast.Call) and isinstance(x.func, ast.Name) and x.func.id == 'setattr':
                bad.append((x, 'setattr'))
        ctx.ob('K-STATE', '%s.__add__ sets only the chain links on the new keymap' % cname, not bad)
        for x, attr in bad[:1]:
            ctx.fail('K-STATE', fi.qual, '__add__ overwrites %s of the chained keymap' % attr,
                     '%s.__add__ assigns `%s` on the result: the options configured on the second operand of `a + b` (typed, flat, sentinel) are replaced, so a chain '
                     'written as keymap() + hashmap(typed=True) stops telling 1 from 1.0, or loses the separator between positional and keyword arguments'
                     % (cname, attr), '%s:%d' % (m.rel, x.lineno))
    if n < 1:
        raise AnalysisError('anchor vanished: keymap.__add__')


def rule_K_FORWARD(ctx, repo):
    """K-HASH (options reach the encoders as configured, or not at all).  The keymaps hand their configuration to crypto.hash / string / pickle.  An option the
    user did not set must take the *encoder's* default: forwarding `strict=self._config.get('strict')` passes None where the encoder's default is True, and
    the encoders give None a meaning of its own (string(): "drop what the codec cannot encode") - distinct arguments then encode to the same key."""
    mk = repo.mod('keymaps')
    mc = repo.mod('crypto')
    n = 0
    for node in ast.walk(mk.tree):
        if not (isinstance(node, ast.Call) and isinstance(node.func, ast.Name) and node.func.id in mc.functions and mk.imports.get(node.func.id, '').endswith('crypto.' + node.func.id)):
            continue
        callee = mc.functions[node.func.id].node
        pos = callee.args.posonlyargs + callee.args.args
        dmap = {}
        for a, d in zip(pos[len(pos) - len(callee.args.defaults):], callee.args.defaults):
            dmap[a.arg] = d
        for a, d in zip(callee.args.kwonlyargs, callee.args.kw_defaults):
            if d is not None:
                dmap[a.arg] = d
        for k in node.keywords:
            if k.arg is None:
                continue
            n += 1
            v = k.value
            soft = isinstance(v, ast.Call) and isinstance(v.func, ast.Attribute) and v.func.attr == 'get' and (
                len(v.args) == 1 or (len(v.args) == 2 and isinstance(v.args[1], ast.Constant) and v.args[1].value is None))
            dflt = dmap.get(k.arg)
            ok = not (soft and isinstance(dflt, ast.Constant) and dflt.value is not None)
            ctx.ob('K-HASH', '%s:%d %s(%s=...) keeps the encoder\'s default when the option is unset' % (mk.rel, node.lineno, node.func.id, k.arg), ok)
            if not ok:
                ctx.fail('K-HASH', '%s:%d' % (mk.rel, node.lineno), '%s=%s forwarded to crypto.%s (default %s)' % (k.arg, unparse(v)[:30], node.func.id, unparse(dflt)),
                         'the keymap calls crypto.%s(..., %s=%s): when the option was never configured this passes None, but the encoder\'s own default is %s and it treats '
                         'None differently (string(): characters the codec cannot encode are dropped instead of raising) - arguments that differ only in such characters get '
                         'one key, and a cached call is answered with another call\'s result' % (node.func.id, k.arg, unparse(v)[:40], unparse(dflt)),
                         '%s:%d' % (mk.rel, node.lineno))
    if n < 3:
        raise AnalysisError('K-HASH (forwarded options): fewer than three keyword arguments passed from keymaps.py to the crypto encoders')


def rule_K_RED(ctx, repo):
    """K-RED (a pickled or copied keymap keys as the original does): keymaps travel inside pickled decorators and are copied by `a + b`.  The default protocol
    carries the instance __dict__ whole.  A pickling / copying hook of a keymap class (__reduce__, __reduce_ex__, __getstate__, __copy__, __deepcopy__) that
    rebuilds the object from selected settings must name every attribute the constructors set - or carry self.__dict__ - otherwise the clone silently reverts
    the ones left out (the fast types, the sorted / tuple / type / len hooks) and computes other keys than the process that archived the results."""
    m = repo.mod('keymaps')
    if 'keymap' not in m.classes:
        raise AnalysisError('anchor vanished: keymaps.keymap')
    n = 0
    for lab, ci in sorted(m.classes.items()):
        attrs = {}
        for c in [ci] + list(ci.ancestors()):
            init = (c.own_methods if hasattr(c, 'own_methods') else c.methods).get('__init__')
            if init is None:
                continue
            selfn = init.node.args.args[0].arg if init.node.args.args else 'self'
            for x in ast.walk(init.node):
                if isinstance(x, ast.Attribute) and isinstance(x.ctx, ast.Store) and isinstance(x.value, ast.Name) and x.value.id == selfn:
                    attrs.setdefault(x.attr, x.lineno)
        own = ci.own_methods if hasattr(ci, 'own_methods') else ci.methods
        for h in ('__reduce__', '__reduce_ex__', '__getstate__', '__copy__', '__deepcopy__'):
            if h not in own:
                continue
            n += 1
            fn = own[h].node
            src = unparse(fn)
            whole = '__dict__' in src or 'vars(self)' in src
            named = set(x.attr for x in ast.walk(fn) if isinstance(x, ast.Attribute)) | set(x.value for x in ast.walk(fn) if isinstance(x, ast.Constant) and isinstance(x.value, str))
            # name-mangled privates: self.__x is stored as _Class__x
            missing = sorted(a for a in attrs if a not in named and a.split('__', 1)[-1] not in named) if not whole else []
            ctx.ob('K-RED', '%s.%s carries every attribute the constructors set (%d)' % (lab, h, len(attrs)), not missing)
            if missing:
                ctx.fail('K-RED', '%s::%s.%s' % (m.rel, lab, h), '%s leaves out %s' % (h, ', '.join(missing)[:60]),
                         '%s.%s rebuilds the keymap without %s (set by the constructor): a keymap that was built with one of these customised comes back with the '
                         'defaults after pickling or copying (dill ships decorated functions to other processes; `a + b` copies its operands), so the clone computes '
                         'different keys for the same calls - results archived by the original are missed and recomputed' % (lab, h, ', '.join(missing)), '%s:%d' % (m.rel, fn.lineno))
    ctx.ob('K-RED', 'pickling / copying hooks of keymap classes examined', True, n=max(n, 1))


def rule_K_ENCFALLBACK(ctx, repo):
    """K-HASH (a named encoder is the encoder): crypto.pickle / crypto.string / crypto.hash, asked for a serializer / encoding / algorithm, return that
    encoder's output or raise.  A fallback to repr(object) / str(object) / builtin hash when the encoder fails produces a key that is not information
    preserving (two unequal arguments whose repr hides the difference share it; builtin hash differs per process) where there used to be no key at all -
    the plain caches raised and the safe ones evaluated uncached, both with the right result."""
    m = repo.mod('crypto')
    n = 0
    WEAK = ('repr', 'str', 'hash', '__hash', 'id', 'hex')
    for fname, choice in (('pickle', 'serializer'), ('string', 'encoding'), ('hash', 'algorithm')):
        fi = m.functions.get(fname)
        if fi is None:
            raise AnalysisError('anchor vanished: klepto/crypto.py::%s' % fname)
        fn = fi.node
        parent = {}
        for x in ast.walk(fn):
            for c in ast.iter_child_nodes(x):
                parent[c] = x
        for r in ast.walk(fn):
            if not (isinstance(r, ast.Return) and isinstance(r.value, ast.Call) and isinstance(r.value.func, ast.Name) and r.value.func.id in WEAK):
                continue
            # a bare builtin(object): allowed only where the caller asked for none (`if <choice> is None:`)
            if not (r.value.args and isinstance(r.value.args[0], ast.Name) and r.value.args[0].id == fn.args.args[0].arg and len(r.value.args) == 1 and not r.value.keywords):
                continue
            n += 1
            asked_none = False
            in_handler = False
            cur = r
            while cur in parent and cur is not fn:
                p_ = parent[cur]
                if isinstance(p_, ast.If) and cur in p_.body:
                    t = unparse(p_.test)
                    if t in ('%s is None' % choice, 'not %s' % choice, '%s == None' % choice):
                        asked_none = True
                if isinstance(p_, ast.If) and cur in p_.orelse and unparse(p_.test) in ('%s is not None' % choice, choice, '%s != None' % choice):
                    asked_none = True
                # an earlier `if <choice> is not None: return ...` leaves only the None case for what follows
                for fld in ('body', 'orelse', 'finalbody'):
                    blk = getattr(p_, fld, None)
                    if isinstance(blk, list) and cur in blk:
                        for st_ in blk[:blk.index(cur)]:
                            if isinstance(st_, ast.If) and unparse(st_.test) in ('%s is not None' % choice, '%s != None' % choice) and st_.body \
                                    and isinstance(st_.body[-1], (ast.Return, ast.Raise)):
                                asked_none = True
                if isinstance(p_, ast.ExceptHandler):
                    in_handler = True
                cur = p_
            ok = asked_none and not in_handler
            ctx.ob('K-HASH', 'crypto.%s: `%s` only where no %s was asked for' % (fname, unparse(r)[:30], choice), ok)
            if not ok:
                ctx.fail('K-HASH', fi.qual, '%s falls back to %s' % (fname, r.value.func.id),
                         'crypto.%s returns %s(%s) on a path where a %s was requested (%s): the key is then built from a text that does not identify the argument '
                         '(repr hides state, builtin hash changes per process), so calls with unequal arguments share an entry or a later session misses - before, such an '
                         'argument had no key and the call was evaluated' % (fname, r.value.func.id, r.value.args[0].id, choice,
                                                                              'inside an exception handler' if in_handler else 'outside `if %s is None`' % choice),
                         '%s:%d' % (m.rel, r.lineno))
    ctx.ob('K-HASH', 'weak-encoder returns of the crypto functions examined', True, n=max(n, 1))


def rule_K_CHAIN_COPIES(ctx, repo):
    """K-STATE (a chain owns its links): `a + b` stores copies of its operands as the links of the result.  Storing the operands themselves makes the chain an
    alias of objects the caller still holds: assigning `a.typed = True` (to build another chain, in a module only one of two sessions imports) changes the
    keys of the chain that is already in use - the same call is keyed differently depending on what else the process did."""
    m = repo.mod('keymaps')
    ci = m.classes.get('keymap')
    if ci is None or '__add__' not in ci.methods:
        raise AnalysisError('anchor vanished: keymaps.keymap.__add__')
    fn = ci.methods['__add__'].node
    params = [a.arg for a in fn.args.args]
    n = 0
    for x in ast.walk(fn):
        if isinstance(x, ast.Assign):
            for t in x.targets:
                if isinstance(t, ast.Attribute) and t.attr in ('__inner__', '__outer__', 'inner', 'outer'):
                    n += 1
                    bare = isinstance(x.value, ast.Name) and x.value.id in params
                    ctx.ob('K-STATE', 'keymap.__add__: the link %s is a copy of the operand' % t.attr, not bare)
                    if bare:
                        ctx.fail('K-STATE', ci.methods['__add__'].qual, 'chain link %s aliases the operand' % t.attr,
                                 'keymap.__add__ stores the operand `%s` itself as %s of the chain: a later change of that keymap through its public attributes (typed, flat, '
                                 'sentinel - e.g. while composing a second chain) silently changes the keys of the chain already handed to a decorator, so one call is keyed '
                                 'differently in two sessions that differ only in what else they set up' % (x.value.id, t.attr), '%s:%d' % (m.rel, x.lineno))
    if n < 2:
        raise AnalysisError('anchor vanished: keymap.__add__ no longer assigns the chain links')
