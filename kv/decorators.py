"""Role resolution for the cache decorator classes (DESIGN 3.2) and path enumeration of their
closures."""
import ast

from .src import AnalysisError, unparse, walk_no_nested
from .paths import Engine, C, NONE, is_const, render, GENERIC, BASEONLY, RETURN, RAISE, NEXT, St
from .wmodel import (WrapperModel, CACHE, FN, KEYMAP, IGNORE, ROUND, MAXSIZE, PURGE, SELF, STATE_KEYS,
                     is_bk, libname)

DECORATOR_MODULES = ('_cache', 'safe')
EXPECTED = ('no_cache', 'inf_cache', 'lfu_cache', 'lru_cache', 'mru_cache', 'rr_cache')
IFACE = ('info', 'clear', 'load', 'dump', 'archive', 'archived', 'key', 'lookup',
         '__cache__', '__mask__', '__map__', '__wrapped__')


def handler_tokens(fnode):
    """exception classes named by handlers inside a function (to split 'Any' exactly)"""
    toks = set()
    for n in ast.walk(fnode):
        if isinstance(n, ast.ExceptHandler) and n.type is not None:
            elts = n.type.elts if isinstance(n.type, ast.Tuple) else [n.type]
            for e in elts:
                if isinstance(e, ast.Name):
                    toks.add(e.id)
                elif isinstance(e, ast.Attribute):
                    toks.add(e.attr)
    toks.discard('Exception')
    toks.discard('BaseException')
    return toks


class Decorator(object):
    """one decorator class: roles, closures, interface table"""

    def __init__(self, repo, modname, ci, unroll=2, path_index=0):
        self.repo = repo
        self.modname = modname
        self.module = repo.mod(modname)
        self.ci = ci
        self.name = ci.name
        self.qual = ci.qual
        self.unroll = unroll
        self.path_index = path_index      # which straight-line path through __call__ this object describes (helpers with a case split fork it)
        if '__call__' not in ci.methods:
            raise AnalysisError('anchor vanished: %s.__call__' % ci.qual)
        self.call_fi = ci.methods['__call__']
        self.updater = None
        self.state_consts, self.state_exprs, self.init_params = self._state_consts()
        self._resolve()

    # ------------------------------------------------------------------ __init__ constants
    def _state_consts(self):
        """constants pinned by __init__ before it fills __state__ (e.g. no_cache: maxsize = 0): the value stored under a key is the same
        constant on every path of __init__ that sets __state__ (helper functions of the module are inlined)"""
        init = self.ci.methods.get('__init__')
        consts, exprs, params = {}, {}, []
        if init is None:
            return consts, exprs, params
        a = init.node.args
        params = [x.arg for x in a.args][1:]
        from .rules_wrappers import PlainModel
        eng = Engine(PlainModel(init.module), unroll=1)
        try:
            outs = eng.run_function(init.node, {}, params={a.args[0].arg: SELF})
        except AnalysisError:
            outs = []
        seen = {}
        for o in outs:
            if o.kind != RETURN:
                continue
            sets = [e for e in o.st.events if e.kind == 'SELFSET' and e.args[0] == SELF and e.args[1] == C('__state__')]
            if not sets:
                continue
            stt = sets[-1].args[2]
            if stt[0] != 'dict':
                continue
            for k, v in stt[1]:
                if k is not None and is_const(k):
                    seen.setdefault(k[1], []).append(v)
        for k, vs in seen.items():
            exprs[k] = vs[0]
            if all(is_const(v) and v == vs[0] for v in vs):
                consts[k] = vs[0][1]
        return consts, exprs, params

    # ------------------------------------------------------------------ __call__ roles
    def _resolve(self):
        fnode = self.call_fi.node
        args = [x.arg for x in fnode.args.args]
        if len(args) != 2:
            raise AnalysisError('%s.__call__ does not have the (self, function) signature' % self.qual)
        self.model = WrapperModel(self.module, self.state_consts)
        self.engine = Engine(self.model, unroll=self.unroll)
        params = {args[0]: SELF, args[1]: FN}
        outs = self.engine.run_function(fnode, {}, params=params, facts={'in_call': True})
        rets = [o for o in outs if o.kind == RETURN]
        if not rets or len(rets) > 8:
            raise AnalysisError('%s.__call__ has %d return paths (expected a straight-line body, or a few paths through helper case splits)' % (self.qual, len(rets)))
        self.n_paths = len(rets)
        out = rets[min(self.path_index, len(rets) - 1)]
        self.env = out.st.env
        self.call_events = out.st.events
        self.lists = out.st.facts.get('lists', {})
        # the wrapper: returned closure (directly or through update_wrapper)
        v = out.val
        w = None
        if v[0] == 'closure':
            w = v
        elif v[0] == 'call' and libname(v[1]) in ('update_wrapper', 'wraps') and v[2] and v[2][0][0] == 'closure':
            w = v[2][0]
        elif v[0] == 'call' and v[1][0] == 'call' and libname(v[1][1]) == 'wraps' and v[2] and v[2][0][0] == 'closure':
            w = v[2][0]          # functools.wraps(f)(wrapper) is update_wrapper(wrapper, f); the argument of wraps is judged by W-IFACE
        elif v[0] == 'call' and v[1][0] == 'lib' and len(v[2]) >= 2 and v[2][0][0] == 'closure' and v[2][1] == FN and self.package_function(v[1][1]) is not None:
            # a helper of the package that finishes the wrapper (a replacement for functools.update_wrapper): judged by W-IFACE (rule_W_UPDATER)
            w = v[2][0]
            self.updater = self.package_function(v[1][1])
        if w is None:
            raise AnalysisError('%s.__call__: cannot identify the returned wrapper closure (%s)' % (self.qual, render(v)))
        self.wrapper_val = w
        self.wrapper_node = self.engine._closures[w[2]][0]
        wa = self.wrapper_node.args
        if wa.args or not wa.vararg or not wa.kwarg:
            raise AnalysisError('%s: wrapper does not have the (*args, **kwds) signature' % self.qual)
        self.ARGS = ('param', wa.vararg.arg)
        self.KWDS = ('param', wa.kwarg.arg)
        # interface table
        self.iface = {}
        for e in self.call_events:
            if e.kind == 'SETATTR' and e.args[0] == w:
                self.iface[e.args[1][1]] = (e.args[2], e.line)
        # bookkeeping structures: every bk container bound in __call__ except the stats vector
        self.bknames = {}
        for k, val in self.env.items():
            if is_bk(val):
                self.bknames.setdefault(val, k)
        self.stats = None
        self._find_stats()
        self.bk = sorted([b for b in self.bknames if b[2] in ('deque', 'counter', 'odict')], key=lambda b: b[1])
        self.any_tokens = sorted(set(['KeyError', 'TypeError', GENERIC, BASEONLY]) | handler_tokens(self.wrapper_node))
        self.model.any_tokens = self.any_tokens
        self.model.bknames = self.bknames

    def package_function(self, dotted):
        """(module, FuncInfo) of a module-level function of the package named by a resolved dotted name, or None"""
        parts = dotted.lstrip('.').split('.')
        fname = parts[-1]
        if fname in self.module.functions and (len(parts) == 1 or dotted.startswith(self.module.rel + '.')):
            return (self.module, self.module.functions[fname])
        for cand in reversed(parts[:-1]):
            m2 = self.repo.modules.get(cand)
            if m2 is not None and fname in m2.functions:
                return (m2, m2.functions[fname])
        return None

    def closure_node(self, v):
        if v is None or v[0] != 'closure':
            return None
        return self.engine._closures[v[2]][0]

    def _find_stats(self):
        """STATS = the list whose elements are the first three arguments of CacheInfo(...) in info()"""
        info = self.iface.get('info')
        self.stat_index = {}
        self.info_call = None
        self.stats_shared = None
        if info is None or info[0][0] != 'closure':
            return
        node = self.closure_node(info[0])
        outs = self.run(node)
        for o in outs:
            if o.kind != RETURN:
                continue
            v = o.val
            if v[0] == 'call' and libname(v[1]) == 'CacheInfo':
                # CacheInfo(*stats, ...) with the 3-element literal list of __call__ is CacheInfo(stats[0], stats[1], stats[2], ...)
                if any(a[0] == 'star' and is_bk(a[1], 'list') and a[1] in self.lists for a in v[2]):
                    flat = []
                    for a in v[2]:
                        if a[0] == 'star' and is_bk(a[1], 'list') and a[1] in self.lists:
                            flat.extend(('sub', a[1], C(i)) for i in range(len(self.lists[a[1]][1])))
                        else:
                            flat.append(a)
                    v = (v[0], v[1], tuple(flat)) + tuple(v[3:])
                # CacheInfo(hit=..., miss=..., load=..., maxsize=..., size=...): keywords are placed at the position of the field they name
                if len(v) > 3 and v[3] and all(k[0] == 'kw' for k in v[3]):
                    flds = cacheinfo_fields(self.repo)
                    slots = list(v[2]) + [None] * (len(flds) - len(v[2]))
                    okk = len(v[2]) <= len(flds)
                    for k in v[3]:
                        if okk and k[1] in flds and slots[flds.index(k[1])] is None:
                            slots[flds.index(k[1])] = k[2]
                        else:
                            okk = False
                    if okk and None not in slots:
                        v = (v[0], v[1], tuple(slots), ()) + tuple(v[4:])
                self.info_call = v
                for a in v[2][:3]:
                    if a[0] == 'sub' and is_bk(a[1], 'list'):
                        self.stats = a[1]
                    elif a[0] == 'sub' and contains_self(a[1]):
                        self.stats_shared = a[1]      # counters live on the decorator object, not in the per-function closure
        if self.stats is not None:
            fields = cacheinfo_fields(self.repo)
            v = self.info_call
            for i, a in enumerate(v[2]):
                if a[0] == 'sub' and a[1] == self.stats and is_const(a[2]) and i < len(fields):
                    self.stat_index[a[2][1]] = fields[i]

    def bkname(self, b):
        return self.bknames.get(b, b[1])

    # ------------------------------------------------------------------ enumeration
    def run(self, fnode, unroll=None, known=None):
        """known: the published parameter names of an interface closure; a parameter added later is judged at its constant default
        (`clear(keepstats=False, dump=False)` behaves like today's clear unless the new flag is used)"""
        if unroll is not None:
            self.engine.unroll = unroll
        self.model.assumed = []
        params = None
        if known is not None:
            a = fnode.args
            pos = [x.arg for x in a.args]
            dflt = dict(zip(pos[len(pos) - len(a.defaults):], a.defaults)) if a.defaults else {}
            for x, dv in zip(a.kwonlyargs, a.kw_defaults):
                if dv is not None:
                    dflt[x.arg] = dv
            params = dict((n, C(dv.value)) for n, dv in dflt.items() if n not in known and isinstance(dv, ast.Constant))
        return self.engine.run_function(fnode, self.env, params=params, facts={})

    def wrapper_paths(self, unroll=None):
        return self.run(self.wrapper_node, unroll)

    def K(self):
        """the key normal form of DESIGN 3.5"""
        kg = None
        for nm, origin in self.module.imports.items():
            if origin.endswith('._keygen') or origin == '_keygen' or nm == '_keygen':
                kg = ('lib', origin)
        if kg is None:
            raise AnalysisError('anchor vanished: _keygen import in %s' % self.module.rel)
        Rr = ('call', ROUND, (('star', self.ARGS),), (('dstar', self.KWDS),))
        G = ('call', kg, (FN, IGNORE, ('star', ('proj', 0, Rr))), (('dstar', ('proj', 1, Rr)),))
        K = ('call', KEYMAP, (('star', ('proj', 0, G)),), (('dstar', ('proj', 1, G)),))
        return K


def contains_self(t):
    if t == SELF:
        return True
    if isinstance(t, tuple):
        if t and t[0] in ('state', 'role'):
            return True
        return any(contains_self(x) for x in t if isinstance(x, tuple))
    return False


def cacheinfo_fields(repo):
    m = repo.mod('tools')
    node = m.consts.get('CacheInfo')
    if isinstance(node, ast.Call) and len(node.args) >= 2 and isinstance(node.args[1], (ast.List, ast.Tuple)):
        return [e.value for e in node.args[1].elts if isinstance(e, ast.Constant)]
    if isinstance(node, ast.Call) and len(node.args) >= 2 and isinstance(node.args[1], ast.Constant) and isinstance(node.args[1].value, str):
        return node.args[1].value.replace(',', ' ').split()           # namedtuple('CacheInfo', 'hit miss load maxsize size')
    # class CacheInfo(NamedTuple): hit: int ...   (the annotated names, in order, are the tuple layout)
    for ci in m.classes_by_name.get('CacheInfo', []):
        if any(b in ('NamedTuple', 'typing.NamedTuple') for b in ci.direct_base_names()):
            fields = [st.target.id for st in ci.node.body if isinstance(st, ast.AnnAssign) and isinstance(st.target, ast.Name)]
            if fields:
                return fields
    raise AnalysisError('anchor vanished: CacheInfo namedtuple in klepto/tools.py')


def load_decorators(repo, unroll=2):
    decs = []
    for modname in DECORATOR_MODULES:
        m = repo.mod(modname)
        found = []
        for label, ci in m.classes.items():
            if '__call__' in ci.methods and '__init__' in ci.methods and ci.name.endswith('_cache'):
                found.append(ci)
        names = set(c.name for c in found)
        missing = [n for n in EXPECTED if n not in names]
        if missing:
            raise AnalysisError('anchor vanished: decorator classes %s in %s' % (missing, m.rel))
        for ci in sorted(found, key=lambda c: c.node.lineno):
            d0 = Decorator(repo, modname, ci, unroll=unroll)
            decs.append(d0)
            for i in range(1, d0.n_paths):
                decs.append(Decorator(repo, modname, ci, unroll=unroll, path_index=i))
    if len(decs) < 12:
        raise AnalysisError('instance count below confirmed minimum: %d decorator classes (< 12)' % len(decs))
    return decs
