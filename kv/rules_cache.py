"""Rules for class `cache` (the in-memory dict bound to an archive): S-PLAIN S-EFF S-LOAD S-DUMP S-SYNC S-TOGGLE S-NULL
(DESIGN 3.9 and section 4 / C08)."""
import ast

from .src import AnalysisError, unparse
from .paths import (Engine, Model, R, C, NONE, is_const, render, render_path, subterms, contains_term, RETURN, RAISE, St)
from .wmodel import SELF, libname

ARCH = ('role', 'archive')
DICT_PRIMS = ('__setitem__', '__getitem__', '__delitem__', '__contains__', '__len__', '__iter__', 'keys', 'values', 'items',
              'get', 'pop', 'popitem', 'setdefault', 'update', 'clear', 'copy', '__eq__', '__ne__', 'fromkeys')
A_READ = ('__asdict__', '__getitem__', 'get', 'keys', 'items', 'values', '__contains__', '__len__', '__iter__', 'copy', 'load', 'archived')
A_UPDATE = ('update', '__setitem__', 'setdefault')
A_CLEAR = ('clear',)
A_REMOVE = ('pop', 'popitem', '__delitem__', 'popkeys', '__drop__', 'drop')
S_MUT = ('update', '__setitem__', 'setdefault', 'pop', 'popitem', '__delitem__', 'clear')


def cache_class(repo):
    m = repo.mod('_archives')
    ci = m.classes.get('cache')
    if ci is None:
        raise AnalysisError('anchor vanished: class cache in klepto/_archives.py')
    _canonical_slots(ci)
    return m, ci


def _canonical_slots(ci):
    """The cache object has two slots: the attached archive and the one set aside while archiving is toggled off.  They are recognised by what the constructor
    puts into them (the `archive` keyword / a fresh null_archive()), not by their names; a renamed slot (with the old name kept as a deprecated alias
    property) is mapped back to the names the rules speak of, and accessor properties of a slot are bypassed: a slot holds what was last stored in it."""
    if getattr(ci, '_slots_done', False):
        return
    ci._slots_done = True
    init = ci.methods.get('__init__')
    if init is None or not init.node.args.args:
        return
    selfn = init.node.args.args[0].arg
    swap = arch = None
    for st in init.node.body:
        if isinstance(st, ast.Assign) and len(st.targets) == 1 and isinstance(st.targets[0], ast.Attribute) and isinstance(st.targets[0].value, ast.Name) \
                and st.targets[0].value.id == selfn:
            v = st.value
            if isinstance(v, ast.Call) and isinstance(v.func, ast.Name) and v.func.id == 'null_archive' and not v.args and not v.keywords:
                swap = swap or st.targets[0].attr
            elif any(isinstance(y, ast.Constant) and y.value == 'archive' for y in ast.walk(v)):
                arch = arch or st.targets[0].attr
    ren = {}
    if swap and swap != '__swap__' and arch != swap:
        ren[swap] = '__swap__'
    if arch and arch != '__archive__':
        ren[arch] = '__archive__'
    if not ren:
        return
    for fi in ci.methods.values():
        for x in ast.walk(fi.node):
            if isinstance(x, ast.Attribute) and x.attr in ren and isinstance(x.value, ast.Name):
                x.attr = ren[x.attr]
    for old_, new_ in ren.items():
        ci.properties.pop(old_, None)
        ci.properties.pop(new_, None)      # the deprecated alias of the old name


PUBLIC_CACHE_OPS = ('load', 'dump', 'sync', 'drop', 'open', 'archived')


class CModel(Model):
    """self is the cache; self.archive is the archive role.  When `typestate` is given, the
    (archive, swap) pair is tracked concretely over the four-point domain instead."""

    def __init__(self, module, ci, typestate=False):
        Model.__init__(self)
        self.module = module
        self.ci = ci
        self.typestate = typestate
        self.n = 0

    def newid(self):
        self.n += 1
        return self.n

    def global_name(self, name, st):
        m = self.module
        if name in m.imports:
            return ('lib', m.imports[name])
        if name in m.classes_by_name:
            return ('lib', '%s.%s' % (m.rel, name))
        if name in m.functions:
            return ('lib', '%s.%s' % (m.rel, name))
        cv = m.consts.get(name)
        if self.typestate and isinstance(cv, ast.Call) and isinstance(cv.func, ast.Name) and cv.func.id == 'null_archive' and not cv.args and not cv.keywords:
            return ('arch', 'NULL')      # a shared module-level placeholder: within one process it is *the* null archive (what pickling does to it is S-IDENT's business)
        return None

    # ---- attribute access on self
    def attr_load(self, obj, attr, st, node):
        line = getattr(node, 'lineno', 0)
        if obj == SELF:
            if self.typestate and attr in ('__archive__', '__swap__'):
                return [R(st, st.facts['TS'][attr])]
            if attr in self.ci.properties:
                g = self.ci.properties[attr][0]
                if self.typestate and g is not None:
                    return self.engine.inline(g.node, g.name, {}, (), (), st, node, self_val=SELF)
                if attr == 'archive':
                    return [R(st, ARCH)]
                return [R(st, ('attr', SELF, attr))]
            if attr in self.ci.methods:
                return [R(st, ('method', attr))]
            if attr in ('__archive__', '__swap__'):
                return [R(st, ('attr', SELF, attr))]
            return [R(st, ('bound', SELF, attr))]
        if obj == ARCH:
            return [R(st, ('bound', ARCH, attr))]
        return None

    def attr_store(self, obj, attr, val, st, node):
        line = getattr(node, 'lineno', 0)
        if obj == SELF:
            if self.typestate:
                if attr in ('__archive__', '__swap__'):
                    st.facts['TS'] = dict(st.facts['TS'])
                    st.facts['TS'][attr] = val
                    return [R(st, NONE)]
                if attr in self.ci.properties and self.ci.properties[attr][1] is not None:
                    s = self.ci.properties[attr][1]
                    return self.engine.inline(s.node, s.name, {}, (val,), (), st, node, self_val=SELF)
            st.emit('REBIND', (C(attr), val), line)
            return [R(st, NONE)]
        return None

    def call(self, f, args, kws, st, node):
        line = getattr(node, 'lineno', 0)
        ln = libname(f)
        if f[0] == 'method':
            if getattr(self, 'compose_public', False) and f[1] in PUBLIC_CACHE_OPS:
                # a later addition that composes the published operations: each of those is judged on its own, the composition adds no effect of its own
                st.emit('PUBLICOP', (C(f[1]),) + tuple(args), line)
                return [R(st, ('opaque', 'publicop'))]
            fi = self.ci.methods[f[1]]
            return self.engine.inline(fi.node, f[1], {}, args, kws, st, node, self_val=SELF)
        if self.typestate:
            if f[0] == 'lib' and ln == 'null_archive':
                return [R(st, ('arch', 'NULL'))]
            if f == ('lib', 'isinstance') and len(args) == 2 and args[0][0] == 'arch':
                cls = libname(args[1])
                if cls == 'null_archive':
                    return [R(st, C(args[0][1] == 'NULL'))]
                if cls == 'archive':
                    return [R(st, C(True))]
                if cls == self.ci.name:
                    return [R(st, C(False))]      # the abstract archives are archives proper, not cache objects wrapping one
        if f[0] == 'bound' and f[1] == ARCH:
            m = f[2]
            kind = 'AREAD' if m in A_READ else 'AUPDATE' if m in A_UPDATE else 'ACLEAR' if m in A_CLEAR else \
                'AREMOVE' if m in A_REMOVE else 'AOTHER'
            v = ('ev', kind.lower(), self.newid())
            st.emit(kind, (C(m),) + tuple(args) + tuple(kws), line, val=v)
            return [R(st, v)]
        if f[0] == 'bound' and f[1] == SELF:
            m = f[2]
            if m in S_MUT:
                st.emit('S' + ('UPDATE' if m in ('update', '__setitem__', 'setdefault') else 'REMOVE'), (C(m),) + tuple(args), line)
                return [R(st, ('ev', 'sres', self.newid()))]
            if m == '__getitem__' and len(args) == 1:
                v = ('ev', 'sget', self.newid())
                st.emit('SGET', tuple(args), line, val=v)
                return [R(st, v)]
            return [R(st, ('call', f, args, kws))]
        if f[0] == 'lib' and ln in self.module.functions and any(contains_term(a, lambda t: t == SELF or t == ARCH or t[0] == 'arch') for a in args):
            fi = self.module.functions[ln]
            return self.engine.inline(fi.node, ln, {}, args, kws, st, node)
        return None

    def sub_load(self, obj, idx, st, node):
        line = getattr(node, 'lineno', 0)
        if obj == ARCH:
            s2 = st.fork()
            s2.emit('AREADMISS', (C('__getitem__'), idx), line)
            v = ('ev', 'aread', self.newid())
            st.emit('AREAD', (C('__getitem__'), idx), line, val=v)
            return [R(st, v), R(s2, None, 'KeyError', line)]
        if obj == SELF:
            v = ('ev', 'sget', self.newid())
            st.emit('SGET', (idx,), line, val=v)
            return [R(st, v)]
        return None

    def sub_store(self, obj, idx, val, st, node):
        line = getattr(node, 'lineno', 0)
        if obj == ARCH:
            st.emit('AUPDATE', (C('__setitem__'), idx, val), line)
            return [R(st, NONE)]
        if obj == SELF:
            st.emit('SUPDATE', (C('__setitem__'), idx, val), line)
            return [R(st, NONE)]
        return None

    def sub_del(self, obj, idx, st, node):
        line = getattr(node, 'lineno', 0)
        if obj == ARCH:
            st.emit('AREMOVE', (C('__delitem__'), idx), line)
            return [R(st, NONE)]
        if obj == SELF:
            st.emit('SREMOVE', (C('__delitem__'), idx), line)
            return [R(st, NONE)]
        return None

    def contains(self, item, container, st, node):
        line = getattr(node, 'lineno', 0)
        if container == SELF:
            a, b = st, st.fork()
            a.emit('SHAS', (item, C(True)), line)
            b.emit('SHAS', (item, C(False)), line)
            return [R(a, C(True)), R(b, C(False))]
        if container == ARCH:
            v = ('ev', 'aread', self.newid())
            st.emit('AREAD', (C('__contains__'), item), line, val=v)
            return [R(st, v)]
        return None


def run_cache_method(m, ci, name, unroll=2, compose_public=False):
    fi = ci.methods.get(name)
    if fi is None:
        raise AnalysisError('anchor vanished: cache.%s' % name)
    model = CModel(m, ci)
    model.compose_public = compose_public
    eng = Engine(model, unroll=unroll)
    a = fi.node.args
    st_label = (name,)
    params = {a.args[0].arg: SELF}
    # the properties speak about the existing API: a parameter that was added later (not in the published signature) is judged at its
    # constant default - `drop(*, sync=False)` behaves like `drop()` unless the new flag is used
    known = KNOWN_SIGNATURES.get(name)
    if known is not None:
        pos = [x.arg for x in a.args][1:]
        dflt = dict(zip(pos[len(pos) - len(a.defaults):], a.defaults)) if a.defaults else {}
        for x, dv in zip(a.kwonlyargs, a.kw_defaults):
            if dv is not None:
                dflt[x.arg] = dv
        for pname, dv in dflt.items():
            if pname not in known and isinstance(dv, ast.Constant):
                params[pname] = C(dv.value)
    outs = eng.run_function(fi.node, {}, params=params)
    return fi, outs


KNOWN_SIGNATURES = {'load': (), 'dump': (), 'sync': ('clear',), 'archived': (), 'open': ('archive',), 'drop': (), 'popkeys': ('keys',),
                    '__init__': (), '__repr__': (), 'to_frame': ()}


AKINDS = ('AREAD', 'AREADMISS', 'AUPDATE', 'ACLEAR', 'AREMOVE', 'AOTHER', 'REBIND')


def rule_S_PLAIN_EFF(ctx, repo):
    m, ci = cache_class(repo)
    over = [n for n in DICT_PRIMS if n in ci.methods]
    ctx.ob('S-PLAIN', 'cache overrides no dict primitive', not over)
    if over:
        ctx.fail('S-PLAIN', ci.qual, 'overrides %s' % ','.join(over),
                 'class cache overrides dict primitive(s) %s: plain dict operations on the cache must not touch the archive' % over, ci.where)
    if 'dict' not in ci.base_names():
        ctx.fail('S-PLAIN', ci.qual, 'not a dict subclass', 'class cache is no longer a dict subclass', ci.where)
    allowed = {'load': {'AREAD', 'AREADMISS'}, 'dump': {'AUPDATE'}, 'sync': {'ACLEAR', 'AUPDATE', 'AREAD', 'AREADMISS'},
               'archived': {'REBIND', 'AREAD'}, 'open': {'REBIND', 'AREAD'}, 'drop': {'REBIND', 'AREAD'}, '__init__': {'REBIND'},
               'to_frame': {'AREAD'}, '__repr__': set(), 'popkeys': set()}
    accessors = set()
    for g, st_ in ci.properties.values():
        for f_ in (g, st_):
            if f_ is not None:
                accessors.add(f_.name)
    for name, fi in sorted(ci.methods.items()):
        if name.startswith('_') and not name.endswith('__') and name not in accessors:
            continue      # a private helper method: its effects are judged in the public methods that call it (it is inlined there)
        if name.startswith('_') and name not in ('__init__', '__repr__'):
            # private property helpers: getters may rebind a corrupted slot, setter rebinding is their job
            allow = {'REBIND', 'AREAD'}
            new_method = False
        elif name in allowed or name in DICT_PRIMS or hasattr(dict, name):
            allow = allowed.get(name, set())
            new_method = False
        else:
            # a method that is not part of the published interface (a later addition): it may consult the archive, it must not change it
            # other than by composing the public operations - which are judged themselves
            allow = {'AREAD', 'AREADMISS'}
            new_method = True
        fi, outs = run_cache_method(m, ci, name, compose_public=new_method)
        ctx.analysed(fi.qual)
        ctx.add_paths(outs, fi.qual, trivial_kinds=('BRANCH', 'CAUGHT'))
        seen = set()
        for o in outs:
            for e in o.st.events:
                if e.kind in AKINDS:
                    seen.add(e.kind)
                    if e.kind not in allow:
                        ctx.fail('S-EFF', fi.qual, '%s in %s' % (e.kind, name),
                                 'cache.%s performs %s(%s) on the archive; allowed archive effects of this method: %s' % (
                                     name, e.kind, ', '.join(render(a) for a in e.args), sorted(allow) or 'none'),
                                 '%s:%d' % (m.rel, e.line), render_path(o))
        ctx.ob('S-EFF', 'cache.%s effects %s' % (name, sorted(seen)), seen <= allow)


def _keys_not_reinterpreted(ctx, m, fi, rule):
    """each positional argument of load / dump is one key: the *args tuple is never re-bound (e.g. to its own first element "when a list or tuple of keys
    is given") - the keys the keymaps produce are themselves tuples, so the wrappers' dump(key) / load(key) would be taken for a collection of keys"""
    va = fi.node.args.vararg.arg
    hits = [n for n in ast.walk(fi.node) if isinstance(n, ast.Name) and n.id == va and isinstance(n.ctx, ast.Store)]

    def mentions(x):
        return any(isinstance(y, ast.Name) and y.id == va for y in ast.walk(x))
    for st in ast.walk(fi.node):
        # args += tuple(keys) / args = args + tuple(keys): more keys from another parameter are appended, every positional argument is still one key
        if isinstance(st, ast.AugAssign) and isinstance(st.op, ast.Add) and isinstance(st.target, ast.Name) and st.target.id == va and not mentions(st.value):
            hits = [n for n in hits if n is not st.target]
        if isinstance(st, ast.Assign) and len(st.targets) == 1 and isinstance(st.targets[0], ast.Name) and st.targets[0].id == va \
                and isinstance(st.value, ast.BinOp) and isinstance(st.value.op, ast.Add) and isinstance(st.value.left, ast.Name) and st.value.left.id == va \
                and not mentions(st.value.right):
            hits = [n for n in hits if n is not st.targets[0]]
    ctx.ob(rule, 'cache.%s: each positional argument is one key (*%s is not re-bound)' % (fi.name, va), not hits)
    for n in hits:
        ctx.fail(rule, fi.qual, '*%s re-bound' % va,
                 'cache.%s re-binds its *%s (line %d): a single argument that is itself a list / tuple is then taken for a collection of keys.  The keys produced by '
                 'klepto.keymaps.keymap() are tuples, and the wrappers call cache.%s(key) with exactly one argument: the elements of the key are transferred instead '
                 'of the entry - an evicted result never reaches the archive, an archived one is never loaded' % (fi.name, va, n.lineno, fi.name),
                 '%s:%d' % (m.rel, n.lineno))


def _arg_elem(k, ARGS):
    """k is one element of *args: `for a in args` or `for i, a in enumerate(args)`"""
    if k[0] == 'iter' and k[1] == ARGS:
        return True
    return k[0] == 'proj' and k[1] == 1 and k[2][0] == 'iter' and k[2][1][0] == 'call' and k[2][1][1] == ('lib', 'enumerate') \
        and k[2][1][2] == (ARGS,) and not k[2][1][3]


def rule_S_LOAD_DUMP(ctx, repo):
    m, ci = cache_class(repo)
    # ---------------- load
    fi, outs = run_cache_method(m, ci, 'load')
    ctx.analysed(fi.qual)
    a = fi.node.args
    if not a.vararg:
        raise AnalysisError('cache.load does not take *args')
    ARGS = ('param', a.vararg.arg)
    _keys_not_reinterpreted(ctx, m, fi, 'S-LOAD')
    n_bulk = n_key = 0
    swallowed = False
    for o in outs:
        evs = o.st.events
        bad = [e for e in evs if e.kind in ('AUPDATE', 'ACLEAR', 'AREMOVE', 'AOTHER', 'SREMOVE', 'REBIND')]
        for e in bad:
            ctx.fail('S-LOAD', fi.qual, 'load performs %s' % e.kind, 'cache.load performs %s: load may only read the archive and add to the cache' % e.kind,
                     '%s:%d' % (m.rel, e.line), render_path(o))
        argt = o.st.facts.get('truth', {}).get(ARGS)
        ups = [e for e in evs if e.kind == 'SUPDATE']
        if argt is False and o.kind == RETURN:
            n_bulk += 1
            ok = len(ups) == 1 and len(ups[0].args) == 2 and ups[0].args[1][0] == 'ev' and \
                any(e.kind == 'AREAD' and e.val == ups[0].args[1] and e.args[0] == C('__asdict__') for e in evs)
            ctx.ob('S-LOAD', 'load() whole archive', ok)
            if not ok:
                ctx.fail('S-LOAD', fi.qual, 'bulk load', 'cache.load() without arguments does not update the cache with the whole archive (archive.__asdict__())',
                         '%s:%d' % (m.rel, fi.node.lineno), render_path(o))
        elif argt is True:
            # per key: AREAD(x) ; SUPDATE({x: value}) with the same x = loop variable over args
            ok = True
            why = ''
            for i, e in enumerate(evs):
                if e.kind == 'SUPDATE':
                    n_key += 1
                    d = e.args[1] if len(e.args) == 2 else None
                    if len(e.args) == 3 and e.args[0] == C('__setitem__'):
                        d = ('dict', ((e.args[1], e.args[2]),))           # self[arg] = value is self.update({arg: value})
                    good = d is not None and d[0] == 'dict' and len(d[1]) == 1
                    if good:
                        k, v = d[1][0]
                        rd = [x for x in evs[:i] if x.kind == 'AREAD' and x.val == v]
                        good = bool(rd) and rd[0].args[1] == k and _arg_elem(k, ARGS)
                    if not good:
                        ok = False
                        why = 'a loaded key is not copied as {arg: archive[arg]} for the same argument'
                        ctx.fail('S-LOAD', fi.qual, 'per-key load %s' % render(d)[:60], 'cache.load(k...): ' + why, '%s:%d' % (m.rel, e.line), render_path(o))
                if e.kind == 'AREADMISS':
                    # absent key: must be swallowed and the loop must go on
                    later = evs[i + 1:]
                    if o.kind == RETURN:
                        swallowed = True
            # conversely: every named key is looked up in the archive (no "known to be absent / already here" shortcut decided from what this handle remembers:
            # the archive is shared storage, another handle may have written the key since)
            elems = set()
            for src_ in [t for t in o.st.facts.get('truth', {})] + [a_ for e in evs for a_ in e.args if isinstance(a_, tuple)]:
                for t in subterms(src_):
                    if isinstance(t, tuple) and t and t[0] == 'iter' and t[1] == ARGS:
                        elems.add(t)
            for k in sorted(elems, key=repr):
                asked = any(e.kind in ('AREAD', 'AREADMISS') and len(e.args) > 1 and e.args[1] == k for e in evs)
                if not asked and o.kind == RETURN:
                    ok = False
                    ctx.fail('S-LOAD', fi.qual, 'named key not looked up',
                             'cache.load(k...) has a path on which a named key is not read from the archive (%s): what this handle remembers about the archive '
                             '("known to be absent", "already loaded") is stale as soon as another handle or process writes the key - a result that is retrievable '
                             'is then not loaded and the function is evaluated again' % '; '.join('%s is %s' % (render(t)[:40], b) for t, b in list(o.st.facts.get('truth', {}).items())[-2:]),
                             '%s:%d' % (m.rel, fi.node.lineno), render_path(o))
            if o.kind == RAISE and o.exc == 'KeyError':
                ctx.fail('S-LOAD', fi.qual, 'KeyError escapes load', 'cache.load(k...) does not ignore keys that are absent from the archive',
                         '%s:%d' % (m.rel, o.line), render_path(o))
            ctx.ob('S-LOAD', None, ok)
    ctx.ob('S-LOAD', 'absent keys ignored', swallowed)
    if not swallowed:
        ctx.fail('S-LOAD', fi.qual, 'absent key handling', 'no path of cache.load(k...) continues after an absent key', '%s:%d' % (m.rel, fi.node.lineno))
    if n_bulk < 1 or n_key < 1:
        raise AnalysisError('cache.load: bulk/per-key transfer sites not recognised (%d/%d)' % (n_bulk, n_key))
    # ---------------- dump
    fi, outs = run_cache_method(m, ci, 'dump')
    ctx.analysed(fi.qual)
    a = fi.node.args
    if not a.vararg:
        raise AnalysisError('cache.dump does not take *args')
    ARGS = ('param', a.vararg.arg)
    _keys_not_reinterpreted(ctx, m, fi, 'S-DUMP')
    n_bulk = n_key = 0
    for o in outs:
        evs = o.st.events
        bad = [e for e in evs if e.kind in ('ACLEAR', 'AREMOVE', 'AOTHER', 'SREMOVE', 'SUPDATE', 'REBIND')]
        for e in bad:
            ctx.fail('S-DUMP', fi.qual, 'dump performs %s' % e.kind, 'cache.dump performs %s: dump may only add/overwrite archive entries for cached keys' % e.kind,
                     '%s:%d' % (m.rel, e.line), render_path(o))
        if o.kind != RETURN:
            ctx.fail('S-DUMP', fi.qual, 'dump raises %s' % o.exc, 'cache.dump can raise %s by itself' % o.exc, '%s:%d' % (m.rel, o.line), render_path(o))
            continue
        argt = o.st.facts.get('truth', {}).get(ARGS)
        ups = [(i, e) for i, e in enumerate(evs) if e.kind == 'AUPDATE']
        if argt is False:
            n_bulk += 1
            ok = len(ups) == 1 and ups[0][1].args[0] == C('update') and ups[0][1].args[1:] == (SELF,)
            ctx.ob('S-DUMP', 'dump() whole cache', ok)
            if not ok:
                ctx.fail('S-DUMP', fi.qual, 'bulk dump', 'cache.dump() without arguments does not update the archive with the whole cache',
                         '%s:%d' % (m.rel, fi.node.lineno), render_path(o))
        elif argt is True:
            ok = True
            for i, e in ups:
                n_key += 1
                d = e.args[1] if len(e.args) >= 2 else None
                good = e.args[0] == C('update') and d is not None and d[0] == 'dict' and len(d[1]) == 1
                if good:
                    k, v = d[1][0]
                    rd = [x for x in evs[:i] if x.kind == 'SGET' and x.val == v]
                    has = [x for x in evs[:i] if x.kind == 'SHAS' and x.args[0] == k and x.args[1] == C(True)]
                    good = bool(rd) and rd[0].args[0] == k and _arg_elem(k, ARGS) and bool(has)
                if not good:
                    ok = False
                    ctx.fail('S-DUMP', fi.qual, 'per-key dump %s' % render(d)[:60],
                             'cache.dump(k...) does not write {arg: self[arg]} for the same argument, guarded by "arg in self"',
                             '%s:%d' % (m.rel, e.line), render_path(o))
            # conversely: every named key that is resident is written (no "already archived" shortcut decided from cache-side bookkeeping)
            for i, e in enumerate(evs):
                if e.kind == 'SHAS' and e.args[1] == C(True) and _arg_elem(e.args[0], ARGS):
                    k = e.args[0]
                    wrote = any(x.kind == 'AUPDATE' and len(x.args) >= 2 and x.args[1][0] == 'dict' and x.args[1][1] and x.args[1][1][0][0] == k for x in evs[i:])
                    if not wrote:
                        ok = False
                        ctx.fail('S-DUMP', fi.qual, 'resident key not written',
                                 'cache.dump(k...) has a path on which a named key is resident ("arg in self") but is not written to the archive: an entry the '
                                 'decorators dump before evicting it can leave memory without reaching the archive', '%s:%d' % (m.rel, e.line), render_path(o))
            ctx.ob('S-DUMP', None, ok)
    if n_bulk < 1 or n_key < 1:
        raise AnalysisError('cache.dump: bulk/per-key transfer sites not recognised (%d/%d)' % (n_bulk, n_key))


def rule_S_SYNC(ctx, repo):
    m, ci = cache_class(repo)
    fi, outs = run_cache_method(m, ci, 'sync')
    ctx.analysed(fi.qual)
    a = fi.node.args
    clearp = ('param', a.args[1].arg) if len(a.args) > 1 else None
    n = 0
    for o in outs:
        if o.kind != RETURN:
            continue
        cl = o.st.facts.get('truth', {}).get(clearp)
        evs = [e for e in o.st.events if e.kind in ('ACLEAR', 'AUPDATE', 'AREAD', 'SUPDATE')]
        seq = [e.kind for e in evs]
        n += 1
        if cl is True:
            ok = seq == ['ACLEAR', 'AUPDATE'] and evs[1].args[1:] == (SELF,)
            want = 'archive.clear(); dump() and nothing else'
        elif cl is False:
            ok = seq == ['AUPDATE', 'AREAD', 'SUPDATE'] and evs[0].args[1:] == (SELF,) and evs[1].args[0] == C('__asdict__') and evs[2].args[1] == evs[1].val
            want = 'dump(); load() in that order, without clearing'
        else:
            ok = False
            want = 'a decision on the clear flag'
        ctx.ob('S-SYNC', 'sync(clear=%s): %s' % (cl, ' '.join(seq)), ok)
        if not ok:
            ctx.fail('S-SYNC', fi.qual, 'sync(clear=%s) does %s' % (cl, ' '.join(seq)),
                     'cache.sync(clear=%s) performs [%s]; the algebra requires %s' % (cl, ' '.join(seq), want), '%s:%d' % (m.rel, fi.node.lineno), render_path(o))
    if n < 2:
        raise AnalysisError('cache.sync: fewer paths than confirmed')


# ---------------------------------------------------------------------------------------------
# typestate of (archive, swap)
def ts_run(m, ci, op, state, arg=None):
    """abstractly interpret one operation from abstract state (A, S); returns set of (A', S', result)"""
    model = CModel(m, ci, typestate=True)
    eng = Engine(model, unroll=1)
    facts = {'TS': {'__archive__': ('arch', state[0]), '__swap__': ('arch', state[1])}}
    res = set()
    if op in ('archived?', 'archived(True)', 'archived(False)'):
        fi = ci.methods['archived']
        on = {'archived?': ('tuple', ()), 'archived(True)': ('tuple', (C(True),)), 'archived(False)': ('tuple', (C(False),))}[op]
        params = {fi.node.args.args[0].arg: SELF, fi.node.args.vararg.arg: on}
        outs = eng.run_function(fi.node, {}, params=params, facts=facts)
    elif op in ('archive=X', 'archive=NULL'):
        s = ci.properties['archive'][1]
        val = ('arch', 'X') if op == 'archive=X' else ('arch', 'NULL')
        params = {s.node.args.args[0].arg: SELF, s.node.args.args[1].arg: val}
        outs = eng.run_function(s.node, {}, params=params, facts=facts)
    elif op == 'open(X)':
        fi = ci.methods['open']
        params = {fi.node.args.args[0].arg: SELF, fi.node.args.args[1].arg: ('arch', 'X')}
        outs = eng.run_function(fi.node, {}, params=params, facts=facts)
    elif op == 'drop()':
        fi = ci.methods['drop']
        outs = eng.run_function(fi.node, {}, params={fi.node.args.args[0].arg: SELF}, facts=facts)
    else:
        raise AnalysisError('unknown typestate op %s' % op)
    for o in outs:
        ts = o.st.facts['TS']
        A, S = ts['__archive__'], ts['__swap__']
        if A[0] != 'arch' or S[0] != 'arch':
            raise AnalysisError('typestate interpretation left the four-point domain in %s: %s %s' % (op, render(A), render(S)))
        if o.kind == RETURN:
            r = o.val[1] if is_const(o.val) else render(o.val)
        else:
            r = 'raise ' + o.exc
        res.add((A[1], S[1], r))
    return res


def ts_spec(op, A, S):
    """specification of the toggle algebra (C08) over abstract archives; returns (A', S', result-predicate)"""
    real = lambda x: x != 'NULL'
    if op == 'archived?':
        return (A, S, real(A))
    if op == 'archived(False)':
        if real(A):
            return ('NULL', A, None)
        return (A, S, None)
    if op == 'archived(True)':
        if real(S):
            return (S, 'NULL' if not real(A) else A, None)
        if not real(A):
            return (A, S, 'raise ValueError')
        return (A, S, None)
    if op == 'archive=X':
        return ('X', 'NULL', None)
    if op == 'archive=NULL':
        return ('NULL', 'NULL', None)
    if op == 'open(X)':
        return ('X', 'NULL', None)
    if op == 'drop()':
        return ('NULL', 'NULL', 'any')
    raise AnalysisError(op)


TS_OPS = ('archived?', 'archived(True)', 'archived(False)', 'archive=X', 'archive=NULL', 'open(X)', 'drop()')


def rule_S_TOGGLE(ctx, repo):
    m, ci = cache_class(repo)
    for nm in ('archived', 'open', 'drop'):
        if nm not in ci.methods:
            raise AnalysisError('anchor vanished: cache.%s' % nm)
    if 'archive' not in ci.properties or ci.properties['archive'][1] is None:
        raise AnalysisError('anchor vanished: cache.archive property setter')
    # constructor: (archive given or NULL, swap NULL)
    init = ci.methods['__init__']
    def is_null(e, depth=0):
        # null_archive(), or a module-level name bound to one (a shared placeholder: a null archive holds nothing and discards writes)
        if isinstance(e, ast.Call) and isinstance(e.func, ast.Name) and e.func.id == 'null_archive' and not e.args and not e.keywords:
            return True
        if isinstance(e, ast.Name) and depth < 3 and e.id in m.consts:
            return is_null(m.consts[e.id], depth + 1)
        return False
    selfname = init.node.args.args[0].arg
    last = {}
    for st in init.node.body:      # unconditional statements of the constructor
        if isinstance(st, ast.Assign):
            for t in st.targets:
                if isinstance(t, ast.Attribute) and isinstance(t.value, ast.Name) and t.value.id == selfname and t.attr in ('__swap__', '__archive__'):
                    last[t.attr] = st.value
    sw, ar = last.get('__swap__'), last.get('__archive__')
    kw = init.node.args.kwarg.arg if init.node.args.kwarg else None
    ok = sw is not None and is_null(sw)

    def takes_given(e, need_default):
        if not (isinstance(e, ast.Call) and isinstance(e.func, ast.Attribute) and e.func.attr in ('pop', 'get') and isinstance(e.func.value, ast.Name)
                and e.func.value.id == kw and e.args and isinstance(e.args[0], ast.Constant) and e.args[0].value == 'archive'):
            return isinstance(e, ast.Subscript) and isinstance(e.value, ast.Name) and e.value.id == kw and isinstance(e.slice, ast.Constant) \
                and e.slice.value == 'archive' and not need_default
        return (len(e.args) == 2 and is_null(e.args[1])) if need_default else len(e.args) in (1, 2)
    arch_ok = ar is not None and takes_given(ar, True)
    if ar is None:
        # if 'archive' in kwds: self.__archive__ = kwds.pop('archive')  else: self.__archive__ = null_archive()
        for st in init.node.body:
            if isinstance(st, ast.If) and isinstance(st.test, ast.Compare) and len(st.test.ops) == 1 and isinstance(st.test.ops[0], (ast.In, ast.NotIn)) \
                    and isinstance(st.test.left, ast.Constant) and st.test.left.value == 'archive' and isinstance(st.test.comparators[0], ast.Name) \
                    and st.test.comparators[0].id == kw:
                given, absent = (st.body, st.orelse) if isinstance(st.test.ops[0], ast.In) else (st.orelse, st.body)

                def assigned(block):
                    vals = [x.value for x in block if isinstance(x, ast.Assign) and any(isinstance(t, ast.Attribute) and t.attr == '__archive__' for t in x.targets)]
                    return vals[-1] if vals else None
                g, a_ = assigned(given), assigned(absent)
                arch_ok = g is not None and a_ is not None and takes_given(g, False) and is_null(a_)
    ok = ok and arch_ok
    ctx.ob('S-TOGGLE', 'cache.__init__ initial state', ok)
    if not ok:
        ctx.fail('S-TOGGLE', init.qual, 'initial state', 'cache.__init__ does not start with swap = null_archive() and archive = given-or-null', init.where)
    # reachable abstract states: names R1/R2 are distinct real archives, X the argument
    start = [('NULL', 'NULL'), ('R1', 'NULL')]
    reach = set(start)
    work = list(start)
    table = {}
    while work:
        stt = work.pop()
        for op in TS_OPS:
            outs = ts_run(m, ci, op, stt)
            table[(stt, op)] = outs
            for A, S, r in outs:
                # rename X to a fresh real for continued exploration (bounded: at most two distinct reals matter)
                nxt = (A if A != 'X' else 'R2' if 'R1' in (stt) else 'R1', S if S != 'X' else 'R2')
                nxt = tuple('R1' if x == 'R2' and 'R1' not in (nxt) else x for x in nxt)
                if nxt not in reach:
                    reach.add(nxt)
                    work.append(nxt)
    both_real = [s for s in reach if s[0] != 'NULL' and s[1] != 'NULL']
    ctx.tables['typestate reachable'] = sorted('%s/%s' % s for s in reach)
    ctx.ob('S-TOGGLE', 'archive and swap never both real', not both_real)
    if both_real:
        ctx.fail('S-TOGGLE', ci.qual, 'state both real reachable', 'a state with a real current archive AND a real parked archive is reachable: %s '
                 '(one of them would be silently dropped by the next toggle)' % both_real, ci.where)
    rows = []
    for (stt, op), outs in sorted(table.items()):
        wantA, wantS, wantR = ts_spec(op, stt[0], stt[1])
        ok = len(outs) == 1
        for A, S, r in outs:
            ok = ok and A == wantA and S == wantS
            if wantR == 'any':
                pass
            elif wantR is None:
                ok = ok and (r is None or r == 'None')
            else:
                ok = ok and r == wantR
        rows.append('%s/%s %s -> %s' % (stt[0], stt[1], op, sorted(outs, key=str)))
        ctx.ob('S-TOGGLE', '%s/%s %s' % (stt[0], stt[1], op), ok)
        if not ok:
            fn = {'archived?': 'archived', 'archived(True)': 'archived', 'archived(False)': 'archived', 'open(X)': 'open', 'drop()': 'drop'}.get(op)
            construct = ci.methods[fn].qual if fn else ci.properties['archive'][1].qual
            ctx.fail('S-TOGGLE', construct, '%s/%s %s gives %s' % (stt[0], stt[1], op, sorted(outs, key=str)),
                     'from (archive=%s, parked=%s) the operation %s yields %s; the toggle algebra requires (archive=%s, parked=%s%s)' % (
                         stt[0], stt[1], op, sorted(outs, key=str), wantA, wantS, ', result %s' % wantR if wantR not in (None, 'any') else ''),
                     ci.where)
    ctx.tables['typestate transitions'] = rows
    ctx.sample({'typestate transitions': rows[:6]})
    if len(rows) < 14:
        raise AnalysisError('typestate table smaller than confirmed (%d rows)' % len(rows))


def rule_S_NULL(ctx, repo):
    m = repo.mod('_archives')
    ci = m.classes.get('null_archive')
    if ci is None:
        raise AnalysisError('anchor vanished: null_archive')
    for w in ('__setitem__', 'update', 'setdefault'):
        fi = ci.methods.get(w)
        ok = fi is not None
        if ok:
            # no store effect: no call that reaches dict storage, no subscript store on self
            for n in ast.walk(fi.node):
                if isinstance(n, ast.Call):
                    f = n.func
                    if isinstance(f, ast.Attribute) and isinstance(f.value, ast.Name) and f.value.id in ('dict', 'super'):
                        ok = False
                    if isinstance(f, ast.Attribute) and isinstance(f.value, ast.Call) and isinstance(f.value.func, ast.Name) and f.value.func.id == 'super':
                        ok = False
                    if isinstance(f, ast.Attribute) and isinstance(f.value, ast.Name) and f.value.id == 'self' and f.attr in ('__setitem__', 'update', 'setdefault') and f.attr != 'get':
                        ok = False
                if isinstance(n, (ast.Subscript,)) and isinstance(n.ctx, ast.Store) and isinstance(n.value, ast.Name) and n.value.id == 'self':
                    ok = False
        ctx.ob('S-NULL', 'null_archive.%s' % w, ok)
        if not ok:
            ctx.fail('S-NULL', ci.qual + '.' + w, 'writer %s stores' % w,
                     'null_archive.%s is missing or reaches dict storage: a null archive must discard every write' % w, ci.where)
    asd = ci.methods.get('__asdict__')
    ok = asd is not None
    if ok:
        rets = [n for n in ast.walk(asd.node) if isinstance(n, ast.Return)]
        ok = bool(rets) and all(unparse(r.value).replace(' ', '') in ('dict()', '{}') for r in rets)
    ctx.ob('S-NULL', 'null_archive.__asdict__', ok)
    if not ok:
        ctx.fail('S-NULL', ci.qual + '.__asdict__', '__asdict__ not empty', 'null_archive.__asdict__ does not return an empty dict', ci.where)
    init = ci.methods.get('__init__')
    ok = init is not None
    if ok:
        for n in ast.walk(init.node):
            if isinstance(n, ast.Call) and isinstance(n.func, ast.Attribute) and n.func.attr in ('__init__', 'update') \
                    and isinstance(n.func.value, ast.Name) and n.func.value.id == 'dict':
                if len(n.args) > 1 or n.keywords:
                    ok = False
    ctx.ob('S-NULL', 'null_archive.__init__', ok)
    if not ok:
        ctx.fail('S-NULL', ci.qual + '.__init__', '__init__ populates', 'null_archive.__init__ passes contents to dict.__init__: a null archive must start (and stay) empty', ci.where)


def rule_S_RED(ctx, repo):
    """custom pickling of the cache / keymap classes carries every piece of instance state"""
    m, ci = cache_class(repo)
    sites = [(m, ci, ['__archive__', '__swap__'])]
    km = repo.mod('keymaps')
    for n in ('keymap', 'hashmap', 'stringmap', 'picklemap'):
        c = km.classes.get(n)
        if c is not None:
            sites.append((km, c, None))
    base_attrs = set()
    kb = km.classes.get('keymap')
    if kb is not None:
        for fn in kb.methods.values():
            for n in ast.walk(fn.node):
                if isinstance(n, ast.Assign):
                    for t in n.targets:
                        if isinstance(t, ast.Attribute) and isinstance(t.value, ast.Name) and t.value.id in ('self', 'k'):
                            base_attrs.add(t.attr)
    for mod, c, attrs in sites:
        if '__setstate__' in c.methods:
            # a custom restore: what was pickled is put back as it is; a default may stand in only for a key that is absent - never for a value
            # that is merely falsy (an archive is a dict: empty means falsy, and an empty archive is still the archive the cache is bound to)
            from .paths import Engine, RETURN as _RET
            from .rules_wrappers import PlainModel
            fn = c.methods['__setstate__']
            pa = [x.arg for x in fn.node.args.args]
            if len(pa) >= 2:
                stp = ('param', pa[1])
                eng = Engine(PlainModel(mod), unroll=1)
                for o in eng.run_function(fn.node, {}, params={pa[0]: SELF}):
                    if o.kind != _RET:
                        continue
                    for e in o.st.events:
                        if e.kind != 'SELFSET' or e.args[0] != SELF or not is_const(e.args[1]):
                            continue
                        if attrs is not None and e.args[1][1] not in attrs:
                            continue
                        v = e.args[2]
                        if contains_term(v, lambda t: t == stp):
                            continue
                        falsy = [t for t, b in o.st.facts.get('truth', {}).items() if b is False and contains_term(t, lambda x: x == stp)
                                 and t[0] != 'cmp' and not (t[0] == 'call' and t[1][0] == 'attr' and t[1][2] == '__contains__')]
                        ok = not falsy
                        ctx.ob('S-RED', '%s.__setstate__ %s' % (c.name, e.args[1][1]), ok)
                        if not ok:
                            ctx.fail('S-RED', '%s.__setstate__' % c.qual, 'restored %s replaced when falsy' % e.args[1][1],
                                     '%s.__setstate__ replaces the pickled %s by %s whenever the pickled value is falsy (%s): an archive that happens to be empty at '
                                     'pickling time is falsy, so the restored cache is bound to a different archive than the original' % (
                                         c.name, e.args[1][1], render(v)[:40], render(falsy[0])[:60]), fn.where, render_path(o))
        custom = [n for n in ('__reduce__', '__reduce_ex__', '__getstate__') if n in c.methods]
        if not custom:
            ctx.ob('S-RED', '%s default pickling (instance __dict__ travels whole)' % c.name)
            continue
        need = set(attrs) if attrs is not None else set(a for a in base_attrs if a.startswith('__'))
        for name in custom:
            src = unparse(c.methods[name].node)
            missing = sorted(a for a in need if ('self.' + a) not in src and ("'%s'" % a) not in src and '__dict__' not in src)
            ctx.ob('S-RED', '%s.%s' % (c.name, name), not missing)
            if missing:
                ctx.fail('S-RED', '%s.%s' % (c.qual, name), 'custom pickling omits %s' % ','.join(missing),
                         '%s.%s rebuilds the object without %s: a pickled decorated function comes back with a different %s (e.g. the parked archive of a cache '
                         'switched off with archived(False), or the inner keymap of a chained keymap)' % (c.name, name, ', '.join(missing), 'archive binding' if c.name == 'cache' else 'key function'),
                         c.methods[name].where)


def rule_S_IDENT(ctx, repo, parts=('instances',)):
    """S-IDENT: identity with a module-level instance does not survive pickling.  `X = SomeClass()` at module level makes one object per process;
    a class that remembers it in an attribute and later asks `self.attr is X` (or `is not X`) gets a different answer after the instance was pickled
    and restored, because the attribute then holds a *copy* of X - unless X's class pickles by reference (its __reduce__ returns the global's name) or
    the comparison is by type / value.  Checked over every module of the package; today no such comparison exists (positive example: the kill matrix)."""
    n = 0
    for name in (sorted(repo.modules) if 'instances' in parts else []):
        m = repo.mod(name)
        insts = {}
        for g, v in m.consts.items():
            if isinstance(v, ast.Call) and isinstance(v.func, ast.Name) and v.func.id in m.classes_by_name:
                insts[g] = v.func.id
        for g, origin in m.imports.items():
            # a marker imported from a sibling module
            parts = origin.lstrip('.').split('.')
            if len(parts) >= 2 and parts[-2] in repo.modules:
                om = repo.modules[parts[-2]]
                v = om.consts.get(parts[-1])
                if isinstance(v, ast.Call) and isinstance(v.func, ast.Name) and v.func.id in om.classes_by_name:
                    insts[g] = (om, v.func.id)
        for node in ast.walk(m.tree):
            if not (isinstance(node, ast.Compare) and any(isinstance(o, (ast.Is, ast.IsNot)) for o in node.ops)):
                continue
            n += 1
            operands = [node.left] + list(node.comparators)
            for i, o in enumerate(operands):
                if not (isinstance(o, ast.Name) and o.id in insts):
                    continue
                others = [x for j, x in enumerate(operands) if j != i]
                # only state that travels with the instance matters: an attribute (self.x), a subscript of one, a call result held by the object
                if not any(isinstance(x, (ast.Attribute, ast.Subscript)) or (isinstance(x, ast.Call)) for x in others):
                    continue
                ent = insts[o.id]
                om, cname = (m, ent) if isinstance(ent, str) else ent
                ok = False
                for ci in om.classes_by_name.get(cname, []):
                    fn = ci.methods.get('__reduce__') or ci.methods.get('__reduce_ex__')
                    if fn is not None:
                        rets = [r for r in ast.walk(fn.node) if isinstance(r, ast.Return)]
                        ok = bool(rets) and all(isinstance(r.value, ast.Constant) and isinstance(r.value.value, str) for r in rets)
                ctx.ob('S-IDENT', '%s:%d %s' % (m.rel, node.lineno, unparse(node)[:50]), ok)
                if not ok:
                    ctx.fail('S-IDENT', '%s::%s' % (m.rel, o.id), 'identity test against the per-process object %s' % o.id,
                             '`%s` compares stored state with the module-level instance %s = %s() by identity. Pickling (dill of a cached function, copy of a cache) '
                             'copies that instance by value, so in the restored object the test gives the opposite answer: the clone behaves differently from the '
                             'original (for the cache class: archived() reports the wrong state and switching it parks / restores the wrong archive). Compare by type, or '
                             'give %s a __reduce__ that returns the global name' % (unparse(node)[:80], o.id, cname, cname), '%s:%d' % (m.rel, node.lineno))
    # an optional marker: X = getattr(module, 'Name', None).  Where the interpreter lacks the attribute X *is* None, and `v is X` / `v is not X` is
    # true / false for every ordinary None that comes along (a partial that fixes an argument to None) - unless the test also says `X is not None`
    for name in (sorted(repo.modules) if 'optional' in parts else []):
        m = repo.mod(name)
        opt = {}
        for g, v in m.consts.items():
            if isinstance(v, ast.Call) and isinstance(v.func, ast.Name) and v.func.id == 'getattr' and len(v.args) == 3 and isinstance(v.args[2], ast.Constant) \
                    and (v.args[2].value is None or v.args[2].value is False):
                opt[g] = v
        # ... and the import spelling: try: from functools import Placeholder / except ImportError: Placeholder = None
        for t in m.tree.body:
            if not isinstance(t, ast.Try):
                continue
            bound = set()
            for st in t.body:
                if isinstance(st, (ast.ImportFrom, ast.Import)):
                    bound |= set((a.asname or a.name).split('.')[0] for a in st.names)
                elif isinstance(st, ast.Assign):
                    bound |= set(x.id for tt in st.targets for x in ast.walk(tt) if isinstance(x, ast.Name))
            for h in t.handlers:
                for st in h.body:
                    if isinstance(st, ast.Assign) and isinstance(st.value, ast.Constant) and (st.value.value is None or st.value.value is False):
                        for tt in st.targets:
                            if isinstance(tt, ast.Name) and tt.id in bound:
                                opt[tt.id] = st.value
        if not opt:
            continue
        parent = {}
        for x in ast.walk(m.tree):
            for c in ast.iter_child_nodes(x):
                parent[c] = x
        for node in ast.walk(m.tree):
            if not (isinstance(node, ast.Compare) and any(isinstance(o, (ast.Is, ast.IsNot, ast.Eq, ast.NotEq)) for o in node.ops)):
                continue
            operands = [node.left] + list(node.comparators)
            hit = [o for o in operands if isinstance(o, ast.Name) and o.id in opt]
            if not hit:
                continue
            others = [o for o in operands if o not in hit]
            if all(isinstance(o, ast.Constant) and o.value is None for o in others):
                continue      # the guard itself: X is (not) None
            gname = hit[0].id
            guarded = False
            cur = node
            while cur in parent and not guarded:
                p_ = parent[cur]
                tests = []
                if isinstance(p_, ast.BoolOp) and isinstance(p_.op, ast.And):
                    tests = p_.values
                elif isinstance(p_, (ast.If, ast.IfExp)) and cur is not p_.test:
                    tests = [p_.test]
                elif isinstance(p_, ast.comprehension):
                    tests = list(p_.ifs)
                for t in tests:
                    for c in ast.walk(t):
                        if isinstance(c, ast.Compare) and isinstance(c.left, ast.Name) and c.left.id == gname and len(c.ops) == 1 and isinstance(c.ops[0], ast.IsNot) \
                                and isinstance(c.comparators[0], ast.Constant) and c.comparators[0].value is None:
                            guarded = True
                cur = p_
            ctx.ob('S-IDENT', '%s:%d comparison with the optional marker %s is guarded by `%s is not None`' % (m.rel, node.lineno, gname, gname), guarded)
            if not guarded:
                ctx.fail('S-IDENT', '%s::%s' % (m.rel, gname), 'comparison with a marker that may be None',
                         '`%s` compares a value with %s = %s: on an interpreter without that attribute the marker is None, and every ordinary None (an argument a partial '
                         'fixes to None, a default) is taken for the marker - the parameter is then treated as still open, and calls are validated / keyed one slot off'
                         % (unparse(node)[:60], gname, unparse(opt[gname])[:50]), '%s:%d' % (m.rel, node.lineno))
    ctx.note('S-IDENT: %d identity comparisons inspected in %d modules' % (n, len(repo.modules)))
    if n < 10 and 'instances' in parts:
        raise AnalysisError('S-IDENT: only %d identity comparisons found in the package (expected many `is None` tests): the scan is not seeing the code' % n)


def rule_S_NOSWALLOW(ctx, repo):
    """S-DUMP / S-LOAD (a failed transfer is reported): cache.dump / load / sync let an exception of the archive's update / read escape (load swallows only
    KeyError, per key).  The wrappers run `cache.dump(k); del cache[k]` and `cache.dump(); cache.clear()`: they rely on dump *raising* to stop before the
    entries are discarded from memory.  A dump that turns a failed write into a warning lets the purge go on - the results are then nowhere."""
    m, ci = cache_class(repo)
    n = 0
    for name in ('dump', 'sync', 'load'):
        fi = ci.methods.get(name)
        if fi is None:
            raise AnalysisError('anchor vanished: cache.%s' % name)
        for t in ast.walk(fi.node):
            if not isinstance(t, ast.Try):
                continue
            touches = any(isinstance(x, ast.Attribute) and x.attr in ('archive', '__archive__') for st_ in t.body for x in ast.walk(st_))
            if not touches:
                continue
            for h in t.handlers:
                n += 1
                names = []
                if h.type is not None:
                    names = [unparse(x) for x in (h.type.elts if isinstance(h.type, ast.Tuple) else [h.type])]
                only_keyerror = bool(names) and all(x.split('.')[-1] in ('KeyError', 'LookupError') for x in names)
                reraises = any(isinstance(x, ast.Raise) for st_ in h.body for x in ast.walk(st_))
                ok = reraises or (only_keyerror and name in ('load', 'sync'))
                ctx.ob('S-DUMP' if name != 'load' else 'S-LOAD', 'cache.%s: handler `except %s` does not hide a failed transfer' % (name, ', '.join(names) or '<bare>'), ok)
                if not ok:
                    ctx.fail('S-DUMP' if name != 'load' else 'S-LOAD', fi.qual, 'a failed archive transfer is swallowed',
                             'cache.%s catches `%s` around the archive operation and carries on: the callers (the eviction and purge code of every decorator) discard '
                             'entries from memory right after dump() returns, so a write that failed loses them - and a later call recomputes what was cached'
                             % (name, ', '.join(names) or 'everything'), '%s:%d' % (m.rel, h.lineno))
    ctx.ob('S-DUMP', 'exception handlers around archive transfers examined', True, n=max(n, 1))
    if n < 1:
        ctx.note('S-DUMP / S-LOAD (no swallowing): cache.dump / load / sync contain no exception handler around an archive operation; nothing to check')
