"""Wrapper model: role resolution for the decorator classes of _cache.py / safe.py and the event
abstraction of DESIGN 3.2-3.4 (GET/SET/DEL/LOAD/DUMP/EVAL/STAT/BK ... with typed exception edges
and feasibility facts)."""
import ast

from .src import AnalysisError, unparse
from .paths import (Model, Engine, R, C, NONE, is_const, render, subterms, contains_term,
                    GENERIC, BASEONLY, RETURN, RAISE)

CACHE = ('role', 'cache')
FN = ('role', 'FN')
KEYMAP = ('role', 'keymap')
IGNORE = ('role', 'ignore')
ROUND = ('role', 'roundargs')
MAXSIZE = ('role', 'maxsize')
PURGE = ('role', 'purge')
ARCHIVE = ('role', 'archive')
SELF = ('self',)
ARCHIVED = ('pred', 'archived')

STATE_KEYS = ('maxsize', 'cache', 'keymap', 'ignore', 'roundargs', 'tol', 'deep', 'purge')

# library functions that may receive a role container and are pure observers
PURE_OBSERVERS = set(['len', 'list', 'tuple', 'iter', 'sorted', 'set', 'frozenset', 'isinstance', 'bool',
                      'dict', 'enumerate', 'reversed', 'id', 'type', 'repr', 'str', 'next', 'min', 'max', 'sum',
                      'any', 'all', 'zip', 'map', 'filter'])

DEQUE_METHODS = {'append': 'append', 'appendleft': 'appendleft', 'pop': 'pop', 'popleft': 'popleft',
                 'remove': 'remove', 'clear': 'clear', 'extend': 'extend', 'extendleft': 'extendleft',
                 'rotate': 'rotate', 'count': None, 'index': None, '__len__': None, '__contains__': None,
                 'copy': None, '__iter__': None}
COUNTER_METHODS = {'clear': 'clear', 'pop': 'popkey', 'items': None, 'keys': None, 'values': None,
                   'get': None, '__contains__': None, 'update': 'update', 'setdefault': 'setdefault',
                   'popitem': 'popitem', 'copy': None, '__getitem__': None, 'most_common': None,
                   '__len__': None, '__iter__': None}


def libname(v):
    if isinstance(v, tuple) and v and v[0] == 'lib':
        return v[1].split('.')[-1]
    return None


def is_bk(v, kind=None):
    return isinstance(v, tuple) and len(v) == 3 and v[0] == 'bk' and (kind is None or v[2] == kind)


def lower_bound(t):
    """integer lower bound of a term, or None"""
    if is_const(t) and isinstance(t[1], int) and not isinstance(t[1], bool):
        return t[1]
    if t[0] == 'call' and libname(t[1]) == 'max' and not t[3]:
        bs = [lower_bound(a) for a in t[2]]
        bs = [b for b in bs if b is not None]
        return max(bs) if bs else None
    if t[0] == 'call' and libname(t[1]) == 'min' and not t[3]:
        bs = [lower_bound(a) for a in t[2]]
        if bs and all(b is not None for b in bs):
            return min(bs)
    return None


# attributes plain functions have and other callables (functools.partial, callable instances, builtins, bound methods of C types) may lack
FN_OPTIONAL_ATTRS = ('__name__', '__qualname__', '__code__', '__defaults__', '__kwdefaults__', '__globals__', '__closure__', '__annotations__', '__wrapped__', 'func', 'args', 'keywords')


class WrapperModel(Model):
    """events for one decorator class.  facts:
       archived/purge: None|True|False (stable predicates)
       resident: {key term: bool}, hashable: set(key terms), size: 'empty'|'nonempty'|None
       nonempty: set(bk ids)  popped: set(bk ids)"""

    def __init__(self, module, state_consts=None, strict=True):
        Model.__init__(self)
        self.module = module
        self.state_consts = state_consts or {}
        self.strict = strict
        self.nbk = 0
        self.bknames = {}
        self.counter_ok = None
        self.nev = 0
        self.assumed = []      # assumption notes (e.g. swallowed KeyError on victim delete)

    # -- helpers ---------------------------------------------------------------------------
    def is_deque_class(self, f):
        """a class of this module that extends collections.deque and overrides none of its queue operations"""
        if f[0] != 'lib':
            return False
        nm = f[1].split('.')[-1]
        for ci in getattr(self.module, 'classes_by_name', {}).get(nm, []):
            bases = []
            for b in ci.node.bases:
                u = ast.unparse(b)
                bases.append(self.module.imports.get(u, u).split('.')[-1])
            own = getattr(ci, 'own_methods', None) or ci.methods
            if 'deque' in bases and not any(m_ in own for m_ in ('append', 'appendleft', 'pop', 'popleft', 'clear', 'extend', 'extendleft', '__len__',
                                                                  '__iter__', '__contains__', 'remove', '__init__', '__new__')):
                return True
        return False

    def newid(self):
        self.nev += 1
        return self.nev

    def needs_hash(self, k):
        """is hashability of this key term not yet established by construction"""
        return k[0] == 'call' and k[1] == KEYMAP

    def hash_edges(self, k, st):
        if self.needs_hash(k) and k not in st.facts.get('hashable', set()):
            return ['TypeError']
        return []

    def mark_hashable(self, k, st):
        st.facts.setdefault('hashable', set()).add(k)

    def resident(self, k, st):
        return st.facts.get('resident', {}).get(k)

    def set_resident(self, k, b, st):
        st.facts.setdefault('resident', {})[k] = b

    def invalidate_resident(self, st, keep_true=False, only=None):
        r = st.facts.get('resident')
        if not r:
            return
        if only is not None:
            r.pop(only, None)
            return
        if keep_true:
            for k in list(r):
                if not r[k]:
                    del r[k]
        else:
            r.clear()

    def global_name(self, name, st):
        m = self.module
        if name in m.imports:
            return ('lib', m.imports[name])
        if name in m.classes_by_name:
            return ('lib', '%s.%s' % (m.rel, name))
        if name in m.functions:
            return ('lib', '%s.%s' % (m.rel, name))
        if name in m.consts:
            node = m.consts[name]
            if isinstance(node, ast.Constant):
                return C(node.value)
            # a module-level table of constants (names driving a loop)
            if isinstance(node, (ast.Tuple, ast.List)) and all(isinstance(e, ast.Constant) for e in node.elts):
                return ('tuple', tuple(C(e.value) for e in node.elts))
        return None

    def literal(self, v, st, node):
        # a list literal created in __call__ (depth 0, outside the wrapper) is shared mutable state
        if st.facts.get('in_call') and v[0] == 'list' and all(is_const(x) for x in v[1]):
            self.nbk += 1
            b = ('bk', 'L%d' % self.nbk, 'list')
            st.facts.setdefault('lists', {})[b] = v
            return b
        # an empty dict literal created in __call__: an insertion-ordered set of keys used as recency bookkeeping
        if st.facts.get('in_call') and v[0] == 'dict' and not v[1]:
            self.nbk += 1
            return ('bk', 'D%d' % self.nbk, 'odict')
        return None

    def is_counter_class(self, f):
        ln = libname(f)
        if f[0] != 'lib':
            return False
        if f[1] in ('collections.Counter',):
            self.stdlib_counter = True       # its update() ADDS counts (dict.update would set them)
            return True
        cands = self.module.classes_by_name.get(ln, [])
        if not cands and ln in self.module.imports and getattr(self.module, 'repo', None) is not None:
            # one definition shared by the sibling module (from ._cache import Counter)
            parts = self.module.imports[ln].lstrip('.').split('.')
            if len(parts) >= 2 and parts[-2] in self.module.repo.modules:
                cands = self.module.repo.modules[parts[-2]].classes_by_name.get(parts[-1], [])
        if cands:
            ci = cands[0]
            if 'dict' in ci.base_names() and '__missing__' in ci.methods:
                body = [s for s in ci.methods['__missing__'].node.body
                        if not (isinstance(s, ast.Expr) and isinstance(s.value, ast.Constant))]
                if len(body) == 1 and isinstance(body[0], ast.Return) and isinstance(body[0].value, ast.Constant) \
                        and body[0].value.value == 0:
                    return True
        return False

    # -- calls -----------------------------------------------------------------------------
    def call(self, f, args, kws, st, node):
        line = getattr(node, 'lineno', 0)
        ln = libname(f)
        # --- lock operations
        if f[0] == 'attr' and self.is_lock(f[1]) and f[2] in ('acquire', 'release'):
            if f[2] == 'release':
                tok = self._lock_count(f[1], st, -1, line)
                return [R(st, None, tok, line)] if tok else [R(st, NONE)]
            nonblocking = (args and args[0] == C(False)) or any(k[0] == 'kw' and k[1] == 'blocking' and k[2] == C(False) for k in kws) \
                or any(k[0] == 'kw' and k[1] == 'timeout' for k in kws) or len(args) > 1
            outs = []
            if nonblocking:
                s2 = st.fork()
                s2.emit('LOCKBUSY', (f[1],), line)
                outs.append(R(s2, C(False)))
            self._lock_count(f[1], st, +1, line)
            outs.append(R(st, C(True)))
            return outs
        # --- getattr(obj, 'name'[, default]) is obj.name (with a default: never an AttributeError)
        if f == ('lib', 'getattr') and len(args) in (2, 3) and not kws and is_const(args[1]) and isinstance(args[1][1], str):
            rs = self.attr_load(args[0], args[1][1], st, node)
            if rs is None:
                return [R(st, ('attr', args[0], args[1][1]))]
            if len(args) == 3:
                rs = [r for r in rs if r.exc is None] or [R(st, args[2])]
            return rs
        # --- hash(key): raises TypeError for an unhashable key (a probe such as `try: hash(key) / except TypeError: key = str(key)`)
        if f == ('lib', 'hash') and len(args) == 1 and not kws:
            outs = []
            for tok in self.hash_edges(args[0], st):
                s2 = st.fork()
                s2.emit('HASHERR', (args[0], C(tok)), line)
                outs.append(R(s2, None, tok, line))
            self.mark_hashable(args[0], st)
            outs.append(R(st, ('call', f, args, kws)))
            return outs
        # --- library calls that can raise whatever the arguments are: warnings.warn under an "error" filter
        if f[0] == 'lib' and f[1] in ('warnings.warn', 'warnings.warn_explicit'):
            s2 = st.fork()
            s2.emit('LIBRAISE', (C(f[1]),), line)
            return [R(s2, None, GENERIC, line), R(st, NONE)]
        # --- user function
        if f == FN:
            n = self.newid()
            outs = []
            for tok in self.exc_tokens_any():
                s2 = st.fork()
                s2.emit('EVALRAISE', (C(tok),) + tuple(args) + tuple(kws), line, extra={'args': args, 'kws': kws})
                outs.append(R(s2, None, tok, line))
            v = ('ev', 'eval', n)
            st.emit('EVAL', tuple(args) + tuple(kws), line, val=v, extra={'args': args, 'kws': kws})
            # user code ran: a recursive (or concurrent) call through the same wrapper may have stored or evicted entries meanwhile - what was known about
            # which keys are resident is known no longer
            self.invalidate_resident(st)
            if st.facts.get('size') == 'empty':
                st.facts['size'] = None
            st.facts['allabsent'] = False
            outs.append(R(st, v))
            return outs
        # --- key generation steps
        step = None
        if f == ROUND:
            step = 'round'
        elif f == KEYMAP:
            step = 'keymap'
        elif f[0] == 'lib' and ln == '_keygen':
            step = 'keygen'
        if step:
            v = ('call', f, args, kws)
            outs = []
            for tok in ('TypeError', 'KeyError', GENERIC):     # KeyError: an argument's __hash__ / __repr__ / __reduce__ that misses in a dict of its own
                s2 = st.fork()
                s2.emit('KEYGENRAISE', (C(step), C(tok)), line)
                outs.append(R(s2, None, tok, line))
            st.emit('KEYGEN', (C(step),), line, val=v)
            outs.append(R(st, v))
            return outs
        # --- setattr(obj, 'name', value) with a constant name is obj.name = value
        if f == ('lib', 'setattr') and len(args) == 3 and not kws and is_const(args[1]) and isinstance(args[1][1], str):
            return self.engine.attr_store(args[0], args[1][1], args[2], st, node)
        # --- container constructors (only meaningful in __call__)
        if f[0] == 'lib' and f[1] in ('collections.deque', 'deque') or ln == 'deque' or self.is_deque_class(f):
            self.nbk += 1
            return [R(st, ('bk', 'Q%d' % self.nbk, 'deque'))]
        if self.is_counter_class(f):
            self.nbk += 1
            return [R(st, ('bk', 'N%d' % self.nbk, 'counter'))]
        if f[0] == 'lib' and (f[1] in ('collections.OrderedDict', 'OrderedDict') or (f[1] == 'dict' and st.facts.get('in_call'))) and not args and not kws:
            self.nbk += 1
            return [R(st, ('bk', 'D%d' % self.nbk, 'odict'))]
        if f == ('lib', 'object') and not args:
            return [R(st, ('opaque', 'object%d' % self.newid()))]
        # --- len
        if ln == 'len' and len(args) == 1 and not kws:
            a = args[0]
            if a == CACHE:
                v = ('ev', 'len', self.newid())
                st.emit('LEN', (), line, val=v)
                st.facts.setdefault('lenver', {})[v] = st.facts.get('size')
                return [R(st, v)]
            if is_bk(a):
                v = ('ev', 'bklen', self.newid())
                st.emit('BKLEN', (a,), line, val=v)
                return [R(st, v)]
        if f[0] == 'lib' and ln in ('iter', 'list', 'tuple', 'sorted', 'set') and len(args) == 1 and args[0] == CACHE and not kws:
            v = ('ev', 'keys', self.newid())
            st.emit('KEYS', (), line, val=v)
            st.facts.setdefault('keysver', {})[v] = True
            return [R(st, ('call', f, (v,), ()))]
        # --- methods of the cache
        if f[0] == 'bound' and f[1] == CACHE:
            return self.cache_method(f[2], args, kws, st, line)
        if f[0] == 'bound' and f[1] == ARCHIVE:
            st.emit('ARCHOP', (C(f[2]),) + tuple(args), line)
            return [R(st, ('ev', 'archop', self.newid()))]
        if f[0] == 'bound' and is_bk(f[1]):
            return self.bk_method(f[1], f[2], args, kws, st, line)
        # --- helper functions of the same module are part of the code under analysis: inline them
        if f[0] == 'lib' and f[1].startswith(self.module.rel + '.') and ln in self.module.functions and ln not in ('update_wrapper',):
            fi = self.module.functions[ln]
            return self.engine.inline(fi.node, ln, {}, args, kws, st, node)
        # --- a self-contained helper imported from a sibling module of the package (safe.py using _cache._evict): it refers to nothing but its parameters
        if f[0] == 'lib' and getattr(self.module, 'repo', None) is not None and ln not in ('_keygen', 'update_wrapper', 'wraps', 'partial', 'keygen') and \
                any(contains_term(a, lambda t: t == CACHE or is_bk(t) or t == ARCHIVE) for a in list(args) + [k[-1] for k in kws]):
            parts = f[1].lstrip('.').split('.')
            mine = self.module.rel.split('/')[-1][:-3]
            if len(parts) >= 2 and parts[-2] in self.module.repo.modules and parts[-2] != mine:
                ofi = self.module.repo.modules[parts[-2]].functions.get(parts[-1])
                if ofi is not None:
                    import builtins as _b
                    bound = set(x.arg for x in ofi.node.args.args + ofi.node.args.kwonlyargs)
                    if ofi.node.args.vararg:
                        bound.add(ofi.node.args.vararg.arg)
                    if ofi.node.args.kwarg:
                        bound.add(ofi.node.args.kwarg.arg)
                    for n_ in ast.walk(ofi.node):
                        if isinstance(n_, ast.Name) and isinstance(n_.ctx, ast.Store):
                            bound.add(n_.id)
                    free = [n_.id for n_ in ast.walk(ofi.node) if isinstance(n_, ast.Name) and isinstance(n_.ctx, ast.Load)
                            and n_.id not in bound and not hasattr(_b, n_.id)]
                    if not free:
                        return self.engine.inline(ofi.node, parts[-1], {}, args, kws, st, node)
        # --- the user function handed to a function of the package other than _keygen (it might be evaluated there)
        if f[0] == 'lib' and ln not in ('_keygen', 'update_wrapper', 'wraps', 'partial') and any(a == FN for a in args) \
                and (f[1].startswith('.') or f[1].startswith('klepto') or f[1].startswith(self.module.rel)):
            st.emit('FNPASS', (C(ln),) + tuple(args), line)
        # --- ordered de-duplication of the recency queue: dict.fromkeys(queue) keeps the FIRST occurrence of every key in iteration order
        if f == ('lib', 'dict.fromkeys') and args and len(args) <= 2:
            src = args[0]
            side = 'left'
            if src[0] == 'call' and libname(src[1]) == 'reversed' and len(src[2]) == 1:
                src, side = src[2][0], 'right'
            if is_bk(src, 'deque'):
                return [R(st, ('dedupe', src, side, args[1] if len(args) > 1 else NONE))]
        # --- role object escaping into an unknown callee
        roleargs = [a for a in list(args) + [k[-1] for k in kws]
                    if contains_term(a, lambda t: t == CACHE or is_bk(t) or t == ARCHIVE)]
        if roleargs:
            if f[0] == 'lib' and (ln in PURE_OBSERVERS or ln in ('nsmallest', 'nlargest', 'choice', 'filterfalse',
                                                                   'CacheInfo', 'itemgetter', 'islice', 'chain',
                                                                   'sample', 'update_wrapper', 'partial')):
                return None
            if f[0] == 'lib' and self.module.functions.get(ln) is not None:
                fi = self.module.functions[ln]
                return self.engine.inline(fi.node, ln, {}, args, kws, st, node)
            if f[0] in ('closure',):
                return None
            # direct role containers handed to an unknown function: cannot be judged
            direct = [a for a in list(args) + [k[-1] for k in kws] if a == CACHE or is_bk(a) or a == ARCHIVE]
            if direct and f[0] == 'attr' and f[2] in ('update', 'extend', 'union', 'difference', 'intersection', 'difference_update', 'intersection_update',
                                                       'issubset', 'issuperset', 'isdisjoint', 'symmetric_difference') \
                    and all(a == CACHE for a in direct) and not contains_term(f[1], lambda t: t == CACHE or is_bk(t) or t == ARCHIVE):
                # an auxiliary local container (a set of keys, say) reads the cache's keys: an observer, like list(cache)
                v = ('ev', 'keys', self.newid())
                st.emit('KEYS', (), line, val=v)
                return [R(st, ('call', f, args, kws))]
            if direct:
                st.emit('ESCAPE', (f,) + tuple(direct), line)
                if self.strict:
                    raise AnalysisError('role object %s passed to unmodelled callee %s at %s:%d' % (
                        render(direct[0]), render(f), self.module.rel, line))
        if f[0] == 'lib' and f[1] in ('dict.__getitem__', 'dict.__setitem__', 'dict.__delitem__') and args and args[0] == CACHE:
            raise AnalysisError('unmodelled idiom %s on cache at %s:%d' % (f[1], self.module.rel, line))
        return None

    def cache_method(self, m, args, kws, st, line):
        if m == 'archived':
            if not args and not kws:
                st.emit('ARCHIVED?', (), line)
                return [R(st, ARCHIVED)]
            st.emit('TOGGLE', tuple(args), line)
            return [R(st, NONE)]
        if m in ('load', 'dump'):
            kind = m.upper()
            if kws or any(a[0] == 'star' for a in args):
                st.emit(kind, (('opaque', 'dynamic-keys'),) + tuple(args), line, extra={'keys': None})
                self.invalidate_resident(st)
                if m == 'load' and st.facts.get('size') == 'empty':
                    st.facts['size'] = None
                return [R(st, NONE)]
            outs = []
            for k in args:
                for tok in self.hash_edges(k, st):
                    s2 = st.fork()
                    s2.emit(kind + 'ERR', (k, C(tok)), line)
                    outs.append(R(s2, None, tok, line))
            for k in args:
                self.mark_hashable(k, st)
            if m == 'dump' and getattr(self, 'dump_fail', False):
                # the archive write can fail (disk full, a value that cannot be encoded, a lock): nothing was archived
                s2 = st.fork()
                s2.emit('DUMPFAIL', tuple(args), line, extra={'keys': tuple(args)})
                outs.append(R(s2, None, GENERIC, line))
            st.emit(kind, tuple(args), line, extra={'keys': tuple(args)})
            if m == 'load':
                if args:
                    for k in args:
                        self.invalidate_resident(st, only=k)
                else:
                    self.invalidate_resident(st, keep_true=True)
                if st.facts.get('size') == 'empty':
                    st.facts['size'] = None
            outs.append(R(st, NONE))
            return outs
        if m == 'clear':
            st.emit('CLEAR', (), line)
            st.facts['resident'] = {}
            st.facts['allabsent'] = True
            st.facts['size'] = 'empty'
            return [R(st, NONE)]
        if m in ('keys', '__iter__'):
            v = ('ev', 'keys', self.newid())
            st.emit('KEYS', (), line, val=v)
            st.facts.setdefault('keysver', {})[v] = True
            return [R(st, v)]
        if m == 'get' and args:
            k = args[0]
            dflt = args[1] if len(args) > 1 else NONE
            outs = []
            for tok in self.hash_edges(k, st):
                s2 = st.fork()
                s2.emit('GETERR', (k, C(tok)), line)
                outs.append(R(s2, None, tok, line))
            self.mark_hashable(k, st)
            res = self.resident(k, st)
            if st.facts.get('size') == 'empty':
                res = False
            if res is not True:
                s2 = st.fork() if res is None else st
                s2.emit('GETMISS', (k,), line, extra={'via': 'get'})
                self.set_resident(k, False, s2)
                outs.append(R(s2, dflt))
            if res is not False:
                v = ('ev', 'get', self.newid())
                st.emit('GET', (k,), line, val=v)
                self.set_resident(k, True, st)
                if st.facts.get('size') is None:
                    st.facts['size'] = 'nonempty'
                outs.append(R(st, v))
            return outs
        if m in ('values', 'items', 'copy', '__len__', '__contains__', 'get', '__getitem__'):
            if m == '__getitem__' and len(args) == 1:
                return self.sub_load(CACHE, args[0], st, None, line)
            if m == '__len__':
                v = ('ev', 'len', self.newid())
                st.emit('LEN', (), line, val=v)
                return [R(st, v)]
            if m == '__contains__' and len(args) == 1:
                return self.contains(args[0], CACHE, st, None, line)
            v = ('ev', m, self.newid())
            st.emit('PEEK', (C(m),) + tuple(args), line, val=v)
            return [R(st, v)]
        if m == 'pop':
            k = args[0] if args else ('opaque', 'nokey')
            outs = []
            for tok in self.hash_edges(k, st):
                s2 = st.fork()
                s2.emit('DELERR', (k, C(tok)), line)
                outs.append(R(s2, None, tok, line))
            self.mark_hashable(k, st)
            tolerant = len(args) >= 2
            res = self.resident(k, st)
            if res is not False:
                s2 = st.fork() if res is None else st
                v = ('ev', 'popval', self.newid())
                s2.emit('DEL', (k,), line, val=v, extra={'via': 'pop'})
                self.invalidate_resident(s2)
                self.set_resident(k, False, s2)
                s2.facts['size'] = None
                outs.append(R(s2, v))
            if res is not True:
                if tolerant:
                    st.emit('DELMISS', (k,), line, extra={'via': 'pop', 'tolerant': True})
                    self.set_resident(k, False, st)
                    outs.append(R(st, args[1]))
                else:
                    st.emit('DELMISS', (k,), line, extra={'via': 'pop'})
                    outs.append(R(st, None, 'KeyError', line))
            return outs
        if m == '__setitem__' and len(args) == 2:
            return self.sub_store(CACHE, args[0], args[1], st, None, line)
        if m == '__delitem__' and len(args) == 1:
            return self.sub_del(CACHE, args[0], st, None, line)
        # anything else is a management operation the wrappers are not supposed to use
        st.emit('CACHEOP', (C(m),) + tuple(args), line)
        self.invalidate_resident(st)
        st.facts['size'] = None
        return [R(st, ('ev', 'cacheop', self.newid()))]

    def bk_method(self, bk, m, args, kws, st, line):
        kind = bk[2]
        outs = []
        if kind == 'deque':
            if m not in DEQUE_METHODS:
                raise AnalysisError('unmodelled deque method %s at %s:%d' % (m, self.module.rel, line))
            op = DEQUE_METHODS[m]
            if op is None:
                v = ('ev', 'bkpeek', self.newid())
                return [R(st, v)]
            if op in ('append', 'appendleft', 'extend', 'extendleft'):
                st.emit('BK', (bk, C(op)) + tuple(args), line)
                if op in ('append', 'appendleft'):
                    st.facts.setdefault('nonempty', set()).add(bk)
                return [R(st, NONE)]
            if op in ('pop', 'popleft'):
                ne = bk in st.facts.get('nonempty', set())
                popped = bk in st.facts.get('popped', set())
                if not ne and not popped:
                    s2 = st.fork()
                    s2.emit('BKEMPTY', (bk, C(op)), line)
                    outs.append(R(s2, None, 'IndexError', line))
                elif not ne and popped:
                    self.assumed.append('%s.%s at line %d after an earlier pop: non-emptiness relies on W-BK pairing' % (bk[1], op, line))
                v = ('ev', 'bkpop', self.newid())
                st.emit('BK', (bk, C(op)), line, val=v)
                st.facts.setdefault('nonempty', set()).discard(bk)
                st.facts.setdefault('popped', set()).add(bk)
                outs.append(R(st, v))
                return outs
            if op == 'remove':
                s2 = st.fork()
                s2.emit('BKMISS', (bk, C(op)) + tuple(args), line)
                outs.append(R(s2, None, 'ValueError', line))
                st.emit('BK', (bk, C(op)) + tuple(args), line)
                st.facts.setdefault('nonempty', set()).discard(bk)
                outs.append(R(st, NONE))
                return outs
            if op == 'clear':
                st.emit('BK', (bk, C('clear')), line)
                st.facts.setdefault('nonempty', set()).discard(bk)
                st.facts.setdefault('popped', set()).discard(bk)
                return [R(st, NONE)]
            st.emit('BK', (bk, C(op)) + tuple(args), line)
            return [R(st, NONE)]
        if kind == 'counter':
            if m not in COUNTER_METHODS:
                raise AnalysisError('unmodelled counter method %s at %s:%d' % (m, self.module.rel, line))
            op = COUNTER_METHODS[m]
            if op is None:
                if m in ('items', 'keys', 'values'):
                    return [R(st, ('bkview', bk, m, bk in st.facts.get('nonempty', set())))]
                return [R(st, ('ev', 'bkpeek', self.newid()))]
            if op == 'popkey':
                tolerant = len(args) >= 2
                st.emit('BK', (bk, C('popkey')) + tuple(args[:1]), line, extra={'tolerant': tolerant})
                st.facts.setdefault('nonempty', set()).discard(bk)
                outs.append(R(st, ('ev', 'bkpopkey', self.newid())))
                if not tolerant:
                    s2 = st.fork()
                    outs.append(R(s2, None, 'KeyError', line))
                return outs
            if op == 'clear':
                st.emit('BK', (bk, C('clear')), line)
                st.facts.setdefault('nonempty', set()).discard(bk)
                return [R(st, NONE)]
            st.emit('BK', (bk, C(op)) + tuple(args), line)
            return [R(st, ('ev', 'bkop', self.newid()))]
        if kind == 'list':
            st.emit('BK', (bk, C(m)) + tuple(args), line)
            return [R(st, ('ev', 'listop', self.newid()))]
        if kind == 'odict':
            # an insertion-ordered dict used as an ordered set of keys; events use the deque vocabulary (recent end = right):
            #   d[k] = v       append(k) if k is absent, NO move if present      d.pop(k) / del d[k]   remove(k)
            #   d.popitem()    pop (recent end)     popitem(last=False)  popleft   move_to_end(k)        remove(k) + append(k)
            def kwv(name, default):
                for k in kws:
                    if k[0] == 'kw' and k[1] == name:
                        return k[2]
                return default
            if m in ('keys', 'items', 'values', 'get', '__contains__', '__len__', '__iter__', 'copy', '__getitem__', '__reversed__'):
                return [R(st, ('ev', 'bkpeek', self.newid()))]
            if m == 'clear':
                st.emit('BK', (bk, C('clear')), line)
                st.facts.setdefault('nonempty', set()).discard(bk)
                st.facts.setdefault('popped', set()).discard(bk)
                return [R(st, NONE)]
            if m == 'popitem':
                last = kwv('last', args[0] if args else C(True))
                op = 'pop' if last == C(True) else ('popleft' if last == C(False) else None)
                if op is None:
                    raise AnalysisError('unmodelled popitem(last=%s) at %s:%d' % (render(last), self.module.rel, line))
                ne = bk in st.facts.get('nonempty', set())
                if not ne:
                    s2 = st.fork()
                    s2.emit('BKEMPTY', (bk, C(op)), line)
                    outs.append(R(s2, None, 'KeyError', line))
                v = ('ev', 'bkpop', self.newid())
                st.emit('BK', (bk, C(op)), line, val=v)
                st.facts.setdefault('nonempty', set()).discard(bk)
                st.facts.setdefault('popped', set()).add(bk)
                outs.append(R(st, ('tuple', (v, ('opaque', 'odict-value')))))
                return outs
            if m == 'pop' and args:
                tolerant = len(args) >= 2
                s2 = st.fork()
                s2.emit('BKMISS', (bk, C('remove')) + tuple(args[:1]), line)
                outs.append(R(s2, args[1], None, line) if tolerant else R(s2, None, 'KeyError', line))
                st.emit('BK', (bk, C('remove')) + tuple(args[:1]), line)
                st.facts.setdefault('nonempty', set()).discard(bk)
                outs.append(R(st, ('ev', 'bkpopkey', self.newid())))
                return outs
            if m == 'move_to_end' and args:
                last = kwv('last', args[1] if len(args) > 1 else C(True))
                end = 'append' if last == C(True) else ('appendleft' if last == C(False) else None)
                if end is None:
                    raise AnalysisError('unmodelled move_to_end(last=%s) at %s:%d' % (render(last), self.module.rel, line))
                s2 = st.fork()
                s2.emit('BKMISS', (bk, C('remove')) + tuple(args[:1]), line)
                outs.append(R(s2, None, 'KeyError', line))
                st.emit('BK', (bk, C('remove')) + tuple(args[:1]), line)
                st.emit('BK', (bk, C(end)) + tuple(args[:1]), line)
                st.facts.setdefault('nonempty', set()).add(bk)
                outs.append(R(st, NONE))
                return outs
            if m == 'setdefault' and args:
                st.emit('BK', (bk, C('append')) + tuple(args[:1]), line, extra={'ifabsent': True})
                st.facts.setdefault('nonempty', set()).add(bk)
                return [R(st, ('ev', 'bkpeek', self.newid()))]
            raise AnalysisError('unmodelled method %s on the ordered-dict bookkeeping at %s:%d' % (m, self.module.rel, line))
        return None

    # -- attributes -------------------------------------------------------------------------
    def attr_load(self, obj, attr, st, node):
        if obj == CACHE:
            if attr == 'archive':
                return [R(st, ARCHIVE)]
            return [R(st, ('bound', CACHE, attr))]
        if obj == ARCHIVE:
            return [R(st, ('bound', ARCHIVE, attr))]
        if is_bk(obj):
            return [R(st, ('bound', obj, attr))]
        if obj == FN and attr in FN_OPTIONAL_ATTRS:
            # the decorated callable may be a functools.partial, a callable instance, a builtin: these attributes are not there for all of them
            line = getattr(node, 'lineno', 0)
            s2 = st.fork()
            s2.emit('FNATTRERR', (C(attr),), line)
            return [R(s2, None, 'AttributeError', line), R(st, ('attr', FN, attr))]
        return None

    # -- locks (threading.Lock / RLock created in __call__): typestate "held count" along the path ----------------
    @staticmethod
    def is_lock(v):
        return isinstance(v, tuple) and len(v) > 2 and v[0] == 'call' and v[1][0] == 'lib' and v[1][1].split('.')[-1] in ('RLock', 'Lock') and not v[2]

    def _lock_count(self, v, st, delta, line):
        locks = dict(st.facts.get('locks', {}))
        n = locks.get(v, 0) + delta
        if n < 0:
            st.emit('LOCKERR', (v,), line)
            return 'RuntimeError'
        locks[v] = n
        st.facts['locks'] = locks
        st.emit('LOCK', (v, C(delta)), line)
        return None

    def with_enter(self, val, st, node):
        if self.is_lock(val):
            self._lock_count(val, st, +1, getattr(node, 'lineno', 0))

    def with_exit(self, val, st, node):
        if self.is_lock(val):
            return self._lock_count(val, st, -1, getattr(node, 'lineno', 0))
        return None

    def attr_store(self, obj, attr, val, st, node):
        line = getattr(node, 'lineno', 0)
        if obj == CACHE:
            st.emit('REBIND', (C(attr), val), line)
            return [R(st, NONE)]
        if obj == SELF or obj == ('attr', SELF, '__state__'):
            st.emit('SELFSET', (C(attr), val), line)
            return [R(st, NONE)]
        return None

    # -- subscripts --------------------------------------------------------------------------
    def sub_load(self, obj, idx, st, node, line=None):
        line = line if line is not None else getattr(node, 'lineno', 0)
        if obj == ('attr', SELF, '__state__') and is_const(idx):
            k = idx[1]
            return [R(st, ('role', k))]
        if obj == CACHE:
            k = idx
            outs = []
            for tok in self.hash_edges(k, st):
                s2 = st.fork()
                s2.emit('GETERR', (k, C(tok)), line)
                outs.append(R(s2, None, tok, line))
            self.mark_hashable(k, st)
            res = self.resident(k, st)
            if st.facts.get('size') == 'empty':
                res = False
            if res is not True:
                s2 = st.fork() if res is None else st
                s2.emit('GETMISS', (k,), line)
                self.set_resident(k, False, s2)
                outs.append(R(s2, None, 'KeyError', line))
            if res is not False:
                v = ('ev', 'get', self.newid())
                st.emit('GET', (k,), line, val=v)
                self.set_resident(k, True, st)
                if st.facts.get('size') is None:
                    st.facts['size'] = 'nonempty'
                outs.append(R(st, v))
            return outs
        if is_bk(obj, 'counter'):
            v = ('ev', 'bkget', self.newid())
            st.emit('BKGET', (obj, idx), line, val=v)
            return [R(st, v)]
        if is_bk(obj, 'list'):
            return [R(st, ('sub', obj, idx))]
        if is_bk(obj, 'deque'):
            return [R(st, ('ev', 'bkpeek', self.newid()))]
        return None

    def sub_store(self, obj, idx, val, st, node, line=None):
        line = line if line is not None else getattr(node, 'lineno', 0)
        if obj == CACHE:
            k = idx
            outs = []
            for tok in self.hash_edges(k, st):
                s2 = st.fork()
                s2.emit('SETERR', (k, C(tok)), line)
                outs.append(R(s2, None, tok, line))
            self.mark_hashable(k, st)
            if getattr(self, 'store_fail', False):
                # the cache may be an archive itself: storing a result that cannot be encoded fails
                s2 = st.fork()
                s2.emit('SETERR', (k, C('StoreError')), line)
                outs.append(R(s2, None, GENERIC, line))
            st.emit('SET', (k, val), line)
            self.set_resident(k, True, st)
            st.facts['size'] = 'nonempty'
            st.facts['allabsent'] = False
            outs.append(R(st, NONE))
            return outs
        if is_bk(obj, 'list'):
            if idx[0] == 'slice':
                st.emit('STATRESET', (obj, idx, val), line)
            elif val[0] == 'bin' and val[2] == ('sub', obj, idx):
                st.emit('STAT', (obj, idx, C(val[1]), val[3]), line)       # x[i] = x[i] + n  is  x[i] += n
            elif val[0] == 'bin' and val[1] == '+' and val[3] == ('sub', obj, idx):
                st.emit('STAT', (obj, idx, C('+'), val[2]), line)
            else:
                st.emit('STATSET', (obj, idx, val), line)
            return [R(st, NONE)]
        if is_bk(obj, 'counter'):
            # n[k] = n[k] - 1 (possibly through a local: c = n[k] - 1; n[k] = c) is n[k] -= 1
            if val[0] == 'bin' and val[1] in ('+', '-') and len(val) > 3 and val[2][0] == 'ev' and val[2][1] == 'bkget':
                g = [e for e in st.events if e.kind == 'BKGET' and e.val == val[2]]
                later = [e for e in st.events if e.kind == 'BK' and e.args[0] == obj and g and st.events.index(e) > st.events.index(g[0])]
                if g and g[0].args[0] == obj and g[0].args[1] == idx and not later:
                    st.emit('BK', (obj, C('inc' if val[1] == '+' else 'dec'), idx, val[3]), line, extra={'newval': val})
                    if val[1] == '+':
                        st.facts.setdefault('nonempty', set()).add(obj)
                    return [R(st, NONE)]
            st.emit('BK', (obj, C('set'), idx, val), line)
            st.facts.setdefault('nonempty', set()).add(obj)
            return [R(st, NONE)]
        if is_bk(obj, 'odict'):
            # assigning an existing key of a dict does not change its position
            st.emit('BK', (obj, C('append'), idx), line, extra={'ifabsent': True})
            st.facts.setdefault('nonempty', set()).add(obj)
            return [R(st, NONE)]
        if obj == ('attr', SELF, '__state__'):
            st.emit('SELFSET', (idx, val), line)
            return [R(st, NONE)]
        return None

    def sub_del(self, obj, idx, st, node, line=None):
        line = line if line is not None else getattr(node, 'lineno', 0)
        if obj == CACHE:
            k = idx
            outs = []
            for tok in self.hash_edges(k, st):
                s2 = st.fork()
                s2.emit('DELERR', (k, C(tok)), line)
                outs.append(R(s2, None, tok, line))
            self.mark_hashable(k, st)
            res = self.resident(k, st)
            if res is None and self.derived_from_keys(k, st):
                res = True
            if res is not True:
                s2 = st.fork() if res is None else st
                s2.emit('DELMISS', (k,), line)
                self.set_resident(k, False, s2)
                outs.append(R(s2, None, 'KeyError', line))
            if res is not False:
                st.emit('DEL', (k,), line)
                self.invalidate_resident(st)
                self.set_resident(k, False, st)
                st.facts['size'] = None
                st.facts['keysver'] = {}
                outs.append(R(st, NONE))
            return outs
        if is_bk(obj, 'counter'):
            s2 = st.fork()
            s2.emit('BKMISS', (obj, C('del'), idx), line)
            st.emit('BK', (obj, C('del'), idx), line)
            st.facts.setdefault('nonempty', set()).discard(obj)
            return [R(st, NONE), R(s2, None, 'KeyError', line)]
        if is_bk(obj, 'odict'):
            s2 = st.fork()
            s2.emit('BKMISS', (obj, C('remove'), idx), line)
            st.emit('BK', (obj, C('remove'), idx), line)
            st.facts.setdefault('nonempty', set()).discard(obj)
            return [R(st, NONE), R(s2, None, 'KeyError', line)]
        return None

    def derived_from_keys(self, k, st):
        """k was drawn from cache.keys() and the cache has not lost entries since"""
        live = st.facts.get('keysver', {})
        return contains_term(k, lambda t: t in live)

    def sub_aug(self, obj, idx, op, val, st, node):
        line = getattr(node, 'lineno', 0)
        if is_bk(obj, 'list'):
            st.emit('STAT', (obj, idx, C(op), val), line)
            return [R(st, NONE)]
        if is_bk(obj, 'counter'):
            outs = []
            for tok in self.hash_edges(idx, st):
                s2 = st.fork()
                s2.emit('BKERR', (obj, idx, C(tok)), line)
                outs.append(R(s2, None, tok, line))
            name = {'+': 'inc', '-': 'dec'}.get(op, 'aug' + op)
            st.emit('BK', (obj, C(name), idx, val), line)
            if name == 'inc':
                st.facts.setdefault('nonempty', set()).add(obj)
            outs.append(R(st, NONE))
            return outs
        return None

    def contains(self, item, container, st, node, line=None):
        line = line if line is not None else getattr(node, 'lineno', 0)
        if container == CACHE:
            k = item
            outs = []
            for tok in self.hash_edges(k, st):
                s2 = st.fork()
                s2.emit('GETERR', (k, C(tok)), line)
                outs.append(R(s2, None, tok, line))
            self.mark_hashable(k, st)
            res = self.resident(k, st)
            if res is not True:
                s2 = st.fork() if res is None else st
                s2.emit('HAS', (k, C(False)), line)
                self.set_resident(k, False, s2)
                outs.append(R(s2, C(False)))
            if res is not False:
                st.emit('HAS', (k, C(True)), line)
                self.set_resident(k, True, st)
                outs.append(R(st, C(True)))
            return outs
        if is_bk(container):
            v = ('ev', 'bkhas', self.newid())
            st.emit('BKHAS', (container, item), line, val=v)
            return [R(st, v)]
        return None

    # -- branching ---------------------------------------------------------------------------
    def truth(self, val, st, node):
        line = getattr(node, 'lineno', 0)
        if val == ARCHIVED or val == PURGE:
            key = 'archived' if val == ARCHIVED else 'purge'
            known = st.facts.get(key)
            if known is not None:
                return [(st, known)]
            a, b = st, st.fork()
            a.facts[key] = True
            b.facts[key] = False
            a.emit('ASSUME', (C(key), C(True)), line)
            b.emit('ASSUME', (C(key), C(False)), line)
            return [(a, True), (b, False)]
        if val[0] == 'call' and val[1] == ('lib', 'bool') and len(val[2]) == 1 and not val[3] and is_bk(val[2][0]):
            return self.truth(val[2][0], st, node)       # recent = bool(queue); if recent: ...
        if is_bk(val, 'deque') or is_bk(val, 'counter') or is_bk(val, 'odict'):
            ne = val in st.facts.get('nonempty', set())
            if ne:
                return [(st, True)]
            a, b = st, st.fork()
            a.facts.setdefault('nonempty', set()).add(val)
            a.emit('BKTEST', (val, C(True)), line)
            b.facts.setdefault('knownempty', set()).add(val)
            b.emit('BKTEST', (val, C(False)), line)
            return [(a, True), (b, False)]
        # a number with a known lower bound compared with a constant: max(2, maxsize // 10) > 0 is true
        if val[0] == 'cmp' and val[1] in ('>', '>=') and is_const(val[3]) and isinstance(val[3][1], int) and not isinstance(val[3][1], bool):
            lb = lower_bound(val[2])
            if lb is not None and ((val[1] == '>' and lb > val[3][1]) or (val[1] == '>=' and lb >= val[3][1])):
                st.emit('BRANCH', (val, C(True)), line, extra={'decided': True})
                return [(st, True)]
        # len(cache) compared with a constant: decided by the size fact when possible
        if val[0] == 'cmp' and val[1] in ('>', '>=', '<', '<=') :
            d = self.decide_len_cmp(val, st)
            if d is not None:
                st.emit('BRANCH', (val, C(d)), line, extra={'decided': True})
                return [(st, d)]
        return None

    def decide_len_cmp(self, val, st):
        op, a, b = val[1], val[2], val[3]
        if b[0] == 'ev' and b[1] == 'len':
            a, b = b, a
            op = {'>': '<', '<': '>', '>=': '<=', '<=': '>='}[op]
        if not (a[0] == 'ev' and a[1] == 'len'):
            return None
        b = self.fold(b)
        if not (is_const(b) and isinstance(b[1], int)):
            return None
        size = st.facts.get('lenver', {}).get(a, None)
        c = b[1]
        if size == 'nonempty':      # len >= 1
            if op == '>' and c <= 0:
                return True
            if op == '>=' and c <= 1:
                return True
            if op == '<' and c <= 1:
                return False
            if op == '<=' and c <= 0:
                return False
        if size == 'empty':         # len == 0
            if op == '>':
                return 0 > c
            if op == '>=':
                return 0 >= c
            if op == '<':
                return 0 < c
            if op == '<=':
                return 0 <= c
        return None

    def fold(self, t):
        """substitute a pinned maxsize and fold integer arithmetic"""
        if t == MAXSIZE and 'maxsize' in self.state_consts and isinstance(self.state_consts['maxsize'], int):
            return C(self.state_consts['maxsize'])
        if isinstance(t, tuple) and t and t[0] == 'bin':
            return self.engine.binop(t[1], self.fold(t[2]), self.fold(t[3]))
        return t

    def iterate(self, itval, st, node):
        # iteration that drives a bookkeeping pop: iter(bound(bk,'pop'), sentinel)
        hook = {}
        for t in subterms(itval):
            if t[0] == 'call' and libname(t[1]) == 'iter' and len(t[2]) == 2 and t[2][0][0] == 'bound' and is_bk(t[2][0][1]):
                bk, meth = t[2][0][1], t[2][0][2]
                line = getattr(node, 'lineno', 0)

                def on_iter(st2, i, val, bk=bk, meth=meth, line=line):
                    v = ('ev', 'bkpop', self.newid())
                    st2.emit('BK', (bk, C(meth)), line, val=v, extra={'driver': True})
                    return [R(st2, v)]

                def on_exit(st2, i, bk=bk, meth=meth, line=line):
                    st2.emit('BK', (bk, C(meth)), line, extra={'driver': True, 'sentinel': True})
                hook['on_iter'] = on_iter
                hook['on_exit'] = on_exit
                return hook
        # victims drawn from a non-empty counter view with n >= 1 (a filtered comprehension of a non-empty view may be empty)
        if contains_term(itval, lambda t: t[0] == 'comp' and len(t) > 3):
            return None
        if itval[0] == 'call' and libname(itval[1]) in ('nsmallest', 'nlargest') and len(itval[2]) >= 2:
            n = lower_bound(itval[2][0])
            src = itval[2][1]
            if n is not None and n >= 1 and contains_term(src, lambda t: t[0] == 'bkview' and t[3] is True):
                hook['nonempty'] = True
                return hook
        if itval[0] == 'sub' and itval[2][0] == 'slice' and itval[2][1] == NONE and itval[1][0] == 'call' and libname(itval[1][1]) == 'sorted':
            n = lower_bound(itval[2][2])
            if n is not None and n >= 1 and itval[1][2] and contains_term(itval[1][2][0], lambda t: t[0] == 'bkview' and t[3] is True):
                hook['nonempty'] = True
                return hook
        if contains_term(itval, lambda t: t[0] == 'bkview' and t[3] is True) and itval[0] == 'bkview':
            hook['nonempty'] = True
            return hook
        return None

    def exc_tokens_any(self):
        return getattr(self, 'any_tokens', ['KeyError', 'TypeError', GENERIC, BASEONLY])
