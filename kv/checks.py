"""Per-property check drivers: which rules decide which property (DESIGN section 0)."""
from .src import Repo, AnalysisError
from .report import Ctx, finish
from .paths import render_path
from . import rules_wrappers as W
from .decorators import load_decorators
from . import rules_keymaps as K
from . import rules_rounding as RR
from . import rules_cache as S
from . import rules_archives as A
from . import rules_inspect as G

TECH = 'static analysis: exhaustive path enumeration with typed exception edges over the decorator closures (ast), def-use normal forms, who-may-call rules'


def _wrappers(ctx, tier):
    decs = load_decorators(ctx.repo, unroll=2 if tier == 'quick' else 4)
    out = []
    for d in decs:
        W.setup_abbrev(d)
        paths = d.wrapper_paths()
        ctx.analysed(W.wq(d))
        ctx.add_paths(paths, W.wq(d))
        out.append((d, paths))
    return out


def _sample_paths(ctx, d, paths, pred, n=1):
    k = 0
    for o in paths:
        if pred(o):
            ctx.sample({'construct': W.wq(d), 'path': render_path(o, 30)})
            k += 1
            if k >= n:
                break


def check_C01(ctx, tier):
    for d, paths in _wrappers(ctx, tier):
        W.setup_abbrev(d)
        W.rule_W_KEY(ctx, d, paths)
        W.rule_W_ARGS(ctx, d, paths)
        W.rule_W_STORE(ctx, d, paths)
        W.rule_W_RET(ctx, d, paths)
        W.rule_W_INTERNAL(ctx, d, paths)
        W.rule_W_SAFE(ctx, d, paths)               # a klepto.safe wrapper returns f(a) wherever the undecorated call would (no key-building failure escapes)
        W.rule_W_WRITERS(ctx, d)
        if d.name == 'lru_cache':
            _sample_paths(ctx, d, paths, lambda o: o.kind == 'return' and any(e.kind == 'DEL' for e in o.st.events))
    S.rule_S_LOAD_DUMP(ctx, ctx.repo)      # load/dump copy values under the same key (used by the inductive argument)
    K.rule_K_OWN(ctx, ctx.repo)            # the key of a call does not depend on earlier calls (no aliasing of module-level state)
    G.rule_SIG(ctx, ctx.repo)              # arguments are filed under the parameter names of the callable that is actually called, inspected now
    G.rule_K_CAPTURE(ctx, ctx.repo)        # ... and none of the user's keywords is captured on the way
    K.rule_K_INFO_TYPED_SENT(ctx, ctx.repo)    # the keymaps C01 calls information-preserving really keep every argument, type tag and segment boundary
    K.rule_K_SENTINEL_SET(ctx, ctx.repo)       # ... with the separator the caller configured
    K.rule_K_FORWARD(ctx, ctx.repo)            # ... and the encoders run with the options as configured (an unset option is the encoder's default)
    K.rule_K_FAST(ctx, ctx.repo)
    K.rule_K_HASH(ctx, ctx.repo)
    K.rule_K_DISPATCH(ctx, ctx.repo)
    A.rule_A_FNAME(ctx, ctx.repo, A.Cache(ctx.repo, unroll=1))    # two keys never share an archive entry through a lossy entry name
    A.rule_A_GLOBAL(ctx, ctx.repo)         # ... and two archives never share a store through a process-wide registry
    A.rule_A_SCHEMA(ctx, ctx.repo)         # ... nor two keys one row through a column affinity
    A.rule_A_SIBLINGS(ctx, ctx.repo)       # what cache.load() reads (__asdict__ / __getitem__) is the value, decoded the same way by every reader
    A.rule_A_CODEC_CONFIG(ctx, ctx.repo)         # ... decided by the archive's settings, not by what the value looks like
    A.rule_A_SETTINGS_EXPLICIT(ctx, ctx.repo)     # ... which are the ones the caller passed, not ones guessed from the archive's name
    A.rule_A_ZSTREAM(ctx, ctx.repo)               # ... and compressed entries are decompressed whole
    A.rule_A_ABS(ctx, ctx.repo, A.Cache(ctx.repo, unroll=1))    # the archive a result is loaded from is the function's own, whatever the working directory is by then
    ctx.require_instances('W-KEY', 36, 'key uses')
    ctx.require_instances('W-ARGS', 12, 'evaluation sites')
    ctx.assume('an entry (k -> v) in memory or archive satisfies v = f(a) for K(a) = k at the start of the call (inductive hypothesis)')
    ctx.assume('value equality through encoders, injectivity of the keymap and archive round trips are not decided here (C10, C03, C04)')
    return ('Inductive step of memoization transparency on every path of all 12 wrappers: lookups/stores use the canonical key, '
            'the function sees the caller\'s arguments, the only store is K -> f(a), the return value is f(a) or what was read under K, '
            'no internal exception escapes, and nobody but wrapper/clear/load/dump writes the cache.')


def check_C02(ctx, tier):
    for d, paths in _wrappers(ctx, tier):
        W.setup_abbrev(d)
        W.rule_W_EVAL1(ctx, d, paths)
        W.rule_W_MISS(ctx, d, paths)
        W.rule_W_DROP(ctx, d, paths)
        W.rule_W_DROP_DUMPFAIL(ctx, d)
        W.rule_W_KEY(ctx, d, paths)
        W.rule_W_FRESH(ctx, d)
        if d.name == 'lfu_cache':
            _sample_paths(ctx, d, paths, lambda o: o.kind == 'return' and any(e.kind == 'EVAL' for e in o.st.events) and o.st.facts.get('archived'))
    S.rule_S_LOAD_DUMP(ctx, ctx.repo)      # load(k) finds what dump(k) wrote, at the cache level
    S.rule_S_NOSWALLOW(ctx, ctx.repo)      # ... and a dump that failed says so (the wrappers discard from memory right after it)
    S.rule_S_IDENT(ctx, ctx.repo)          # ... and archiving is not switched off in a restored cache by an identity test against a per-process placeholder
    ac = A.Cache(ctx.repo, unroll=1)
    A.rule_A_FNAME(ctx, ctx.repo, ac)             # ... under an entry name that is the same in every session
    A.rule_A_KEYERR_FOUND(ctx, ctx.repo, ac)      # ... and a stored None / 0 / '' is found, not reported as missing
    A.rule_A_NONE_ABSENT(ctx, ctx.repo)           # ... by any reader or writer of the archive and cache classes
    A.rule_A_PUBFAIL(ctx, ctx.repo, ac)           # ... and a failed write of one result never destroys the results archived before
    A.rule_A_COMMIT(ctx, ctx.repo, ac)            # ... and a result written to a SQL archive is committed, so a second decorator instance / later session finds it
    A.rule_A_PUBPARENTS(ctx, ctx.repo, ac)        # ... and an entry whose name is a nested path is really stored
    A.rule_A_CODEC(ctx, ctx.repo)                 # ... and what is stored can be decoded by the session that needs it
    A.rule_A_RED_COPY(ctx, ctx.repo, ac, parts=('red',))     # ... also when the archive reached that session inside a pickled decorator (same format settings)
    A.rule_A_ABS(ctx, ctx.repo, ac)               # ... and under the same location whatever the working directory is by then
    W.rule_W_SIBLING_INIT(ctx, ctx.repo)          # ... by either decorator module alike (an archive handed in as `cache=` is used, not copied)
    A.rule_A_RED_DERIVED(ctx, ctx.repo)           # ... under the file names its settings say, also in a handle rebuilt from a pickle (nothing derived is cached outside __state__)
    A.rule_A_WRITEALL(ctx, ctx.repo, ac)          # ... every dumped entry is really written (no "already there" shortcut decided on this handle's view)
    A.rule_A_NOCACHE(ctx, ctx.repo, ac)           # ... and read back from the store itself (a second decorator's handle sees it)
    A.rule_A_ZSTREAM(ctx, ctx.repo)               # ... and the reader of compressed entries accepts whatever the writer stored (no reader-only size limit)
    A.rule_A_PATHNORM(ctx, ctx.repo)              # ... and no guard on the way refuses every key because it compares a resolved path with an unresolved one
    ctx.assume('cache.load(k) retrieves what cache.dump(k) stored for every backend (C03/C04/C08 decide their structural part)')
    ctx.assume('cache.archived() and purge have one value during a single wrapper call')
    return ('Compute-once on every path: at most one evaluation; evaluation only directly after a failed lookup of K which, '
            'when an archive is attached, is preceded by a load of K; whatever leaves memory was dumped first.')


def check_C05(ctx, tier):
    for d, paths in _wrappers(ctx, tier):
        W.setup_abbrev(d)
        W.rule_W_CAP(ctx, d, paths)
        W.rule_W_BK(ctx, d, paths)
        W.rule_W_BKRES(ctx, d, paths)
        W.rule_W_ALIAS(ctx, d)
        W.rule_W_NEW(ctx, d)
        W.rule_W_STATE(ctx, d)
        W.rule_W_CLEAR(ctx, d)
        W.rule_W_WRITERS(ctx, d)                   # an entry removed behind the bookkeeping's back leaves a stale victim: the next overflow evicts nothing
        W.rule_W_INTERNAL(ctx, d, paths)           # an exception of the wrapper's own making between the insertion and the eviction leaves the cache over its bound
        W.rule_W_COMPACT(ctx, d)                   # the LRU queue compaction leaves one occurrence per key (else later victims are not resident and nothing is evicted)
        if d.name == 'mru_cache':
            _sample_paths(ctx, d, paths, lambda o: o.kind == 'return' and any(e.kind == 'DEL' for e in o.st.events))
    S.rule_S_LOAD_DUMP(ctx, ctx.repo)              # cache.load(key) brings in at most the one entry the overflow test then accounts for (a tuple key is not unpacked)
    S.rule_S_PLAIN_EFF(ctx, ctx.repo)              # cache[k] = v stores (plain dict): a key the bookkeeping records is resident, so its eviction removes an entry
    A.rule_A_CODEC_CONFIG(ctx, ctx.repo)           # the dump that precedes a purge is not refused for values the function may return (nan / inf under json)
    ctx.assume('a victim popped from the bookkeeping is still resident (container invariant "bookkeeping subset of resident"; '
               'W-BK checks the local steps that maintain it); paths where del cache[v] raises the swallowed KeyError are listed, not reported')
    return ('Capacity: after every insertion or load an overflow test len(cache) > maxsize (or stricter) is evaluated on every normal '
            'path; its true branch clears (purge) or deletes a bookkeeping victim; victim selection cannot hit an empty queue; bookkeeping '
            'is cleared with the cache; __new__ dispatches maxsize 0/None for positional and keyword spelling; no_cache ends empty; '
            'inf_cache never removes.')


def check_C06(ctx, tier):
    for d, paths in _wrappers(ctx, tier):
        W.setup_abbrev(d)
        W.rule_W_POL(ctx, d, paths)
        W.rule_W_HITPURE(ctx, d, paths)
        W.rule_W_BK(ctx, d, paths)
        W.rule_W_BKRES(ctx, d, paths)
        W.rule_W_ALIAS(ctx, d)                     # the bound-method shortcuts of the recency queue keep pointing at the queue
        W.rule_W_BKUNBOUNDED(ctx, d)               # ... which never drops a recorded use on its own (no maxlen)
        W.rule_W_CLEAR(ctx, d)                     # clear() empties the bookkeeping with the cache: use counts are "since the entry entered the cache"
        W.rule_W_WRITERS(ctx, d)                   # only the wrapper (and clear) touch the bookkeeping: a management closure that re-files keys overwrites the recorded order
        W.rule_W_INTERNAL(ctx, d, paths)           # the compaction / eviction steps raise nothing of their own (an aborted step leaves queue and counts out of step)
        if d.name == 'lru_cache' and d.modname == '_cache':
            _sample_paths(ctx, d, paths, lambda o: o.kind == 'return' and any((e.extra or {}).get('driver') for e in o.st.events))
    S.rule_S_PLAIN_EFF(ctx, ctx.repo)              # del cache[victim] removes exactly that entry, cache[k] = v stores it (plain dict operations)
    A.rule_A_FNAME(ctx, ctx.repo, A.Cache(ctx.repo, unroll=1))   # ... also when the cache is a directory archive used directly: two keys never share an entry
    A.rule_A_GLOBROOT(ctx, ctx.repo)               # ... and len(cache) counts its entries wherever the directory lives (the root is never read as a glob pattern)
    ctx.assume('tie-breaking among equal counts/recencies and residency of the selected victim are not decided')
    return ('Policy-defining operations on every path: LRU records each use at one end with paired refcounts and evicts from the other '
            'end skipping keys with later uses, compaction preserves order; MRU moves a hit to the recent end and evicts from it before '
            'recording the current key; LFU counts every use and evicts the n>=1 smallest counts; RR deletes exactly one key drawn from '
            'the cache; a hit removes nothing.')


def check_C07(ctx, tier):
    for d, paths in _wrappers(ctx, tier):
        W.setup_abbrev(d)
        W.rule_W_DROP(ctx, d, paths)
        W.rule_W_DROP_DUMPFAIL(ctx, d)
        W.rule_W_ARCH(ctx, d, paths)
        W.rule_W_WRITERS(ctx, d)
        W.rule_W_FRESH(ctx, d)
        if d.name == 'rr_cache':
            _sample_paths(ctx, d, paths, lambda o: o.kind == 'return' and any(e.kind == 'DUMP' for e in o.st.events))
    S.rule_S_LOAD_DUMP(ctx, ctx.repo)      # S-DUMP: dump(k) writes exactly {k: self[k]} for resident k and removes nothing
    S.rule_S_NOSWALLOW(ctx, ctx.repo)      # ... or raises
    S.rule_S_PLAIN_EFF(ctx, ctx.repo)      # ... and no other operation of the cache object (pop, del, clear, ...) reaches into the archive
    _ac = A.Cache(ctx.repo, unroll=1 if tier == 'quick' else 2)
    A.rule_A_PUBFAIL(ctx, ctx.repo, _ac)   # a failed write-back never replaces or removes what is archived
    A.rule_A_ABS(ctx, ctx.repo, _ac)       # ... in the archive the function was given, whatever the working directory is when the eviction happens
    W.rule_W_SIBLING_INIT(ctx, ctx.repo)   # ... through either decorator module (a persistent archive passed as `cache=` is not replaced by a copy)
    A.rule_A_GLOBROOT(ctx, ctx.repo)       # ... where the lister finds it again (the archive's own path is never read as a glob pattern)
    A.rule_A_PUB(ctx, ctx.repo, _ac, only_foreign=True)       # ... and is staged next to its target, so the publishing rename cannot fail for being on another file system (a swallowed EXDEV)
    A.rule_A_WRITEALL(ctx, ctx.repo, _ac)  # a dumped entry is written whatever the archive holds already
    A.rule_A_FNAME(ctx, ctx.repo, _ac)     # ... under a name of its own (a dump never overwrites the entry of another key)
    A.rule_A_NOCACHE(ctx, ctx.repo, _ac)   # ... on top of what the store holds now (no remembered image that another handle's write has made stale)
    A.rule_A_CODEC(ctx, ctx.repo)          # ... in a form the reader (of any program) can decode
    A.rule_A_SIBLINGS(ctx, ctx.repo)       # ... through the same encoders whichever writer (update / __setitem__) is used
    A.rule_A_CODEC_CONFIG(ctx, ctx.repo)         # ... decided by the archive's settings, not by what the value looks like
    A.rule_A_SETTINGS_EXPLICIT(ctx, ctx.repo)     # ... which are the ones the caller passed, not ones guessed from the archive's name
    A.rule_A_ZSTREAM(ctx, ctx.repo)               # ... and compressed entries are decompressed whole
    return ('Every DEL(v)/CLEAR on a path with an archive attached is preceded by DUMP(v)/DUMP(*) with no intervening store; wrappers '
            'and management closures never touch the archive except through cache.dump/load.')


def check_C15(ctx, tier):
    for d, paths in _wrappers(ctx, tier):
        W.setup_abbrev(d)
        W.rule_W_STAT(ctx, d, paths)
        W.rule_W_STAT_STOREFAIL(ctx, d)
        W.rule_W_INFO(ctx, d)
        W.rule_W_STATE(ctx, d, keys=('maxsize',))      # info().maxsize is the configured bound
        W.rule_W_CLEAR(ctx, d)
        if d.name == 'inf_cache':
            _sample_paths(ctx, d, paths, lambda o: o.kind == 'return', 2)
    S.rule_S_LOAD_DUMP(ctx, ctx.repo)              # a stored result is fetched by cache.load(key) (counted as load), never taken for absent (counted as a miss, with a second evaluation)
    return ('Exactly one counter += 1 per completed call, matching the outcome (hit/load/miss) under the field order info() reports; '
            'no counter change when the function raises; info() wiring; clear(keepstats) empties cache and bookkeeping and resets '
            'counters iff keepstats is false.')


def check_C16(ctx, tier):
    for d, paths in _wrappers(ctx, tier):
        W.setup_abbrev(d)
        W.rule_W_EVAL1(ctx, d, paths)
        W.rule_W_EXC(ctx, d, paths)
        W.rule_W_SAFE(ctx, d, paths)
        W.rule_W_BKRES(ctx, d, paths)              # a key recorded in the bookkeeping without being resident makes a later, ordinary call fail inside the wrapper
        W.rule_W_INTERNAL(ctx, d, paths)           # nothing but the function's own exception (or, outside klepto.safe, an unhashable key) leaves the call
        W.rule_W_NEW(ctx, d, parts=('dispatch', 'forward'))   # maxsize=0 / None hand over to the no_cache / inf_cache of the *same* module (the safe ones stay safe)
        if d.name == 'lru_cache' and d.modname == 'safe':
            _sample_paths(ctx, d, paths, lambda o: any(e.kind == 'GETERR' for e in o.st.events))
    A.rule_A_READFAIL(ctx, ctx.repo, A.Cache(ctx.repo, unroll=1))   # the archive probe on a miss answers "absent" (KeyError) for a key it cannot read; anything else escapes the wrapper before the function ran
    A.rule_A_FNAME(ctx, ctx.repo, A.Cache(ctx.repo, unroll=1))      # ... for every key (the entry name is computed outside the probe's handlers)
    S.rule_S_LOAD_DUMP(ctx, ctx.repo)              # the probe of a call that then raises loads nothing but the entry of its own key (a tuple key is one key)
    ctx.assume('exceptions of the wrapped function are split exactly by the handler classes that occur in each wrapper, plus KeyError, '
               'TypeError, a generic Exception subclass and a BaseException-only class')
    return ('On every path where the function raises: single evaluation, no cache/archive/bookkeeping/statistics mutation anywhere on the '
            'path, the same exception leaves the wrapper. Safe wrappers: every unhashable/unencodable-key edge ends in a plain evaluation '
            'whose result is returned.')


def check_C18(ctx, tier):
    for d, paths in _wrappers(ctx, tier):
        W.setup_abbrev(d)
        W.rule_W_KEY(ctx, d, paths)
        W.rule_W_LOOKUP(ctx, d)
        W.rule_W_IFACE(ctx, d)
        W.rule_W_UPDATER(ctx, d)
        W.rule_W_STATE(ctx, d, keys=('keymap', 'ignore'), allow_default=True)   # the keymap / ignore key() uses are this decorator's own
    A.rule_A_SCHEMA(ctx, ctx.repo)     # key(args) names the entry also after a trip through the archive (keys come back with the type they were stored with)
    S.rule_S_LOAD_DUMP(ctx, ctx.repo)  # ... the entry is archived under key(args) itself (a tuple key is never taken for a collection of keys)
    A.rule_A_FNAME(ctx, ctx.repo, A.Cache(ctx.repo, unroll=1))   # ... and under a name no other key shares (key('a/b') is not reported archived because 'a_b' is)
    A.rule_A_CODEC(ctx, ctx.repo)      # ... and stays readable there (the reader accepts whatever the writer emitted)
    A.rule_A_GETKEY(ctx, ctx.repo)     # ... and is listed under key(args) again (the lister recovers exactly the key that was stored)
    A.rule_A_GLOBROOT(ctx, ctx.repo)   # ... wherever the archive directory lives
    K.rule_K_OWN(ctx, ctx.repo)        # key(args) does not depend on what this process keyed before (no module-level state on the key path)
    return ('key() returns the same normal form K the wrapper looks up and stores under (36 sites), lookup() returns GET(K) and lets '
            'KeyError escape, neither evaluates nor mutates; interface attributes are wired to the decorator\'s own cache/keymap/ignore.')


def check_C09(ctx, tier):
    K.rule_K_ORDER(ctx, ctx.repo)
    K.rule_K_DISPATCH(ctx, ctx.repo)
    K.rule_K_OWN(ctx, ctx.repo)
    G.rule_SIG(ctx, ctx.repo)                      # positional values are filed under the names of the callable that is actually bound
    G.rule_K_CAPTURE(ctx, ctx.repo)                # every keyword of the call travels to the key generation
    G.rule_G_PROBE(ctx, ctx.repo)                  # positional and keyword spelling of a call are keyed alike whatever the argument objects do when probed
    G.rule_G_SELFTRUTH(ctx, ctx.repo)              # ... or evaluate to as booleans
    G.rule_G_SELFDROP(ctx, ctx.repo)               # which parameters are masked does not depend on whether the call spells its arguments positionally
    G.rule_V_PARTIALSHAPE(ctx, ctx.repo)           # the names values are filed under are those of the callable itself, not of a delegate it happens to keep in `.func`
    G.rule_V_CALLFALLBACK(ctx, ctx.repo)           # ... and a partial is never inspected through partial.__call__ (self, *args, **kwargs)
    G.rule_V_CODEOBJ(ctx, ctx.repo)                # ... and the names are the ones inspect reports (a __signature__ is honoured), not those of the code object
    G.rule_G(ctx, ctx.repo, want=('G-VAL', 'G-PREC'))
    G.rule_G_STALE(ctx, ctx.repo)
    S.rule_S_IDENT(ctx, ctx.repo, parts=('optional',))   # a partial's fixed None is not taken for an open slot (names would shift for the positional spelling only)
    RR.rule_W_KEY_keygen(ctx, ctx.repo)            # klepto.keygen computes key() exactly as the call does (same keymap, same arguments)
    RR.rule_R_GUARD_STR_KW(ctx, ctx.repo)          # rounding, which runs before the binding to names, treats a value alike whether it came positionally or by keyword
    RR.rule_R_DEEP(ctx, ctx.repo)                  # ... at every depth (positional and keyword containers are rebuilt the same way)
    for d, paths in _wrappers(ctx, tier):
        W.setup_abbrev(d)
        W.rule_W_KEY(ctx, d, paths)
    ctx.assume("_keygen's binding of positionals/defaults to parameter names is value-level and not decided")
    return ('Keymap side of canonicalisation: no keyword-order-dependent value reaches the key returned by keymap.encode/encrypt except '
            'through the sorter role; __call__ dispatches flat->encode / non-flat->encrypt; every encoder subclass overrides both and '
            'encodes the base-class result; the wrappers pass the _keygen result to the keymap unchanged.')


def check_C10(ctx, tier):
    K.rule_K_INFO_TYPED_SENT(ctx, ctx.repo)
    K.rule_K_SENTINEL_SET(ctx, ctx.repo)
    K.rule_K_CHAIN(ctx, ctx.repo)          # a chain a + b keys with the options configured on b
    K.rule_K_CHAIN_COPIES(ctx, ctx.repo)   # ... as they were when the chain was built (the links are copies)
    K.rule_K_FORWARD(ctx, ctx.repo)
    K.rule_K_HASH(ctx, ctx.repo)
    K.rule_K_DISPATCH(ctx, ctx.repo)
    K.rule_K_FAST(ctx, ctx.repo)
    K.rule_K_OWN(ctx, ctx.repo)
    G.rule_SIG(ctx, ctx.repo)              # a positional value is never filed under a keyword-only / variadic name (two different calls would share a key)
    G.rule_K_CAPTURE(ctx, ctx.repo)        # no function on the way captures a user keyword by name
    G.rule_G_SELFDROP(ctx, ctx.repo)       # an argument is cut out of (or masked in) the key only when the specification selects it
    G.rule_G(ctx, ctx.repo, want=('G-VAL', 'G-PREC'))
    RR.rule_R_GUARD_STR_KW(ctx, ctx.repo)  # rounding touches floats only: every other value (bool vs int under typed=True) reaches the keymap as it was passed
    RR.rule_R_PURE(ctx, ctx.repo)          # the package never changes a keymap (its typed / flat / sentinel settings) that the caller handed in
    RR.rule_W_KEY_keygen(ctx, ctx.repo)    # klepto.keygen: key() answers for the arguments provided last, whatever accessor ran in between
    K.rule_K_RED(ctx, ctx.repo)            # a copied / pickled keymap keeps its whole chain and options (a + b copies its operands)
    K.rule_K_ENCFALLBACK(ctx, ctx.repo)    # a named serializer / encoding / algorithm is used or the call has no key: never a repr() stand-in
    ctx.assume('injectivity of repr/str/pickle of the argument values and fast-type unwrapping collisions are not decided')
    return ('Every positional argument and every (name, value) keyword item reaches the key whole on every path of keymap.encode/encrypt; '
            'typed keys append the types of all positional and all keyword values; a configured sentinel separates every two adjacent '
            'segments of a flat key; named-algorithm hash is the full digest of the full repr, string/pickle encode the whole object.')


def check_C17(ctx, tier):
    K.rule_K_PROC(ctx, ctx.repo)
    K.rule_K_ORDER(ctx, ctx.repo)
    K.rule_K_REPR(ctx, ctx.repo)
    K.rule_K_HASH(ctx, ctx.repo)
    K.rule_K_OWN(ctx, ctx.repo)     # a key must not depend on what this process keyed before (module-level state on the key path)
    K.rule_K_BYREF(ctx, ctx.repo)   # dill pickles by reference
    K.rule_K_RED(ctx, ctx.repo)     # a keymap that travelled to the other session inside a pickled decorator keys as it did here
    K.rule_K_ENCFALLBACK(ctx, ctx.repo)   # no fallback from a named algorithm to the per-process builtin hash / repr
    K.rule_K_DISPATCH(ctx, ctx.repo)      # the encoder a call goes through is chosen at the call, not remembered from an earlier one (a bound method cached on the instance survives copy / chaining)
    K.rule_K_CHAIN_COPIES(ctx, ctx.repo)  # a chain is not an alias of keymaps the program goes on configuring
    S.rule_S_LOAD_DUMP(ctx, ctx.repo)   # the key is handed to the archive as the one object it is (a raw key is a tuple: never unpacked into several keys)
    RR.rule_R_STATELESS(ctx, ctx.repo)  # rounding (the first step of every key) keeps no state between calls
    RR.rule_R_GUARD_STR_KW(ctx, ctx.repo)   # ... and rounds floats only (round(Decimal, n) follows the thread's decimal context)
    A.rule_A_FNAME(ctx, ctx.repo, A.Cache(ctx.repo, unroll=1))   # the entry a key is archived under has the same name in every session
    ctx.assume("process independence of the arguments' own repr/pickle is assumed by the property")
    return ('No process-dependent value (builtin hash, id, random, time, set iteration) reaches a key in the raw/string/pickle/named-hash '
            'configurations; keyword order is removed by the sorter; marker objects embedded in keys have constant reprs.')


def check_C11(ctx, tier):
    G.rule_SIG(ctx, ctx.repo)
    G.rule_G_ZERO(ctx, ctx.repo)
    G.rule_G_PROBE(ctx, ctx.repo)
    G.rule_G_STALE(ctx, ctx.repo)
    G.rule_G_FORMS(ctx, ctx.repo)
    G.rule_G_WRAPBARE(ctx, ctx.repo)               # a set / frozenset / dict-keys specification is a collection of entries, not one entry
    G.rule_G_FIELDS(ctx, ctx.repo)
    G.rule_G(ctx, ctx.repo, want=('G-VAL',))       # everything that is not ignored still reaches the key
    G.rule_G_SELFDROP(ctx, ctx.repo)               # ... also the first positional argument, unless its own parameter is ignored
    G.rule_G_SELFTRUTH(ctx, ctx.repo)              # ... and the instance is recognised whatever its truth value
    G.rule_G_FUNCIDENT(ctx, ctx.repo)              # ... and whichever function object (the original, its unpickled copy) is being keyed
    G.rule_V_TRYRESET(ctx, ctx.repo)               # names and values stay aligned: an object that merely has an `.args` attribute is not taken for a partial
    G.rule_V_PARTIALSHAPE(ctx, ctx.repo)
    G.rule_V_CALLFALLBACK(ctx, ctx.repo)           # ... and a partial is never inspected through partial.__call__ (self, *args, **kwargs)
    G.rule_V_CODEOBJ(ctx, ctx.repo)                # ... and the names are the ones inspect reports (a __signature__ is honoured), not those of the code object
    S.rule_S_IDENT(ctx, ctx.repo, parts=('optional',))   # ... and an argument a partial fixes to None is not taken for an open position (an optional marker that is None here)
    K.rule_K_OWN(ctx, ctx.repo)                    # the decomposition of the ignore spec does not depend on earlier calls (module-level state)
    K.rule_K_REPR(ctx, ctx.repo)                   # the substitute NULL has a constant repr
    for d, paths in _wrappers(ctx, tier):
        W.setup_abbrev(d)
        W.rule_W_KEY(ctx, d, paths)                # every key computation hands state.ignore to _keygen
        W.rule_W_RED(ctx, d)                       # a copied / pickled decorator keeps the ignore spec as given
        W.rule_W_STATE(ctx, d, keys=('ignore',), allow_default=True)
        W.rule_W_NEW(ctx, d, parts=('forward',), only=('ignore',))   # lru_cache(maxsize=None, ignore=...) hands the spec on to inf_cache
    RR.rule_W_KEY_keygen(ctx, ctx.repo)
    RR.rule_R_DEEP(ctx, ctx.repo)                  # an argument is rounded the same whatever other (ignored) arguments accompany it
    ctx.assume("which positions/names a given spec selects for a given signature (the index/name arithmetic of _keygen) is value-level and not decided")
    return ('Necessary conditions for "ignored arguments never influence the key, all others still do": every advertised form of the ignore '
            'specification (index, name, \'*\', \'**\') has a handler that reaches the positional resp. keyword part of the key and substitutes a '
            'constant marker; the key depends on every signature field needed to tell parameters from extra keywords; every argument value still '
            'reaches the key; the decomposition does not depend on earlier calls; the decorators hand the configured spec to _keygen at every key '
            'computation and keep it through pickling.')


def check_C19(ctx, tier):
    G.rule_SIG(ctx, ctx.repo)
    G.rule_V(ctx, ctx.repo)
    G.rule_G_STALE(ctx, ctx.repo)
    G.rule_V_TRYRESET(ctx, ctx.repo)
    G.rule_V_PARTIALSHAPE(ctx, ctx.repo)
    G.rule_V_CALLFALLBACK(ctx, ctx.repo)           # ... and a partial is never inspected through partial.__call__ (self, *args, **kwargs)
    G.rule_V_CODEOBJ(ctx, ctx.repo)                # ... and the names are the ones inspect reports (a __signature__ is honoured), not those of the code object
    S.rule_S_IDENT(ctx, ctx.repo, parts=('optional',))   # a fixed argument is told from an open position without mistaking None for a marker
    G.rule_V_DOUBLESTAR(ctx, ctx.repo)             # a keyword the caller repeats overrides the partial's: never forwarded through two ** expansions
    G.rule_V_NAMESHAPE(ctx, ctx.repo)              # keyword names are compared, never judged by their spelling
    G.rule_V_NONE_GIVEN(ctx, ctx.repo)             # an argument bound to None is given
    K.rule_K_OWN(ctx, ctx.repo)                    # signature() is free of cross-call state (a memoised argspec mutated in place changes later verdicts)
    ctx.assume("agreement of validate's individual binding checks with the interpreter (counting, partial bookkeeping) is value-level and not decided")
    return ('Necessary conditions for "validate/isvalid agree with Python\'s binding without calling the function": every rejection is a TypeError; '
            'validate and signature never call the inspected function and isvalid only does so in the fallback guarded by the caught error; isvalid '
            'is True exactly when validate returned normally (False when it raised); the verdict depends on every field of the signature that the '
            'interpreter\'s binder consults, on a partial\'s fixed arguments and on the call\'s arguments; inspection results are not shared mutable state.')


def check_C12(ctx, tier):
    G.rule_K_CAPTURE(ctx, ctx.repo)                # a rounder takes nothing but (*args, **kwds): a named parameter collides with a user keyword of that name
    ws = _wrappers(ctx, tier)
    RR.rule_W_RND(ctx, [d for d, _ in ws])
    for d, paths in ws:
        W.setup_abbrev(d)
        W.rule_W_KEY(ctx, d, paths)
        W.rule_W_ARGS(ctx, d, paths)
        W.rule_W_NEW(ctx, d, parts=('forward',), only=('tol', 'deep'))     # maxsize=0/None dispatch keeps the rounding settings
        W.rule_W_SAFE(ctx, d, paths)               # "rounding never makes a valid call fail": in klepto.safe a rounder that raises degrades to a plain evaluation
    RR.rule_W_KEY_keygen(ctx, ctx.repo)
    RR.rule_R_GUARD_STR_KW(ctx, ctx.repo)
    RR.rule_R_NONE(ctx, ctx.repo)
    RR.rule_R_PURE(ctx, ctx.repo)
    RR.rule_R_STATELESS(ctx, ctx.repo)
    RR.rule_R_NOORDER(ctx, ctx.repo)
    RR.rule_R_DEEP(ctx, ctx.repo)
    RR.rule_R_ITER(ctx, ctx.repo)
    ctx.assume('numeric results of round(), and whether type(x)(items) can rebuild arbitrary iterables (range, generators), are not decided')
    return ('state.roundargs is rounded(tol) of the identity with rounded chosen by deep; the key path goes through it and the function '
            'receives the originals (W-KEY, W-ARGS, also in klepto.keygen); every round() is dominated by isinstance(x, float); tol=None '
            'bypasses rounding; no container is rebuilt through type(x)(...) on a path that admits str; no data dict is **-expanded.')


def check_C08(ctx, tier):
    S.rule_S_PLAIN_EFF(ctx, ctx.repo)
    S.rule_S_LOAD_DUMP(ctx, ctx.repo)
    S.rule_S_SYNC(ctx, ctx.repo)
    S.rule_S_NOSWALLOW(ctx, ctx.repo)
    S.rule_S_TOGGLE(ctx, ctx.repo)
    S.rule_S_NULL(ctx, ctx.repo)
    ac8 = A.Cache(ctx.repo, unroll=1)
    A.rule_A_WRITEALL(ctx, ctx.repo, ac8)     # what dump hands to archive.update is written, item for item
    A.rule_A_COMMIT(ctx, ctx.repo, ac8)       # ... and committed: sync(clear=True) / dump leave the archive (as every other handle reads it) equal to the cache
    S.rule_S_IDENT(ctx, ctx.repo)             # the archiving switch does not depend on the identity of a per-process placeholder
    A.rule_A_NONE_ABSENT(ctx, ctx.repo)       # load / dump / sync never take a stored None for an absent key
    A.rule_A_CODEC_CONFIG(ctx, ctx.repo)      # what load() reads carries the keys and values that were stored (no guessing conversion on the way back)
    A.rule_A_CODEC(ctx, ctx.repo)             # ... and the reader accepts everything the writer emits (one unreadable value would make the whole archive read as empty)
    A.rule_A_GLOBROOT(ctx, ctx.repo)          # ... and lists everything that was dumped (the archive's own path is never read as a glob pattern)
    A.rule_A_EFF(ctx, ctx.repo, ac8)          # sync(clear=True) really empties the archive before the cache is written back (clear removes what is listed)
    A.rule_A_FACTORY_OPEN(ctx, ctx.repo, ac8, open_only=True, factories=False)   # opening another handle on the archive does not undo or disturb a dump (no removal in the constructors)
    A.rule_A_SCHEMA(ctx, ctx.repo)            # after dump() a key reads back the value written last (sqlite row order, untyped columns)
    A.rule_A_READFAIL(ctx, ctx.repo, ac8)     # dump / load / sync on an archive whose file is empty or unreadable treat it as empty
    ctx.assume('archive.update / __asdict__ / __getitem__ of each backend behave as dict operations (C03)')
    return ('class cache overrides no dict primitive; per-method archive effects equal the table (load reads, dump updates, sync '
            'clears?/updates/reads, toggles rebind, others none); load/dump transfer exactly {a: source[a]} per argument or the whole '
            'mapping, load swallows KeyError per key, dump writes only resident keys; sync orders clear?->dump->load?; the (archive, parked) '
            'typestate reachable set and all (state, operation) transitions equal the toggle algebra; the null archive discards writes.')


ATECH = 'static analysis: interprocedural storage-effect enumeration over the archive classes (ast path enumeration, both arms of every conditional class), override exhaustiveness, abstract strings for staging names, must-pass-through commit/publish ordering'


def check_C03(ctx, tier):
    cache = A.Cache(ctx.repo, unroll=1 if tier == 'quick' else 2)
    A.rule_A_OVR_BASE(ctx, ctx.repo, cache)
    A.rule_A_EFF(ctx, ctx.repo, cache)
    A.rule_A_KEYERR(ctx, ctx.repo, cache)
    A.rule_A_KEYERR_FOUND(ctx, ctx.repo, cache)
    A.rule_A_NONE_ABSENT(ctx, ctx.repo)           # presence is never decided from the value a default-less get() returned
    A.rule_A_SQLFAIL(ctx, ctx.repo, cache)
    A.rule_A_POPKEYS(ctx, ctx.repo)               # the multi-key mutator fails before it removes anything
    A.rule_A_COMMIT(ctx, ctx.repo, cache)         # every SQL write is committed (another handle of the same archive is the same dict)
    A.rule_A_GLOBAL(ctx, ctx.repo)                # archives of different names share nothing
    A.rule_A_GLOBROOT(ctx, ctx.repo)              # the archive's own path is never read as a glob pattern
    A.rule_A_SCHEMA(ctx, ctx.repo)                # sqlite columns are typeless (keys of different types stay different rows)
    A.rule_A_GETKEY(ctx, ctx.repo)                # the lister recovers exactly the key that was stored
    A.rule_A_COPYTREE(ctx, ctx.repo)              # copy(name) does not merge into an existing archive
    A.rule_A_COPY_NODESTROY(ctx, ctx.repo, cache) # ... and never removes one
    A.rule_A_UPDATE_ARG(ctx, ctx.repo)            # update() takes any iterable of pairs, as dict.update does
    A.rule_A_LOCATION_VERBATIM(ctx, ctx.repo)     # archives at different locations are different archives (a location is not parsed as a URL)
    A.rule_A_PUBPARENTS(ctx, ctx.repo, cache)     # a key containing the path separator is stored (nested) like any other
    A.rule_A_READFAIL(ctx, ctx.repo, cache)       # a store that cannot be decoded reads as empty / missing
    A.rule_A_WRITEALL(ctx, ctx.repo, cache)       # every assignment reaches the store
    A.rule_A_SIBLINGS(ctx, ctx.repo)              # get / pop / __asdict__ decode what __getitem__ decodes; update encodes what __setitem__ encodes
    A.rule_A_CODEC_CONFIG(ctx, ctx.repo)         # ... decided by the archive's settings, not by what the value looks like
    A.rule_A_SETTINGS_EXPLICIT(ctx, ctx.repo)     # ... which are the ones the caller passed, not ones guessed from the archive's name
    A.rule_A_ZSTREAM(ctx, ctx.repo)               # ... and compressed entries are decompressed whole
    A.rule_A_EQ(ctx, ctx.repo, cache)
    A.rule_A_NOCACHE(ctx, ctx.repo, cache)        # every answer comes from the store: no handle-local table that a later delete / store leaves stale
    A.rule_A_FNAME(ctx, ctx.repo, cache, aliasing=True)     # distinct keys keep distinct entry names (no new information loss in the key -> name map)
    A.rule_A_RED_COPY(ctx, ctx.repo, cache, parts=('copy',))     # copy(name) yields an archive opened with the same settings
    A.rule_A_PUBFAIL(ctx, ctx.repo, cache)
    A.rule_A_VIS_STAGE(ctx, ctx.repo, cache)
    S.rule_S_PLAIN_EFF(ctx, ctx.repo)
    S.rule_S_NULL(ctx, ctx.repo)
    ctx.tables['primitives'] = A.PRIMITIVES
    ctx.assume('returned values and defaults, key aliasing through the key->file-name map, encoder round trips and copy independence are value-level and not decided')
    return ('Every archive class whose contents live outside the base dict overrides every dict operation and never touches base storage; '
            'per-method storage effects match the dict specification (readers never write and always reach a read, writers/removers/clear reach '
            'their effect); getitem/delitem/pop/popitem can raise KeyError; a failed store cannot leave a visible staging entry.')


def check_C04(ctx, tier):
    cache = A.Cache(ctx.repo, unroll=1 if tier == 'quick' else 2)
    A.rule_A_NOCACHE(ctx, ctx.repo, cache)
    A.rule_A_EFF(ctx, ctx.repo, cache, must_read_only=True)
    A.rule_A_COMMIT(ctx, ctx.repo, cache)
    A.rule_A_RED_COPY(ctx, ctx.repo, cache)
    A.rule_A_FACTORY_OPEN(ctx, ctx.repo, cache, do_open=False)
    A.rule_A_VIS_STAGE(ctx, ctx.repo, cache)       # a fresh handle sees no key that was never stored
    A.rule_A_ABS(ctx, ctx.repo, cache)
    A.rule_A_FNAME(ctx, ctx.repo, cache)           # a later session finds an entry under the same name
    A.rule_A_LAZY(ctx, ctx.repo)                   # ... every one of them (listings are materialised: items() over a shared cursor would stop after the first)
    A.rule_A_READFAIL(ctx, ctx.repo, cache)        # ... or learns that it is not there; never an error of the decoding step
    A.rule_A_CODEC(ctx, ctx.repo)                  # ... and decodes it with the module that encoded it
    A.rule_A_SIBLINGS(ctx, ctx.repo)               # ... in every reader of the dict interface
    A.rule_A_CODEC_CONFIG(ctx, ctx.repo)         # ... decided by the archive's settings, not by what the value looks like
    A.rule_A_SETTINGS_EXPLICIT(ctx, ctx.repo)     # ... which are the ones the caller passed, not ones guessed from the archive's name
    A.rule_A_ZSTREAM(ctx, ctx.repo)               # ... and compressed entries are decompressed whole
    A.rule_A_GETKEY(ctx, ctx.repo)                 # ... and lists it under the key it was stored with
    A.rule_A_LOCATION_VERBATIM(ctx, ctx.repo)      # ... at the location that was named, and no other
    W.rule_W_SIBLING_INIT(ctx, ctx.repo)           # what a decorated function writes goes to the archive it was given, in klepto.safe as in klepto
    A.rule_A_SCHEMA(ctx, ctx.repo)                 # ... with the value written last (row order of the sqlite table)
    A.rule_A_GLOBAL(ctx, ctx.repo)                 # ... from the store, not from a process-wide table of objects read earlier (klepto/_pickle.py included)
    A.rule_A_PUBFAIL(ctx, ctx.repo, cache)         # ... and a store that failed (encode error, lost publish race) left the stored contents alone
    ctx.tables['primitives'] = A.PRIMITIVES
    ctx.assume('equality of decoded values, original key types under json and stale .pyc reuse of the import-based reader are not decided')
    return ('No persistent archive method outside __init__/__drop__ assigns instance state (no handle-local content cache); every reader '
            'reaches a storage read on every normal path; every SQL DML is followed by commit on every path; __reduce__ / copy / the '
            'factories rebuild the same class on the same location with the same settings.')


def check_C13(ctx, tier):
    cache = A.Cache(ctx.repo, unroll=1 if tier == 'quick' else 2)
    A.rule_A_INITRAISE(ctx, ctx.repo)
    A.rule_A_NAMEDHANDLE(ctx, ctx.repo)
    A.rule_A_PUB(ctx, ctx.repo, cache)
    A.rule_A_UNPUB(ctx, ctx.repo, cache)
    A.rule_A_VIS_STAGE(ctx, ctx.repo, cache)
    A.rule_A_FACTORY_OPEN(ctx, ctx.repo, cache, open_only=True)
    A.rule_A_COMMIT(ctx, ctx.repo, cache)
    A.rule_A_TXN(ctx, ctx.repo, cache)
    ctx.tables['primitives'] = A.PRIMITIVES
    ctx.assume('torn writes inside a single write(), fsync and power loss are not decided; crash points themselves are not enumerated - only '
               'structural necessary conditions of the temp-then-move protocols are')
    return ('Necessary conditions of crash atomicity: the live object is never unlinked before the staging copy is renamed over it; entry '
            'removal is not an in-place recursive delete; the staging name cannot match the lister pattern; visible staging objects are '
            'published or removed on every exit; opening an existing archive performs no write; every SQL DML is committed on every path.')


def check_C14(ctx, tier):
    cache = A.Cache(ctx.repo, unroll=1 if tier == 'quick' else 2)
    A.rule_A_INITRAISE(ctx, ctx.repo)
    A.rule_A_LAZY(ctx, ctx.repo)
    A.rule_A_PUB(ctx, ctx.repo, cache)
    A.rule_A_VIS_STAGE(ctx, ctx.repo, cache)
    A.rule_A_FACTORY_OPEN(ctx, ctx.repo, cache, open_only=True)
    A.rule_A_COMMIT(ctx, ctx.repo, cache)
    A.rule_A_TXN(ctx, ctx.repo, cache)
    A.rule_A_LISTREAD(ctx, ctx.repo, cache)
    A.rule_A_READFAIL(ctx, ctx.repo, cache)       # a reader that meets an entry in the middle of being replaced gets "absent", never a failure
    A.rule_A_UNPUB(ctx, ctx.repo, cache)
    A.rule_A_SCHEMA(ctx, ctx.repo)                # a reader finishes its SELECT (no fetchone() on a shared cursor: the open statement keeps a SHARED lock other writers time out on)
    A.rule_A_FNAME(ctx, ctx.repo, cache)          # every process maps a key to the same entry name (no per-process hash)
    ctx.tables['primitives'] = A.PRIMITIVES
    ctx.assume('the interleavings themselves are not enumerated; only what a concurrent process could observe through the structure of the protocols')
    return ('Necessary conditions for concurrent processes: readers see a complete old or new object (publish by rename without prior unlink), '
            'no phantom keys (staging invisible to the lister), an opener cannot undo a completed write (no write on open), SQL writes are '
            'committed, bulk reads tolerate a key disappearing between listing and reading.')


def check_C20(ctx, tier):
    cache = A.Cache(ctx.repo, unroll=1 if tier == 'quick' else 2)
    for d, paths in _wrappers(ctx, tier):
        W.setup_abbrev(d)
        W.rule_W_RED(ctx, d)
        W.rule_W_LOCAL(ctx, d)
        W.rule_W_CELLS(ctx, d)
    W.rule_W_BKPICKLE(ctx, ctx.repo)
    RR.rule_R_NONE(ctx, ctx.repo)
    A.rule_A_RED_COPY(ctx, ctx.repo, cache)
    A.rule_A_RED_MEM(ctx, ctx.repo)
    A.rule_A_RED_DERIVED(ctx, ctx.repo)  # nothing computed from the settings lives outside __state__ (the constructor re-runs with defaults on unpickling)
    A.rule_A_ABS(ctx, ctx.repo, cache)   # the clone addresses the same store whatever its working directory
    A.rule_A_FACTORY_OPEN(ctx, ctx.repo, cache, open_only=True, factories=False)  # unpickling re-runs the constructor on the shared store: it must not write it
    A.rule_A_INITRAISE(ctx, ctx.repo)    # ... nor fail on what it finds under the base name in the restoring process's working directory
    A.rule_A_EFF(ctx, ctx.repo, cache, must_read_only=True)     # clone and original share storage only: every read goes to the store, not to a process-wide table
    S.rule_S_RED(ctx, ctx.repo)
    S.rule_S_IDENT(ctx, ctx.repo)     # no behaviour hangs on the identity of a module-level instance that pickling copies
    K.rule_K_REPR(ctx, ctx.repo)      # K-SINGLETON: marker objects inside keys survive the round trip as themselves
    K.rule_K_STATE(ctx, ctx.repo)     # a keymap keeps its options through copy / pickle
    K.rule_K_RED(ctx, ctx.repo)       # ... all of them: a pickling hook of a keymap class names every attribute the constructor sets
    K.rule_K_DISPATCH(ctx, ctx.repo)  # ... and keeps no per-instance memo of encodings (dill re-creates an lru_cache wrapper empty: the clone lacks the original's history)
    G.rule_G_FUNCIDENT(ctx, ctx.repo) # the restored function (a new object) is keyed exactly like the original: nothing on the key path compares the callable by identity
    S.rule_S_LOAD_DUMP(ctx, ctx.repo) # what the original dumps to the shared archive later is found by the copy: load asks the archive for every named key
    ctx.require_instances('W-RED', 12, 'decorator __reduce__ methods')
    ctx.assume("dill's by-value closure pickling and lock-step equality of the clone are not decided")
    return ('Each decorator\'s __reduce__ rebuilds the class from __state__ with every __init__ parameter in its own position (or the '
            'constant the class pins it to); the rounding decorators and the archives likewise; every mutable object a wrapper touches '
            'is a closure cell or reachable from __state__ (no module-level mutable state), so pickling the closure by value carries all of it.')


CHECKS = {
    'C01': check_C01, 'C02': check_C02, 'C03': check_C03, 'C04': check_C04, 'C13': check_C13, 'C14': check_C14, 'C05': check_C05, 'C06': check_C06, 'C07': check_C07,
    'C08': check_C08, 'C09': check_C09, 'C10': check_C10, 'C11': check_C11, 'C19': check_C19, 'C17': check_C17, 'C12': check_C12, 'C15': check_C15, 'C16': check_C16, 'C18': check_C18, 'C20': check_C20,
}


def liveness(ctx, prop, repo_root):
    """thorough tier: every rule of this property must still fire on a one-edit violating variant of the
    current tree (positive fixtures; a rule that matches nothing passes vacuously forever).  Variants are scratch
    copies under the system temp dir, removed as each finishes."""
    import os
    import sys
    from concurrent.futures import ProcessPoolExecutor
    st = os.path.join(os.path.dirname(os.path.dirname(os.path.abspath(__file__))), 'selftest')
    if st not in sys.path:
        sys.path.insert(0, st)
    os.environ['KV_REPO'] = repo_root or ctx.repo.root
    import importlib
    run = importlib.import_module('run')
    run.REPO = repo_root or ctx.repo.root
    from mutants import MUTANTS
    ms = [dict(m, props=[prop]) for m in MUTANTS if prop in m['props']]
    saved = dict((k, os.environ.get(k)) for k in ('KV_OUTROOT', 'KV_REPO'))
    try:
        with ProcessPoolExecutor(min(16, max(1, len(ms)))) as ex:
            results = list(ex.map(run.job_kill, ms))
    finally:
        for k, v in saved.items():
            if v is None:
                os.environ.pop(k, None)
            else:
                os.environ[k] = v
    missed = []
    for (mid, ok, msg), m in zip(results, ms):
        if ok:
            ctx.ob('LIVENESS', '%s -> %s' % (mid, m.get('rule') or 'any rule'))
        elif 'anchor' in msg and 'not found' in msg:
            ctx.note('liveness variant %s not applicable to this tree (its edit site changed)' % mid)
        else:
            ctx.ob('LIVENESS', mid, False)
            missed.append('%s (%s)' % (mid, msg))
    # the independently seeded changes that this check reported when they were imported must still be reported
    import json
    seeded = importlib.import_module('seeded')
    detp = os.path.join(os.path.dirname(st), 'seeded', 'detected.json')
    sres = []
    if os.path.exists(detp):
        det = json.load(open(detp))
        jobs = [(i, prop, repo_root or ctx.repo.root) for i, d in sorted(det.items()) if prop in d]
        if jobs:
            with ProcessPoolExecutor(min(16, len(jobs))) as ex:
                sres = list(ex.map(seeded.job_seed, jobs))
    for i, ok, msg in sres:
        if ok is None:
            ctx.note('seeded change %s not applicable to this tree (%s)' % (i, msg))
        elif ok:
            ctx.ob('LIVENESS', 'seeded %s -> %s' % (i, msg))
        else:
            ctx.ob('LIVENESS', 'seeded ' + i, False)
            missed.append('seeded %s (%s)' % (i, msg))
    if missed:
        # the fixtures are edits of the tree this machinery was validated on: on that tree an undetected fixture means the check lost its teeth (fail closed);
        # on any other tree (a refactoring may move what a fixture edits) it is reported as a note - the verdict on the tree itself stands
        if _tree_digest(repo_root or ctx.repo.root) == _recorded_digest():
            raise AnalysisError('liveness: violating variants not detected by the %s check: %s' % (prop, '; '.join(missed)))
        for x in missed:
            ctx.note('liveness fixture not detected on this (modified) tree: %s' % x)
    ctx.sample({'liveness variants detected': [r[0] for r in results if r[1]][:10] + ['seeded ' + r[0] for r in sres if r[1]][:10]})


def _tree_digest(root):
    import hashlib
    import os
    h = hashlib.sha256()
    pkg = os.path.join(root, 'klepto')
    for fn in sorted(os.listdir(pkg)):
        if fn.endswith('.py'):
            h.update(fn.encode())
            h.update(open(os.path.join(pkg, fn), 'rb').read())
    return h.hexdigest()


def _recorded_digest():
    import os
    p = os.path.join(os.path.dirname(os.path.dirname(os.path.abspath(__file__))), 'selftest', 'repo_digest.txt')
    try:
        return open(p).read().strip()
    except OSError:
        return None


def _is_known(prop, f):
    from . import report as _report
    from .report import norm_detail
    known = _report.load_known()
    keys = set((k['property'], k['rule'], k['construct'], norm_detail(k['detail'])) for k in known.get('findings', []))
    return f.key(prop) in keys


def run(prop, tier='quick', repo_root=None):
    repo = Repo(repo_root)
    ctx = Ctx(prop, tier, repo)
    fn = CHECKS[prop]
    try:
        rule_text = fn(ctx, tier)
    except AnalysisError as e:
        # a definite violation found before the analyser lost its footing is reported as such (findings listed as known are not violations)
        from . import report as _report
        real = [f for f in ctx.findings if not _is_known(prop, f)]
        if not real:
            raise
        ctx.note('analysis incomplete: %s' % e)
        print('NOTE analysis incomplete after the violation(s) below: %s' % e)
        rule_text = 'Analysis stopped early: %s.' % e
    if tier == 'thorough' and not __import__('os').environ.get('KV_NO_LIVENESS'):
        liveness(ctx, prop, repo_root)
    return finish(ctx, rule_text,
                  'Static analysis of /repo source (ast only, nothing imported or executed). ' + rule_text +
                  ' evaluations = enumerated paths + rule obligations; distinct_nontrivial = distinct event paths with at least one role '
                  'event beyond key generation/branching plus distinct rule instances.',
                  ATECH if prop in ('C03', 'C04', 'C13', 'C14') else TECH)
