"""Rounding rules (DESIGN section 4, C12): W-RND R-GUARD R-NONE R-STR R-KW, and the key normal form of klepto.keygen."""
import ast

from .src import AnalysisError, unparse
from .paths import (Engine, Model, R, C, NONE, is_const, render, render_path, subterms, contains_term, RETURN, RAISE, St)
from .wmodel import SELF, libname
from .rules_wrappers import PlainModel

ROUNDERS = ('deep_round', 'simple_round', 'shallow_round')
FACTORIES = ('deep_round_factory', 'simple_round_factory', 'shallow_round_factory')
STRLIKE = ('str', 'unicode', 'bytes', 'basestring')


def mro(module, ci):
    """the class and its base classes defined in the same module, most derived first"""
    out, todo = [], [ci]
    while todo:
        c = todo.pop(0)
        if c is None or c in out:
            continue
        out.append(c)
        for b in c.base_names():
            todo.extend(module.classes_by_name.get(b, []))
    return out


def resolve_method(module, ci, name):
    for c in mro(module, ci):
        if name in c.methods:
            return c.methods[name]
    return None


def class_attr(module, ci, name):
    for c in mro(module, ci):
        if name in c.attrs:
            return c.attrs[name]
    return None


class RModel(PlainModel):
    track_extend = True

    def __init__(self, module, fparam=None, cls=None):
        PlainModel.__init__(self, module)
        self.fparam = fparam
        self.cls = cls

    def attr_load(self, obj, attr, st, node):
        # a class attribute naming a module function: `_factory = staticmethod(deep_round_factory)` read through self
        if obj == SELF and self.cls is not None:
            v = class_attr(self.module, self.cls, attr)
            if isinstance(v, ast.Call) and isinstance(v.func, ast.Name) and v.func.id in ('staticmethod', 'classmethod') and len(v.args) == 1:
                v = v.args[0]
            if isinstance(v, ast.Name) and v.id in self.module.functions:
                return [R(st, ('lib', '%s.%s' % (self.module.rel, v.id)))]
        return None

    def global_name(self, name, st):
        v = PlainModel.global_name(self, name, st)
        if v is not None:
            return v
        node = self.module.consts.get(name)
        if isinstance(node, ast.Name):
            return self.engine.lookup(node.id, St())   # alias like `unicode = str`
        if isinstance(node, ast.Attribute) and node.attr == '__instancecheck__' and isinstance(node.value, ast.Name):
            return ('instancecheck', self.engine.lookup(node.value.id, St()))    # `_isfloat = float.__instancecheck__`: _isfloat(x) is isinstance(x, float)
        if isinstance(node, ast.Tuple) and all(isinstance(e, (ast.Name, ast.Attribute, ast.Call)) for e in node.elts):
            # a module-level tuple of types (hoisted out of an isinstance test): evaluate its elements where they stand
            vals = []
            for e in node.elts:
                rs = self.engine.ev(e, St())
                if len(rs) != 1 or rs[0].exc is not None:
                    return None
                vals.append(rs[0].val)
            return ('tuple', tuple(vals))
        return None

    def call(self, f, args, kws, st, node):
        line = getattr(node, 'lineno', 0)
        for k in kws:
            if k[0] == 'dstar':
                st.emit('DSTAR', (f, k[1]), line)
        # getattr(x, '<name>', <constant>): an optional attribute that only an opt-in feature sets - judged at its default
        if f == ('lib', 'getattr') and len(args) == 3 and not kws and is_const(args[1]) and (is_const(args[2]) or args[2] in (('tuple', ()), ('list', ()), ('dict', ()))):
            return [R(st, args[2])]
        if f[0] == 'instancecheck' and len(args) == 1 and not kws and self.engine is not None:
            return self.engine.call(('lib', 'isinstance'), (args[0], f[1]), (), st, node)
        if f[0] == 'attr' and f[2] == '__instancecheck__' and f[1][0] == 'lib' and len(args) == 1 and not kws and self.engine is not None:
            return self.engine.call(('lib', 'isinstance'), (args[0], f[1]), (), st, node)      # float.__instancecheck__(x)
        if f == ('lib', 'round'):
            st.emit('ROUND', tuple(args), line)
            return [R(st, ('call', f, args, kws))]
        if f[0] == 'call' and f[1] == ('lib', 'type') and len(f[2]) == 1:
            st.emit('REBUILD', (f[2][0],) + tuple(args), line)
            return [R(st, ('call', f, args, kws))]
        if self.fparam is not None and f == self.fparam:
            st.emit('CALLF', tuple(args) + tuple(kws), line, extra={'args': args, 'kws': kws})
            return [R(st, ('ev', 'callf', line))]
        if f == ('attr', ('attr', SELF, '__round__'), '__call__') or f == ('attr', SELF, '__round__'):
            v = ('call', f, args, kws)
            st.emit('ROUNDCALL', tuple(args) + tuple(kws), line, val=v, extra={'args': args, 'kws': kws})
            return [R(st, v)]
        if f[0] == 'lib' and libname(f) in ('_keygen', 'signature', 'validate', 'isvalid', 'keygen') + FACTORIES + ROUNDERS:
            return None       # the key-generation entry points stay symbolic (their normal form is compared, not their body)
        return PlainModel.call(self, f, args, kws, st, node)      # other helper functions of the module are inlined


def isinstance_fact(o, x):
    """[(classnames tuple, bool)] facts isinstance(x, T) established on the path"""
    out = []
    for t, b in o.st.facts.get('truth', {}).items():
        if t[0] == 'call' and t[1] == ('lib', 'isinstance') and len(t[2]) == 2 and t[2][0] == x:
            out.append((class_names(t[2][1]), b))
    return out


def class_names(t):
    if t[0] == 'lib':
        return (t[1].split('.')[-1],)
    if t[0] == 'tuple':
        out = ()
        for e in t[1]:
            out += class_names(e)
        return out
    if t[0] == 'call' and t[1] == ('lib', 'type'):
        return ('type(%s)' % render(t[2][0]),)
    return ('?',)


def _optional_defaults(fn, skip=1, mod=None):
    """{name: constant} for the parameters after the first `skip` ones that have a constant default (or, given the module, a module-level
    `NAME = object()` "not given" marker as default: an alias / opt-in keyword no existing caller passes)"""
    a = fn.args
    pos = a.posonlyargs + a.args
    out = {}
    if mod is not None:
        for arg_, d in list(zip(pos[len(pos) - len(a.defaults):], a.defaults)) + [(x, dv) for x, dv in zip(a.kwonlyargs, a.kw_defaults) if dv is not None]:
            if isinstance(d, ast.Name) and (arg_ in a.kwonlyargs or pos.index(arg_) >= skip):
                cv = mod.consts.get(d.id)
                if isinstance(cv, ast.Call) and isinstance(cv.func, ast.Name) and cv.func.id == 'object' and not cv.args:
                    out[arg_.arg] = ('global', d.id)
    for arg_, d in zip(pos[len(pos) - len(a.defaults):], a.defaults):
        if pos.index(arg_) >= skip and isinstance(d, ast.Constant):
            out[arg_.arg] = C(d.value)
    for arg_, d in zip(a.kwonlyargs, a.kw_defaults):
        if d is not None and isinstance(d, ast.Constant):
            out[arg_.arg] = C(d.value)
    return out


def factory_closures(repo):
    """[(factory FuncInfo, closure node, env, engine)] for each nested function of each rounding factory"""
    m = repo.mod('rounding')
    res = []
    for fname in FACTORIES:
        fi = m.functions.get(fname)
        if fi is None:
            raise AnalysisError('anchor vanished: klepto/rounding.py::%s' % fname)
        model = RModel(m)
        eng = Engine(model, unroll=1, comp_unroll=1)
        # an optional parameter added to a factory (an opt-in feature) is judged at its constant default: that is the rounder every existing caller gets
        outs = eng.run_function(fi.node, {}, params=_optional_defaults(fi.node, skip=1))
        rets = [o for o in outs if o.kind == RETURN]
        # functools.partial(<module-level function>, tol): the rounder is that function with its leading parameters bound (positional-only, or the
        # user's keywords could collide with them: K-CAPTURE)
        pv = rets[0].val if rets else None
        if pv is not None and pv[0] == 'call' and pv[1][0] == 'lib' and pv[1][1].split('.')[-1] == 'partial' and pv[2] and pv[2][0][0] == 'lib' \
                and all(r.val == pv for r in rets) and not (len(pv) > 3 and pv[3]):
            target = m.functions.get(pv[2][0][1].split('.')[-1])
            if target is not None:
                env = dict(rets[0].st.env)
                pnames = [a.arg for a in target.node.args.posonlyargs + target.node.args.args]
                for a, v in zip(pnames, pv[2][1:]):
                    env[a] = v
                res.append((fi, target.node, env, eng, True))
                for nm, v in rets[0].st.env.items():
                    if isinstance(v, tuple) and v and v[0] == 'closure':
                        res.append((fi, eng._closures[v[2]][0], rets[0].st.env, eng, False))
                continue
        if not rets or any(r.val[0] != 'closure' or r.val[:2] != rets[0].val[:2] for r in rets):
            raise AnalysisError('%s does not return a single nested function' % fi.qual)
        env = rets[0].st.env
        for nm, v in env.items():
            if isinstance(v, tuple) and v and v[0] == 'closure':
                node = eng._closures[v[2]][0]
                res.append((fi, node, env, eng, v == rets[0].val))
    # module-level helpers the rounders call (a hoisted `_around(iterable, tol)`) are rounders' code too: each is analysed on its own, like a nested helper
    have = set(id(r[1]) for r in res)
    todo = list(res)
    while todo:
        fi, node, env, eng, _main = todo.pop()
        # calls that only an opt-in feature reaches (`if keeptype: x = _retype(j, x)` with keeptype=False by default) are not part of what existing callers run
        off = set()
        defaults_ = _optional_defaults(fi.node, skip=1)
        for y in ast.walk(node):
            if isinstance(y, ast.If) and isinstance(y.test, ast.Name) and y.test.id in defaults_ and not defaults_[y.test.id][1]:
                for st_ in y.body:
                    off |= set(id(z) for z in ast.walk(st_))
        for c in ast.walk(node):
            if id(c) in off:
                continue
            if isinstance(c, ast.Call) and isinstance(c.func, ast.Name) and c.func.id in m.functions and c.func.id not in FACTORIES:
                h = m.functions[c.func.id]
                if id(h.node) not in have:
                    have.add(id(h.node))
                    item = (fi, h.node, env, eng, False)
                    res.append(item)
                    todo.append(item)
    return m, res


def rule_R_GUARD_STR_KW(ctx, repo):
    m, closures = factory_closures(repo)
    n_round = 0
    n_custom = 0
    inlined_rebuilds = {}
    pending_rebuilds = []
    for fi, node, env, eng, is_main in closures:
        qual = '%s.%s' % (fi.qual, node.name)
        ctx.analysed(qual)
        st_frames = (node.name,)
        st = St(env=dict(env), frames=st_frames)
        eng._bind_params_symbolic(node, st, None)
        outs = [o for o in eng.exec_block(node.body, st)]
        ctx.add_paths(outs, qual, trivial_kinds=('BRANCH', 'CAUGHT'))
        own_kw = ('param', node.args.kwarg.arg) if node.args.kwarg else None
        own_va = ('param', node.args.vararg.arg) if node.args.vararg else None
        for o in outs:
            # R-ROUND (no bypass): the rounder hands its inputs back untouched only when there is nothing in them
            if is_main and o.kind == RETURN and own_va is not None and own_kw is not None and o.val == ('tuple', (own_va, own_kw)):
                truth = o.st.facts.get('truth', {})
                empty = truth.get(own_va) is False and truth.get(own_kw) is False
                if not empty:
                    # ... or when every element was looked at with the very test that guards the rounding and none was a float: the function walks
                    # *args and the values of **kwds in unconditional loops before this return, and everything this path knows about their elements is
                    # `isinstance(element, float)` being false (a lazy copy: nothing to round, nothing rebuilt)
                    def walks(fn, what):
                        for st_ in fn.body:
                            if isinstance(st_, ast.Return):
                                break
                            if isinstance(st_, ast.For):
                                it = st_.iter
                                if isinstance(it, ast.Call) and isinstance(it.func, ast.Name) and it.func.id in ('enumerate', 'iter', 'list', 'tuple') and it.args:
                                    it = it.args[0]
                                if what == 'args' and isinstance(it, ast.Name) and it.id == fn.args.vararg.arg:
                                    return True
                                if what == 'kwds' and isinstance(it, ast.Call) and isinstance(it.func, ast.Attribute) and it.func.attr in ('items', 'values') \
                                        and isinstance(it.func.value, ast.Name) and it.func.value.id == fn.args.kwarg.arg:
                                    return True
                        return False
                    facts_ok = True
                    for t, b in truth.items():
                        if not (contains_term(t, lambda x: x == own_va) or contains_term(t, lambda x: x == own_kw)):
                            continue
                        isf = t[0] == 'call' and t[1] == ('lib', 'isinstance') and len(t[2]) == 2 and class_names(t[2][1]) == ('float',)
                        if not (isf and b is False) and t not in (own_va, own_kw):
                            facts_ok = False
                    empty = facts_ok and walks(node, 'args') and walks(node, 'kwds')
                ctx.ob('R-ROUND', '%s returns its inputs untouched only when they are empty' % node.name, empty)
                if not empty:
                    conds = ['%s is %s' % (render(t)[:60], b) for t, b in truth.items()][:3]
                    ctx.fail('R-ROUND', qual, 'arguments returned unrounded on a fast path',
                             '%s returns (*args, **kwds) as they came on a path decided by %s: whatever floats that test does not recognise (instances of float '
                             'subclasses such as numpy.float64 under an exact type() comparison, floats inside containers) keep all their digits, so calls that agree '
                             'after rounding get different keys' % (node.name, '; '.join(conds) or 'no test at all'), '%s:%d' % (m.rel, o.line or node.lineno), render_path(o))
            # R-ROUND (oracle): wherever an argument element is established to be a float, it is rounded with builtin round(x, tol)
            for t, b in o.st.facts.get('truth', {}).items():
                if b and t[0] == 'call' and t[1] == ('lib', 'isinstance') and len(t[2]) == 2 and class_names(t[2][1]) == ('float',):
                    x = t[2][0]
                    rounded = any(e.kind == 'ROUND' and e.args and e.args[0] == x for e in o.st.events)
                    ctx.ob('R-ROUND', '%s float %s -> round()' % (node.name, unparse_short(x)), rounded)
                    if not rounded:
                        n_custom += 1
                        ctx.fail('R-ROUND', qual, 'float %s not passed to builtin round' % render(x)[:40],
                                 'on a path where %s is known to be a float it is not rounded with the builtin round(x, tol): a hand-written rounding '
                                 '(floor/ceil/format arithmetic) differs from round() on ties, near-ties and huge values, so calls that round to the same value no longer '
                                 'share an entry (or a valid call overflows)' % render(x)[:60], '%s:%d' % (m.rel, node.lineno), render_path(o))
            for e in o.st.events:
                if e.depth > 0 and e.kind == 'REBUILD' and is_main:
                    # a rebuild inside an inlined helper (rebuilt(j, items)): the caller's tests on the element decide whether a str can arrive
                    x = e.args[0]
                    arg = e.args[1] if len(e.args) > 1 else None
                    facts = isinstance_fact(o, x)
                    ok = any((not b) and any(n_ in STRLIKE for n_ in names) for names, b in facts) \
                        or any(b and not any(n_ in STRLIKE for n_ in names) for names, b in facts) or arg == x or x == own_va
                    inlined_rebuilds.setdefault(e.line, []).append((ok, qual, x, arg, o))
                if e.depth > 0:
                    continue    # other events of an inlined local helper are judged when that helper is analysed
                if e.kind == 'ROUND':
                    n_round += 1
                    x = e.args[0]
                    facts = isinstance_fact(o, x)
                    ok = any(b and set(names) <= set(['float']) for names, b in facts)
                    # R-ROUND: the rounding oracle is builtin round(x, tol) applied to the argument itself
                    tolp = ('param', fi.node.args.args[0].arg) if fi.node.args.args else None
                    nd = e.args[1] if len(e.args) > 1 else None
                    rok = nd == tolp or (nd is not None and nd[0] == 'param')
                    rok = rok and x[0] in ('proj', 'iter', 'param', 'sub')
                    ctx.ob('R-ROUND', '%s round(%s)' % (node.name, unparse_short(x)), rok)
                    if not rok:
                        ctx.fail('R-ROUND', qual, 'round(%s%s)' % (render(x)[:40], ', ' + render(nd) if nd is not None else ''),
                                 'the key is not rounded with round(x, tol) on the argument itself (%s): ties, NaN/inf and huge values round differently from the '
                                 'advertised "floats rounded to tol decimals"' % ', '.join(render(a)[:40] for a in e.args),
                                 '%s:%d' % (m.rel, e.line), render_path(o))
                    ctx.ob('R-GUARD', '%s round@%s' % (node.name, unparse_short(x)), ok)
                    if not ok:
                        ctx.fail('R-GUARD', qual, 'round(%s) unguarded' % render(x),
                                 'round() is applied to %s without an isinstance(%s, float) test on the path: integers / other numbers would be altered' % (render(x), render(x)),
                                 '%s:%d' % (m.rel, e.line), render_path(o))
                elif e.kind == 'REBUILD':
                    x = e.args[0]
                    arg = e.args[1] if len(e.args) > 1 else None
                    facts = isinstance_fact(o, x)
                    excluded = any((not b) and any(n_ in STRLIKE for n_ in names) for names, b in facts)
                    known_other = any(b and not any(n_ in STRLIKE for n_ in names) for names, b in facts)
                    identity = arg == x
                    ok = excluded or known_other or identity or x == own_va   # *args is always a tuple
                    if not ok and not is_main and x[0] == 'param':
                        pending_rebuilds.append((e.line, qual, x, arg, o, node.name))
                        continue    # the helper's parameter: what can arrive is decided by its call sites (below)
                    ctx.ob('R-STR', '%s type(%s)(...)' % (node.name, unparse_short(x)), ok)
                    if not ok:
                        ctx.fail('R-STR', qual, 'type(%s)(%s) may rebuild a str' % (render(x), render(arg)[:40] if arg else ''),
                                 'a container is rebuilt as type(%s)(<items>) on a path that does not exclude str: type("abc")(list("abc")) is "[\'a\', \'b\', \'c\']", '
                                 'so a string argument is mangled (the sibling deep_round tests for str before iterating)' % render(x),
                                 '%s:%d' % (m.rel, e.line), render_path(o))
                elif e.kind == 'DSTAR':
                    x = e.args[1]
                    ok = (x == own_kw)
                    ctx.ob('R-KW', '%s **%s' % (node.name, unparse_short(x)), ok)
                    if not ok:
                        ctx.fail('R-KW', qual, '**%s expands a data dict' % render(x),
                                 'a data dictionary (%s) is expanded with ** into a call: keyword names must be strings, so a valid call whose argument is a '
                                 'dict with non-string keys fails with TypeError inside the rounder' % render(x),
                                 '%s:%d' % (m.rel, e.line), render_path(o))
    done = set()
    for line, qual, x, arg, o, hname in pending_rebuilds:
        if line in done:
            continue
        done.add(line)
        sites = inlined_rebuilds.get(line)
        if sites:
            bad = [s_ for s_ in sites if not s_[0]]
            ctx.ob('R-STR', '%s type(%s)(...) at its %d inlined call paths' % (hname, unparse_short(x), len(sites)), not bad)
            if not bad:
                continue
            _, qual, x, arg, o = bad[0]
        else:
            ctx.ob('R-STR', '%s type(%s)(...)' % (hname, unparse_short(x)), False)
        ctx.fail('R-STR', qual, 'type(%s)(%s) may rebuild a str' % (render(x), render(arg)[:40] if arg else ''),
                 'a container is rebuilt as type(%s)(<items>) on a path that does not exclude str: type("abc")(list("abc")) is "[\'a\', \'b\', \'c\']", '
                 'so a string argument is mangled (the sibling deep_round tests for str before iterating)' % render(x),
                 '%s:%d' % (m.rel, line), render_path(o))
    if n_round < 3 and not n_custom:      # at least one rounding site per factory (deep / simple / shallow)
        raise AnalysisError('instance count below confirmed minimum: %d round() call events (< 3)' % n_round)


def unparse_short(x):
    return render(x)[:30]


def rule_R_NONE(ctx, repo):
    """each rounding decorator's func bypasses rounding when tol is None, and otherwise passes the rounder's output"""
    m = repo.mod('rounding')
    for cname in ROUNDERS:
        ci = m.classes.get(cname)
        if ci is None:
            raise AnalysisError('anchor vanished: class %s in klepto/rounding.py' % cname)
        call = resolve_method(m, ci, '__call__')
        if call is None or len(call.node.args.args) != 2:
            raise AnalysisError('anchor vanished: %s.__call__(self, f)' % cname)
        fparam = ('param', call.node.args.args[1].arg)
        model = RModel(m, fparam, cls=ci)
        eng = Engine(model, unroll=1)
        outs = eng.run_function(call.node, {}, params={call.node.args.args[0].arg: SELF})
        rets = [o for o in outs if o.kind == RETURN]
        if len(rets) != 1 or rets[0].val[0] != 'closure':
            raise AnalysisError('%s.__call__ does not return a single closure' % ci.qual)
        node = eng._closures[rets[0].val[2]][0]
        qual = '%s.__call__.%s' % (ci.qual, node.name)
        ctx.analysed(qual)
        a = node.args
        if a.args or not a.vararg or not a.kwarg:
            raise AnalysisError('%s does not take (*args, **kwds)' % qual)
        ARGS, KWDS = ('param', a.vararg.arg), ('param', a.kwarg.arg)
        # the closure may have been defined inside an inlined helper (def _round_inputs(rounder, f): def func...): its free variables
        # live in that helper's environment
        cenv = dict(rets[0].st.env)
        denv = eng._closures[rets[0].val[2]][1]
        if denv:
            for k_, v_ in denv.items():
                cenv.setdefault(k_, v_)
            for k_ in ast.walk(node):
                if isinstance(k_, ast.Name) and k_.id in denv:
                    cenv[k_.id] = denv[k_.id]
        fouts = eng.run_function(node, cenv)
        ctx.add_paths(fouts, qual, trivial_kinds=('BRANCH',))
        for o in fouts:
            if o.kind != RETURN:
                continue
            tolnone = None
            for t, b in o.st.facts.get('truth', {}).items():
                if t[0] == 'cmp' and t[1] == 'is' and t[3] == NONE and contains_term(t[2], lambda x: x[0] == 'attr' and x[2] == 'tol'):
                    tolnone = b
            calls = [e for e in o.st.events if e.kind == 'CALLF']
            rcalls = [e for e in o.st.events if e.kind == 'ROUNDCALL']
            if tolnone is True:
                ok = len(calls) == 1 and not rcalls and calls[0].extra['args'] == (('star', ARGS),) and calls[0].extra['kws'] == (('dstar', KWDS),)
                why = 'with tol=None the decorated function is not called with the original arguments (rounding is not disabled)'
            elif tolnone is False:
                ok = len(calls) == 1 and len(rcalls) == 1 and rcalls[0].extra['args'] == (('star', ARGS),) and rcalls[0].extra['kws'] == (('dstar', KWDS),) \
                    and calls[0].extra['args'] == (('star', ('proj', 0, rcalls[0].val)),) and calls[0].extra['kws'] == (('dstar', ('proj', 1, rcalls[0].val)),)
                why = 'the function is not called with exactly the rounder\'s (args, kwds) output'
            else:
                ok = False
                why = 'the tol-is-None bypass is missing'
            ctx.ob('R-NONE', '%s tolNone=%s' % (cname, tolnone), ok)
            if not ok:
                ctx.fail('R-NONE', qual, 'tol is None=%s: %s' % (tolnone, why[:50]), why, '%s:%d' % (m.rel, node.lineno), render_path(o))
        # __init__ wires __round__ = <same-named factory>(tol), .tol = tol
        init = resolve_method(m, ci, '__init__')
        fac = cname + '_factory'
        ok = False
        if init is not None and len(init.node.args.args) >= 2:
            tolp = ('param', init.node.args.args[1].arg)
            ieng = Engine(RModel(m, cls=ci), unroll=1)
            iparams = {init.node.args.args[0].arg: SELF}
            iparams.update(_optional_defaults(init.node, skip=2, mod=m))      # opt-in parameters of the decorator at their defaults
            iouts = [o for o in ieng.run_function(init.node, {}, params=iparams) if o.kind == RETURN]
            ok = bool(iouts)
            facfn = m.functions.get(fac)
            facdef = _optional_defaults(facfn.node, skip=1) if facfn is not None else {}
            facpos = [a_.arg for a_ in (facfn.node.args.posonlyargs + facfn.node.args.args)] if facfn is not None else []
            for o in iouts:
                sets = [e for e in o.st.events if e.kind == 'SELFSET']
                rset = [e for e in sets if e.args[0] == SELF and e.args[1] == C('__round__')]
                tset = [e for e in sets if e.args[0] == ('attr', SELF, '__round__') and e.args[1] == C('tol')]
                good = (len(rset) == 1 and rset[0].args[2][0] == 'call' and rset[0].args[2][1] == ('lib', '%s.%s' % (m.rel, fac))
                        and rset[0].args[2][2][:1] == (tolp,)
                        and len(tset) == 1 and tset[0].args[2] == tolp)
                if good:
                    # further arguments are the factory's own defaults (the call is factory(tol) for every existing caller)
                    call_ = rset[0].args[2]
                    for i_, a_ in enumerate(call_[2][1:], 1):
                        good = good and i_ < len(facpos) and facdef.get(facpos[i_]) == a_
                    for k_ in call_[3]:
                        good = good and k_[0] == 'kw' and facdef.get(k_[1]) == k_[2]
                ok = ok and good
        # an alias / second spelling of the tolerance cannot use None as its "not given" marker: tol=None is a value of its own (rounding switched off)
        if init is not None and len(init.node.args.args) >= 2:
            a_ = init.node.args
            first_ = a_.args[1].arg
            opt_none = [x.arg for x, dv in list(zip(a_.args[len(a_.args) - len(a_.defaults):], a_.defaults)) + [(x, dv) for x, dv in zip(a_.kwonlyargs, a_.kw_defaults) if dv is not None]
                        if isinstance(dv, ast.Constant) and dv.value is None and x.arg != first_]
            for x in ast.walk(init.node):
                if isinstance(x, ast.If) and isinstance(x.test, ast.Compare) and len(x.test.ops) == 1 and isinstance(x.test.ops[0], (ast.Is, ast.IsNot)) \
                        and isinstance(x.test.left, ast.Name) and x.test.left.id in opt_none and isinstance(x.test.comparators[0], ast.Constant) \
                        and x.test.comparators[0].value is None:
                    arm = x.body if isinstance(x.test.ops[0], ast.IsNot) else x.orelse
                    takes = any(isinstance(y, ast.Assign) and any(isinstance(t, ast.Name) and t.id == first_ for t in y.targets)
                                and any(isinstance(z, ast.Name) and z.id == x.test.left.id for z in ast.walk(y.value)) for st_ in arm for y in ast.walk(st_))
                    ctx.ob('R-NONE', '%s.__init__: `%s` is not taken for "not given" when it is None' % (cname, x.test.left.id), not takes)
                    if takes:
                        ctx.fail('R-NONE', init.qual, '%s=None read as "not given"' % x.test.left.id,
                                 '%s.__init__ takes the tolerance from `%s` unless it is None: None is a tolerance of its own (rounding switched off), so a decorator built with '
                                 '%s=None silently rounds to the default number of digits - calls that differ in their decimals share an entry, and its copy / pickle does too'
                                 % (cname, x.test.left.id, x.test.left.id), '%s:%d' % (m.rel, x.lineno))
        ctx.ob('R-NONE', '%s.__init__' % cname, ok)
        if not ok:
            ctx.fail('R-NONE', (init.qual if init is not None else ci.qual), 'wiring', '%s.__init__ does not set __round__ = %s(tol) with .tol = tol' % (cname, fac),
                     init.where if init is not None else ci.where)
        red = resolve_method(m, ci, '__reduce__')
        if red is not None:
            from .peval import PEval, Sym, Unknown
            try:
                pv = PEval(m).run(red.node)
            except Unknown as e:
                raise AnalysisError('%s.__reduce__: unrecognised builder (%s)' % (cname, e))
            ok = isinstance(pv, tuple) and len(pv) == 2 and pv[0] == Sym('class') and pv[1] == (Sym('attr', '__round__', 'tol'),)
            ctx.ob('R-RED', cname, ok)
            if not ok:
                ctx.fail('R-RED', red.qual, '__reduce__', '%s.__reduce__ does not rebuild the decorator from its tolerance' % cname, red.where)


def rule_W_RND(ctx, decs):
    """state.roundargs = rounded(tol)(identity) with rounded = deep_round if deep else simple_round"""
    for d in decs:
        init = d.ci.methods['__init__']
        model = RModel(d.module)
        eng = Engine(model, unroll=1)
        params = [a.arg for a in init.node.args.args]
        outs = eng.run_function(init.node, {}, params={params[0]: SELF})
        ctx.analysed(init.qual)
        n = 0
        for o in outs:
            if o.kind != RETURN:
                continue
            sets = [e for e in o.st.events if e.kind == 'SELFSET' and e.args[1] == C('__state__')]
            if not sets:
                continue
            n += 1
            stt = sets[-1].args[2]
            vals = dict((k[1], v) for k, v in stt[1] if k is not None and is_const(k)) if stt[0] == 'dict' else {}
            ra = vals.get('roundargs')
            deep = o.st.facts.get('truth', {}).get(('param', 'deep'))
            want = 'deep_round' if deep else 'simple_round'
            ok = ra is not None and ra[0] == 'call' and ra[1][0] == 'call' and ra[1][1][0] == 'lib' and libname(ra[1][1]) == want \
                and ra[1][2] == (('param', 'tol'),) and len(ra[2]) == 1 and ra[2][0][0] == 'closure'
            why = 'state roundargs is %s, expected %s(tol)(identity) for deep=%s' % (render(ra) if ra else None, want, deep)
            if ok:
                fn = eng._closures[ra[2][0][2]][0]
                a = fn.args
                body = [s for s in fn.body if not (isinstance(s, ast.Expr) and isinstance(s.value, ast.Constant))]
                ok = (not a.args and a.vararg and a.kwarg and len(body) == 1 and isinstance(body[0], ast.Return)
                      and isinstance(body[0].value, ast.Tuple) and len(body[0].value.elts) == 2
                      and all(isinstance(e, ast.Name) for e in body[0].value.elts)
                      and body[0].value.elts[0].id == a.vararg.arg and body[0].value.elts[1].id == a.kwarg.arg)
                why = 'the function wrapped by the rounder is not the identity (args, kwds)'
            if ok:
                ok = vals.get('tol') == ('param', 'tol') and vals.get('deep') == ('param', 'deep')
                why = 'state tol/deep are not the constructor arguments'
            ctx.ob('W-RND', '%s deep=%s' % (d.qual, deep), ok)
            if not ok:
                ctx.fail('W-RND', init.qual, 'roundargs deep=%s' % deep, why, '%s:%d' % (d.module.rel, init.node.lineno), render_path(o))
        if n < 2:
            raise AnalysisError('%s: fewer __state__-setting paths than confirmed' % init.qual)


def rule_W_KEY_keygen(ctx, repo):
    """the two key computations of klepto.keygen (dec.func and dec.key) have the same normal form as the wrappers"""
    m = repo.mod('_inspect')
    fi = m.functions.get('keygen')
    if fi is None:
        raise AnalysisError('anchor vanished: klepto/_inspect.py::keygen')
    model = RModel(m)
    eng = Engine(model, unroll=1)
    outs = [o for o in eng.run_function(fi.node, {}) if o.kind == RETURN]
    n = 0
    for o in outs:
        if o.val[0] != 'closure':
            continue
        dec = eng._closures[o.val[2]][0]
        deep = o.st.facts.get('truth', {}).get(None)
        douts = [x for x in eng.run_function(dec, o.st.env) if x.kind == RETURN]
        for do in douts:
            env = do.st.env
            fparam = ('param', dec.args.args[0].arg)
            ra = env.get('rounded_args')
            ignored = ('param', fi.node.args.vararg.arg)
            for cname in ('func', 'key'):
                cv = env.get(cname)
                if cv is None or cv[0] != 'closure':
                    raise AnalysisError('anchor vanished: keygen.dec.%s' % cname)
                cnode = eng._closures[cv[2]][0]
                qual = '%s.dec.%s' % (fi.qual, cname)
                ctx.analysed(qual)
                for co in eng.run_function(cnode, env):
                    if co.kind != RETURN:
                        continue
                    n += 1
                    v = co.val
                    ok = False
                    try:
                        # v = M(*p0(G), **p1(G)); G = _keygen(f, ignored, *p0(R), **p1(R)); R = rounded_args(*A, **K)
                        G = v[2][0][1][2]
                        ok = (v[0] == 'call' and v[2] == (('star', ('proj', 0, G)),) and v[3] == (('dstar', ('proj', 1, G)),)
                              and G[0] == 'call' and libname(G[1]) == '_keygen' and G[2][0] == fparam
                              and (G[2][1] == ignored or contains_term(G[2][1], lambda t: t == ignored)))     # the decorator's specification (possibly extended by an option)
                        # ... whole: not a selection of its entries (a comprehension with a filter, a slice) - an entry "that cannot match" by the reckoning of
                        # signature() (a required keyword-only parameter is in none of its lists) is still matched by _keygen among the call's keywords
                        if ok and G[2][1] != ignored and contains_term(G[2][1], lambda t: (t[0] == 'comp' and len(t) > 3 and contains_term(t, lambda u: u == ignored))
                                                                       or (t[0] == 'sub' and t[1] == ignored)):
                            ok = False
                        Rr = G[2][2][1][2]
                        ok = ok and G[2][2] == ('star', ('proj', 0, Rr)) and G[3] == (('dstar', ('proj', 1, Rr)),)
                        ok = ok and Rr[0] == 'call' and Rr[1] == ra and len(Rr[2]) == 1 and Rr[2][0][0] == 'star' and len(Rr[3]) == 1 and Rr[3][0][0] == 'dstar'
                        A, Kk = Rr[2][0][1], Rr[3][0][1]
                        if cname == 'func':
                            ok = ok and A == ('param', cnode.args.vararg.arg) and Kk == ('param', cnode.args.kwarg.arg)
                        else:
                            # the remembered pair: _args[0], _args[1] - or one snapshot of both slots (tuple(_args))
                            ok = ok and ((A[0] == 'sub' and Kk[0] == 'sub' and A[1] == Kk[1] and A[2] == C(0) and Kk[2] == C(1)) or
                                         (A[0] == 'proj' and Kk[0] == 'proj' and A[2] == Kk[2] and A[1] == 0 and Kk[1] == 1))
                        # the keymap is the registered one
                        ok = ok and v[1][0] == 'sub' and v[1][2] == C(0)
                    except (IndexError, TypeError):
                        ok = False
                    if cname == 'func':
                        # W-ARGS: what func() remembers for call() / key() / valid() are the caller's own argument objects, as passed (no copy: the decorated
                        # function must receive the originals - identity, in-place results, uncopyable arguments)
                        pa, pk = ('param', cnode.args.vararg.arg), ('param', cnode.args.kwarg.arg)
                        stores = [e for e in co.st.events if e.kind == 'SETITEM' and e.depth == 0 and len(e.args) == 3 and is_const(e.args[1]) and e.args[1][1] in (0, 1)]
                        remembered = dict((e.args[1][1], e.args[2]) for e in stores)
                        for e in co.st.events:      # _args[:] = args, kwds
                            if e.kind == 'SETITEM' and e.depth == 0 and len(e.args) == 3 and e.args[1][0] == 'slice' and e.args[2][0] == 'tuple' and len(e.args[2][1]) == 2:
                                remembered = {0: e.args[2][1][0], 1: e.args[2][1][1]}
                        aok = remembered.get(0) == pa and remembered.get(1) == pk
                        ctx.ob('W-ARGS', 'keygen.dec.func remembers (args, kwds) themselves', aok)
                        if not aok:
                            ctx.fail('W-ARGS', qual, 'remembered arguments %s' % render(remembered.get(0, ('opaque', 'nothing')))[:60],
                                     'klepto.keygen\'s func() stores %s / %s as the "last arguments": call() then hands the decorated function something else than the '
                                     'objects the caller passed (copies lose identity and in-place effects, and an argument that cannot be copied makes a valid call fail)'
                                     % (render(remembered.get(0, ('opaque', 'nothing')))[:60], render(remembered.get(1, ('opaque', 'nothing')))[:60]),
                                     '%s:%d' % (m.rel, cnode.lineno), render_path(co))
                        cells = set(e.args[0] for e in co.st.events if e.kind == 'SETITEM' and e.depth == 0 and len(e.args) == 3)
                        # ... and only func() writes them: call(), valid() and key() read the same slots, in any order and any number of times
                        for oname, ov in sorted(env.items()):
                            if oname == 'func' or not isinstance(ov, tuple) or not ov or ov[0] != 'closure' or ov[2] not in eng._closures:
                                continue
                            onode = eng._closures[ov[2]][0]
                            if not isinstance(onode, ast.FunctionDef) or onode.args.vararg is not None or onode.args.args:
                                continue        # the argument-less accessors
                            hit = None
                            for oo in eng.run_function(onode, env):
                                for e in oo.st.events:
                                    if e.kind == 'SETITEM' and len(e.args) == 3 and e.args[0] in cells:
                                        hit = (e, oo)
                            ctx.ob('W-ARGS', 'keygen.dec.%s leaves the remembered arguments alone' % oname, hit is None)
                            if hit is not None:
                                e, oo = hit
                                ctx.fail('W-ARGS', '%s.dec.%s' % (fi.qual, oname), '%s() overwrites the remembered arguments' % oname,
                                         'klepto.keygen\'s %s() stores %s into the slots that hold the most recently provided (*args, **kwds): key(), valid() and call() all '
                                         'read those slots, so after %s() they answer for other arguments than the ones provided - `memo[f.key()] = f.call()` files every '
                                         'result under the key of the argument-less call' % (oname, render(e.args[2])[:40], oname), '%s:%d' % (m.rel, e.line), render_path(oo))
                    ctx.ob('W-KEY', 'keygen.dec.%s' % cname, ok)
                    if not ok:
                        ctx.fail('W-KEY', qual, 'keygen %s key %s' % (cname, render(v)[:80]),
                                 'klepto.keygen\'s %s() does not compute keymap(*_keygen(f, ignored, *rounded_args(*args, **kwds))): %s' % (cname, render(v)[:200]),
                                 '%s:%d' % (m.rel, cnode.lineno), render_path(co))
    if n < 2:
        raise AnalysisError('instance count below confirmed minimum: %d key computations in klepto.keygen' % n)


def rule_R_ITER(ctx, repo):
    """R-ITER: what the deep rounder descends into is decided by asking the object (iter(x) succeeds, or it is an instance of collections.abc.Iterable), not
    by the presence of an `__iter__` attribute: classes such as `list` or `dict` have that attribute without being iterable, and expanding one with
    deep_round(*list) raises TypeError - rounding makes a valid call fail (in klepto.safe: silently stops caching)."""
    m = repo.mod('tools')
    fi = m.functions.get('isiterable')
    if fi is None:
        raise AnalysisError('anchor vanished: klepto/tools.py::isiterable')
    p0 = fi.node.args.args[0].arg if fi.node.args.args else None
    bad = None
    for n in ast.walk(fi.node):
        if isinstance(n, ast.Call) and isinstance(n.func, ast.Name) and n.func.id == 'hasattr' and len(n.args) == 2 and isinstance(n.args[0], ast.Name) \
                and n.args[0].id == p0 and isinstance(n.args[1], ast.Constant) and n.args[1].value in ('__iter__', '__len__', '__getitem__', '__next__'):
            bad = n
    ctx.analysed(fi.qual)
    ctx.ob('R-ITER', 'isiterable asks the object, not its attribute table', bad is None)
    if bad is not None:
        ctx.fail('R-ITER', fi.qual, 'iterability decided by hasattr(%s)' % bad.args[1].value,
                 'isiterable() answers from hasattr(x, %r): a class object (list, dict, a user class defining __iter__ for its instances) has the attribute but is not '
                 'iterable, so with deep=True an argument that is such a class is expanded with deep_round(*cls) and raises TypeError - rounding makes a valid call '
                 'fail, and the safe caches silently stop caching it' % bad.args[1].value, '%s:%d' % (m.rel, bad.lineno))


def rule_R_PURE(ctx, repo):
    """the rounders never mutate the caller's objects in place (the function must receive the original arguments)"""
    from . import own
    n = 0
    for modname in ('rounding', '_inspect'):
        m = repo.mod(modname)
        shared, results = own.analyse_module(m)
        n += sum(len(ft.sites) for ft in results.values())
        # module-level helpers (leading underscore, used by no other module of the package, called inside this one) are judged at their call sites
        used_elsewhere = set()
        for om in repo.modules.values():
            if om is not m:
                for origin in om.imports.values():
                    used_elsewhere.add(origin.split('.')[-1])
        called = set(callee for ft in results.values() for _, callee, _ in ft.calls)
        private = set(n_ for n_ in m.functions if n_.startswith('_') and not n_.startswith('__') and n_ not in used_elsewhere and n_ in called)
        # nested helpers that never leave the function they are defined in (only ever *called* there: `def walk(j, path)` inside a factory) are
        # private too: a working set they fill belongs to whoever passes it, and is judged there
        for top, tfi in m.functions.items():
            for g in [y for y in ast.walk(tfi.node) if isinstance(y, ast.FunctionDef) and y is not tfi.node]:
                callee_ids = set(id(c.func) for c in ast.walk(tfi.node) if isinstance(c, ast.Call))
                escapes = any(isinstance(y, ast.Name) and y.id == g.name and isinstance(y.ctx, ast.Load) and id(y) not in callee_ids for y in ast.walk(tfi.node))
                if not escapes:
                    private.add('%s.%s' % (top, g.name))
        for q, node, recv, pname, via in own.param_mutations(results, private):
            if via:
                msg = '%s passes the caller-owned object "%s" (from parameter %s) to %s(), which mutates that argument in place' % (q, recv, pname, via)
            else:
                msg = '%s mutates "%s" in place, and that object belongs to the caller (it is, or is an element of, parameter %s)' % (q, recv, pname)
            ctx.ob('R-PURE', '%s::%s' % (m.rel, q), False)
            ctx.fail('R-PURE', '%s::%s' % (m.rel, q), 'caller-owned %s mutated%s' % (recv, ' via ' + via if via else ''),
                     msg + ': computing a key changes the arguments the function then receives (and the caller\'s own data)', '%s:%d' % (m.rel, node.lineno))
    ctx.ob('R-PURE', 'in-place mutation sites examined', True, n=max(1, n))


def _rebuilt_recursively(val, events, rounder):
    """the stored value is built from the rounder's recursive result: it contains the recursive call, or it is a fresh object (a copy of the
    container) into which recursively rounded values were then assigned (new = copy(j); for k, v in zip(new, values): new[k] = v)"""
    def rec(t):
        return contains_term(t, lambda x: x[0] == 'call' and x[1][0] == 'opaque' and x[1][1] == rounder)
    if rec(val):
        return True
    base = val[1] if val[0] == 'mut' else val
    for e2 in events:
        if e2.kind == 'SETITEM' and len(e2.args) == 3 and rec(e2.args[2]):
            tgt = e2.args[0]
            tb = tgt[1] if tgt[0] == 'mut' else tgt
            if tb == base:
                return True
    return False


def rule_R_DEEP(ctx, repo):
    """deep rounding reaches floats at any depth: dict values and the elements of every other iterable are rounded recursively"""
    m, closures = factory_closures(repo)
    found = {('dict', 'args'): False, ('dict', 'kwds'): False, ('iter', 'args'): False, ('iter', 'kwds'): False}
    qual = None
    for fi, node, env, eng, is_main in closures:
        if fi.name != 'deep_round_factory' or not is_main:
            continue
        qual = '%s.%s' % (fi.qual, node.name)
        st = St(env=dict(env), frames=(node.name,))
        eng._bind_params_symbolic(node, st, None)
        outs = eng.exec_block(node.body, st)
        va = ('param', node.args.vararg.arg) if node.args.vararg else None
        for o in outs:
            truth = o.st.facts.get('truth', {})
            for e in o.st.events:
                if e.kind != 'SETITEM' or e.depth > 0:
                    continue
                val = e.args[2]
                rec = _rebuilt_recursively(val, o.st.events, node.name)
                if not rec:
                    continue
                idx = e.args[1]
                # which of (*args, **kwds) does the loop that stores this element run over (one merged loop may cover both)
                kwp = ('param', node.args.kwarg.arg) if node.args.kwarg else None
                over_args = contains_term(idx, lambda t: t[0] == 'iter' and contains_term(t[1], lambda u: u == va))
                over_kwds = contains_term(idx, lambda t: t[0] == 'iter' and contains_term(t[1], lambda u: u == kwp)) or not over_args
                loops = (['args'] if over_args else []) + (['kwds'] if over_kwds else [])
                # which guard holds for the element on this path
                for t, b in truth.items():
                    if not b or t[0] != 'call':
                        continue
                    for loop in loops:
                        if t[1] == ('lib', 'isinstance') and len(t[2]) == 2 and 'dict' in class_names(t[2][1]) and contains_term(val, lambda u: u == t[2][0]):
                            found[('dict', loop)] = True
                        if t[1][0] == 'lib' and libname(t[1]) == 'isiterable' and contains_term(val, lambda u: u == ('star', t[2][0])):
                            found[('iter', loop)] = True
    if qual is None:
        raise AnalysisError('anchor vanished: deep_round_factory.deep_round')
    # ... and on every path: an element that passed the container guard is rebuilt from its recursively rounded elements (only an empty one may be skipped)
    skipped = None
    npaths = 0
    for fi, node, env, eng, is_main in closures:
        if fi.name != 'deep_round_factory' or not is_main:
            continue
        st = St(env=dict(env), frames=(node.name,))
        eng._bind_params_symbolic(node, st, None)
        for o in eng.exec_block(node.body, st):
            if o.kind != RETURN:
                continue
            npaths += 1
            truth = o.st.facts.get('truth', {})
            stores = [e.args[2] for e in o.st.events if e.kind == 'SETITEM' and e.depth == 0 and _rebuilt_recursively(e.args[2], o.st.events, node.name)]
            for t, b in truth.items():
                if not b or t[0] != 'call' or not t[2]:
                    continue
                isd = t[1] == ('lib', 'isinstance') and len(t[2]) == 2 and 'dict' in class_names(t[2][1])
                isi = t[1][0] == 'lib' and libname(t[1]) == 'isiterable'
                if not (isd or isi):
                    continue
                x = t[2][0]
                if isi and any(tt[0] == 'call' and tt[1] == ('lib', 'isinstance') and bb and tt[2] and tt[2][0] == x for tt, bb in truth.items()):
                    continue      # an earlier isinstance branch (float, str, dict) took this element
                if any(contains_term(v, lambda u: u == x) for v in stores):
                    continue
                if truth.get(x) is False:
                    continue      # an empty container: nothing to round
                if any(contains_term(z, lambda u: u[0] == 'call' and u[1][0] == 'opaque' and u[1][1] == node.name and contains_term(u, lambda w: w == x))
                       for z in o.st.facts.get('zeroit', ())):
                    continue      # the loop over its recursively rounded elements ran zero times: the container is empty
                extra = [render(tt)[:40] + ('' if bb else ' is false') for tt, bb in truth.items()
                         if tt is not t and contains_term(tt, lambda u: u == x) and not (tt[0] == 'call' and tt[1] == ('lib', 'isinstance'))
                         and not (tt[0] == 'call' and tt[1][0] == 'lib' and libname(tt[1]) == 'isiterable')]
                if skipped is None:
                    skipped = (o, 'dict' if isd else 'iterable', extra)
    ctx.ob('R-DEEP', 'every container element is rebuilt from its rounded elements on every path (%d paths)' % npaths, skipped is None)
    if skipped is not None:
        o, kind, extra = skipped
        ctx.fail('R-DEEP', qual, 'recursion into a %s skipped when %s' % (kind, '; '.join(extra) or 'a further condition holds'),
                 'deep_round leaves a %s argument as it is on a path where %s: the floats inside it (at any depth below) keep their digits, so two calls that agree '
                 'after rounding get different keys' % (kind, '; '.join(extra) or 'a further condition holds'), '%s:%d' % (m.rel, o.line or 1), render_path(o))
    for (kind, loop), ok in sorted(found.items()):
        ctx.ob('R-DEEP', 'deep_round %s in %s' % (kind, loop), ok)
        if not ok:
            ctx.fail('R-DEEP', qual, '%s elements of %s not rounded recursively' % (kind, loop),
                     'deep_round does not round the %s found in its %s recursively: floats nested at depth inside such containers keep their digits, so calls that '
                     'should share an entry get different keys' % ('values of dicts' if kind == 'dict' else 'elements of lists/tuples/sets', 'positional arguments' if loop == 'args' else 'keyword arguments'),
                     '%s:%d' % (m.rel, 1))


MUTATORS = ('add', 'discard', 'remove', 'append', 'extend', 'insert', 'pop', 'popitem', 'clear', 'update', 'setdefault', 'appendleft', 'popleft', '__setitem__', '__delitem__')


def rule_R_STATELESS(ctx, repo):
    """R-PURE (a rounder is a function of its arguments and the tolerance).  The factories build one rounder per decorator; it lives as long as the decorated
    function.  A mutable object created at factory level and changed by the rounder (a set of container ids "being rounded", a memo of results) is state
    shared by all calls of that function: after a call that raised half-way, or simply after earlier calls, the same arguments round differently - the
    key of a call then depends on the history of the process, and a later session computes another key for the entry it should load."""
    m = repo.mod('rounding')
    n = 0
    for fname in FACTORIES:
        fi = m.functions.get(fname)
        if fi is None:
            raise AnalysisError('anchor vanished: klepto/rounding.py::%s' % fname)
        fn = fi.node
        from .src import _own_scope_nodes
        level = {}
        for x in _own_scope_nodes(fn):
            if isinstance(x, ast.Assign) and len(x.targets) == 1 and isinstance(x.targets[0], ast.Name):
                v = x.value
                mutable = isinstance(v, (ast.List, ast.Dict, ast.Set, ast.ListComp, ast.DictComp, ast.SetComp)) or (
                    isinstance(v, ast.Call) and isinstance(v.func, (ast.Name, ast.Attribute)) and
                    (v.func.id if isinstance(v.func, ast.Name) else v.func.attr) in ('set', 'list', 'dict', 'deque', 'defaultdict', 'OrderedDict', 'Counter', 'WeakSet', 'WeakValueDictionary'))
                if mutable:
                    level[x.targets[0].id] = x.lineno
        n += 1
        bad = None
        for g in [y for y in ast.walk(fn) if isinstance(y, ast.FunctionDef) and y is not fn]:
            local = set(a.arg for a in g.args.args + g.args.kwonlyargs) | set(t.id for t in ast.walk(g) if isinstance(t, ast.Name) and isinstance(t.ctx, ast.Store))
            for y in ast.walk(g):
                nm = None
                if isinstance(y, ast.Call) and isinstance(y.func, ast.Attribute) and y.func.attr in MUTATORS and isinstance(y.func.value, ast.Name):
                    nm = y.func.value.id
                elif isinstance(y, ast.Subscript) and isinstance(y.ctx, (ast.Store, ast.Del)) and isinstance(y.value, ast.Name):
                    nm = y.value.id
                elif isinstance(y, ast.AugAssign) and isinstance(y.target, ast.Name):
                    nm = y.target.id if y.target.id in level and y.target.id not in local - set([y.target.id]) else None
                if nm in level and nm not in local and bad is None:
                    bad = (g, y, nm)
        ctx.ob('R-PURE', '%s: the rounder changes no object created at factory level' % fname, bad is None)
        if bad is not None:
            g, y, nm = bad
            ctx.fail('R-PURE', '%s.%s' % (fi.qual, g.name), 'state `%s` shared between calls' % nm,
                     '%s creates `%s` once per decorated function (line %d) and %s() changes it on every call: what a call leaves behind - in particular when rounding '
                     'raises part-way and the clean-up is skipped - changes how later arguments are rounded, so the same call gets different keys at different times '
                     '(and another key than the session that archived its result)' % (fname, nm, level[nm], g.name), '%s:%d' % (m.rel, y.lineno))
    ctx.ob('R-PURE', 'rounder factories examined for state kept between calls', True, n=n)


def rule_R_NOORDER(ctx, repo):
    """R-SAFE (rounding asks nothing of the arguments but what it needs).  The rounders look at floats and walk containers.  Ordering user data -
    `sorted(d)`, `.sort()`, `min` / `max` over keys or elements - compares arbitrary objects with `<`: a dict with keys of mixed types ({1: .., 'a': .., None: ..})
    or unorderable elements makes a valid call fail inside the rounder (and in klepto.safe silently switches caching off for it)."""
    m, closures = factory_closures(repo)
    n = 0
    seen = set()
    for fi, node, env, eng, is_main in closures:
        if id(node) in seen:
            continue
        seen.add(id(node))
        n += 1
        params = set(a.arg for a in node.args.posonlyargs + node.args.args + node.args.kwonlyargs)
        if node.args.vararg:
            params.add(node.args.vararg.arg)
        if node.args.kwarg:
            params.add(node.args.kwarg.arg)
        # everything bound from the parameters is user data
        data = set(params)
        for _r in range(3):
            for x in ast.walk(node):
                if isinstance(x, ast.Assign) and any(isinstance(y, ast.Name) and y.id in data for y in ast.walk(x.value)):
                    for t in x.targets:
                        for e in ast.walk(t):
                            if isinstance(e, ast.Name):
                                data.add(e.id)
                if isinstance(x, (ast.For, ast.comprehension)) and any(isinstance(y, ast.Name) and y.id in data for y in ast.walk(x.iter)):
                    for e in ast.walk(x.target):
                        if isinstance(e, ast.Name):
                            data.add(e.id)
        bad = None
        for x in ast.walk(node):
            if isinstance(x, ast.Call):
                nm = x.func.id if isinstance(x.func, ast.Name) else x.func.attr if isinstance(x.func, ast.Attribute) else ''
                args_ = list(x.args) + ([x.func.value] if isinstance(x.func, ast.Attribute) and nm == 'sort' else [])
                if nm in ('sorted', 'sort', 'min', 'max', 'nsmallest', 'nlargest', 'bisect') and any(isinstance(y, ast.Name) and y.id in data for a_ in args_ for y in ast.walk(a_)) \
                        and not any(k.arg == 'key' for k in x.keywords):
                    bad = x
                    break
        ctx.ob('R-SAFE', '%s.%s orders none of its arguments' % (fi.qual, node.name), bad is None)
        if bad is not None:
            ctx.fail('R-SAFE', '%s.%s' % (fi.qual, node.name), '%s over user data' % unparse(bad)[:30],
                     '%s orders user data with `%s`: objects of different types (or without `<`) cannot be ordered, so a call with such a container raises TypeError inside the '
                     'rounder although the function itself accepts it - in klepto.safe the call is then silently never cached' % (node.name, unparse(bad)[:40]),
                     '%s:%d' % (m.rel, bad.lineno))
    ctx.ob('R-SAFE', 'rounders examined for ordering of user data', True, n=n)
